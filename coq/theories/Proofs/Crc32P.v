(* Burst-error detection of the CRC-32 register (Model/Crc32.v).
   No polynomial algebra: only xor-linearity of the step and the fact that the
   top bit of the polynomial is set. *)
From Coq Require Import List NArith Bool Arith Lia.
From MechV Require Import Model.Crc32.
Import ListNotations.

(* ---------- xor on bit lists ---------- *)
Lemma xorl_length a : forall b, length a = length b -> length (xorl a b) = length a.
Proof. induction a as [|x a IH]; intros [|y b] H; cbn in *; try lia. rewrite IH; lia. Qed.

Lemma xorl_comm a : forall b, xorl a b = xorl b a.
Proof. induction a as [|x a IH]; intros [|y b]; cbn; try reflexivity. rewrite xorb_comm, IH. reflexivity. Qed.

Lemma xorl_assoc a : forall b c, xorl (xorl a b) c = xorl a (xorl b c).
Proof. induction a as [|x a IH]; intros [|y b] [|z c]; cbn; try reflexivity. rewrite xorb_assoc, IH. reflexivity. Qed.

Lemma xorl_zeros_r a : xorl a (zeros (length a)) = a.
Proof. unfold zeros. induction a as [|x a IH]; cbn; [reflexivity|]. rewrite xorb_false_r, IH. reflexivity. Qed.

Lemma xorl_zeros_l a : xorl (zeros (length a)) a = a.
Proof. rewrite xorl_comm. apply xorl_zeros_r. Qed.

Lemma xorl_self a : xorl a a = zeros (length a).
Proof. unfold zeros. induction a as [|x a IH]; cbn; [reflexivity|]. rewrite xorb_nilpotent, IH. reflexivity. Qed.

Lemma xorl_interchange a : forall b c d,
  xorl (xorl a b) (xorl c d) = xorl (xorl a c) (xorl b d).
Proof.
  induction a as [|x a IH]; intros [|y b] [|z c] [|w d]; cbn; try reflexivity.
  rewrite IH. f_equal. destruct x, y, z, w; reflexivity.
Qed.

Lemma xorl_cancel_l a : forall b c, length a = length b -> length a = length c ->
  xorl a b = xorl a c -> b = c.
Proof.
  induction a as [|x a IH]; intros [|y b] [|z c] Hb Hc H; cbn in *; try lia; [reflexivity|].
  injection H as H1 H2. f_equal; [destruct x, y, z; cbn in *; congruence | apply IH; lia || assumption].
Qed.

Lemma xorl_app a : forall b c d, length a = length c ->
  xorl (a ++ b) (c ++ d) = xorl a c ++ xorl b d.
Proof. induction a as [|x a IH]; intros b [|z c] d H; cbn in *; try lia; [reflexivity|]. rewrite IH by lia. reflexivity. Qed.

Lemma zeros_length n : length (zeros n) = n. Proof. apply repeat_length. Qed.
Lemma ones_length n : length (ones n) = n. Proof. apply repeat_length. Qed.

Lemma scale_length c w : length (scale c w) = length w. Proof. apply map_length. Qed.
Lemma scale_false w : scale false w = zeros (length w).
Proof. induction w; cbn; [reflexivity|]. unfold scale, zeros in *. rewrite IHw. reflexivity. Qed.
Lemma scale_true w : scale true w = w.
Proof. induction w; cbn; [reflexivity|]. unfold scale in *. rewrite IHw. reflexivity. Qed.
Lemma scale_xorb a b w : scale (xorb a b) w = xorl (scale a w) (scale b w).
Proof. induction w as [|x w IH]; cbn; [reflexivity|]. unfold scale in *. rewrite IH. f_equal. destruct a, b, x; reflexivity. Qed.

(* ---------- words ---------- *)
Definition wfw (d : word) : Prop := length d = 32.

Lemma poly_wf : wfw poly. Proof. reflexivity. Qed.

Lemma shr_length d : d <> [] -> length (shr d) = length d.
Proof. destruct d; [congruence|]. intros _. unfold shr. cbn. rewrite app_length. cbn. lia. Qed.

Lemma wfw_nonnil d : wfw d -> d <> []. Proof. intros H E. subst. discriminate. Qed.

Lemma lstep_wf d b : wfw d -> wfw (lstep d b).
Proof.
  intros H. unfold wfw, lstep. rewrite xorl_length; rewrite shr_length by (apply wfw_nonnil; exact H).
  - exact H.
  - rewrite scale_length. rewrite H. reflexivity.
Qed.

Lemma run_wf bits : forall d, wfw d -> wfw (run d bits).
Proof. induction bits as [|b bits IH]; intros d H; cbn; [exact H|]. apply IH. apply lstep_wf. exact H. Qed.

Lemma shr_xorl a b : wfw a -> wfw b -> shr (xorl a b) = xorl (shr a) (shr b).
Proof.
  unfold wfw, shr. destruct a as [|x a], b as [|y b]; cbn; try discriminate. intros Ha Hb.
  rewrite xorl_app by lia. reflexivity.
Qed.

Lemma hd_xorl a b : wfw a -> wfw b -> hd false (xorl a b) = xorb (hd false a) (hd false b).
Proof. destruct a, b; cbn; try discriminate. reflexivity. Qed.

(* ---------- linearity ---------- *)
Lemma lstep_linear d d' b b' : wfw d -> wfw d' ->
  lstep (xorl d d') (xorb b b') = xorl (lstep d b) (lstep d' b').
Proof.
  intros H H'. unfold lstep. rewrite shr_xorl, hd_xorl by assumption.
  rewrite xorl_interchange. f_equal.
  replace (xorb (xorb (hd false d) (hd false d')) (xorb b b'))
    with (xorb (xorb (hd false d) b) (xorb (hd false d') b')) by (destruct (hd false d), (hd false d'), b, b'; reflexivity).
  apply scale_xorb.
Qed.

Lemma run_linear bits : forall bits' d d', wfw d -> wfw d' -> length bits = length bits' ->
  run (xorl d d') (xorl bits bits') = xorl (run d bits) (run d' bits').
Proof.
  induction bits as [|b bits IH]; intros [|b' bits'] d d' H H' L; cbn in *; try lia; [reflexivity|].
  rewrite lstep_linear by assumption. apply IH; [apply lstep_wf; assumption | apply lstep_wf; assumption | lia].
Qed.

Lemma run_app d a b : run d (a ++ b) = run (run d a) b.
Proof. unfold run. apply fold_left_app. Qed.

(* ---------- zero inputs ---------- *)
Lemma lstep_zeros : lstep (zeros 32) false = zeros 32. Proof. reflexivity. Qed.

Lemma run_zeros n : run (zeros 32) (zeros n) = zeros 32.
Proof.
  induction n as [|n IH]; [reflexivity|].
  change (zeros (S n)) with (false :: zeros n). change (run (zeros 32) (false :: zeros n)) with (run (lstep (zeros 32) false) (zeros n)).
  rewrite lstep_zeros. exact IH.
Qed.

(* ---------- the key lemma: running backwards from the zero state ---------- *)
Lemma last_app_single {A} (l : list A) x d : last (l ++ [x]) d = x.
Proof. induction l as [|y l IH]; cbn; [reflexivity|]. destruct (l ++ [x]) eqn:E; [destruct l; discriminate|]. exact IH. Qed.

Lemma last_xorl a : forall b, length a = length b -> a <> [] ->
  last (xorl a b) false = xorb (last a false) (last b false).
Proof.
  induction a as [|x a IH]; intros b L N.
  - congruence.
  - destruct b as [|y b]; [discriminate|].
    destruct a as [|x' a].
    + destruct b as [|y' b]; [reflexivity|discriminate].
    + destruct b as [|y' b]; [discriminate|].
      change (last (xorb x y :: xorl (x' :: a) (y' :: b)) false = xorb (last (x' :: a) false) (last (y' :: b) false)).
      rewrite <- (IH (y' :: b)); [|cbn in *; lia|discriminate]. reflexivity.
Qed.

Lemma last_scale c w : last (scale c w) false = andb c (last w false).
Proof.
  induction w as [|x w IH]; cbn; [destruct c; reflexivity|].
  destruct w as [|x' w]; cbn in *; [reflexivity|]. exact IH.
Qed.

Lemma last_poly : last poly false = true. Proof. reflexivity. Qed.

(* the top bit of the next state is exactly the feedback bit *)
Lemma lstep_top d b : wfw d -> last (lstep d b) false = xorb (hd false d) b.
Proof.
  intros H. unfold lstep. rewrite last_xorl.
  - unfold shr. rewrite last_app_single, last_scale, last_poly. destruct (xorb (hd false d) b); reflexivity.
  - rewrite shr_length by (apply wfw_nonnil; exact H). rewrite scale_length. rewrite H. reflexivity.
  - unfold shr. destruct (tl d); discriminate.
Qed.

Lemma last_app_zeros (l : list bool) n : 0 < n -> last (l ++ zeros n) false = false.
Proof.
  intros Hn. destruct n as [|n]; [lia|]. unfold zeros. replace (repeat false (S n)) with (repeat false n ++ [false]).
  - rewrite app_assoc. apply last_app_single.
  - clear. induction n; cbn; [reflexivity|]. f_equal. exact IHn.
Qed.

Lemma run_zero_small es : forall d, wfw d -> length es <= 32 ->
  run d es = zeros 32 -> d = es ++ zeros (32 - length es).
Proof.
  induction es as [|e es IH]; intros d H L R; cbn [length run fold_left app] in *.
  - exact R.
  - pose proof (IH (lstep d e) (lstep_wf d e H) ltac:(lia) R) as E.
    pose proof (lstep_top d e H) as T. rewrite E in T.
    rewrite last_app_zeros in T by lia.
    (* no feedback happened *)
    assert (Hx : xorb (hd false d) e = false) by congruence.
    unfold lstep in E. rewrite Hx, scale_false in E.
    assert (Lp : length poly = length (shr d))
      by (rewrite shr_length by (apply wfw_nonnil; exact H); rewrite H; reflexivity).
    rewrite Lp, xorl_zeros_r in E.
    destruct d as [|x d]; [discriminate|]. cbn [hd] in Hx. unfold shr in E. cbn [tl] in E.
    assert (x = e) by (destruct x, e; cbn [xorb] in Hx; congruence). subst x. f_equal.
    (* tl d ++ [false] = es ++ zeros (33 - k)  ==>  d = es ++ zeros (32 - k) *)
    replace (32 - length es) with (S (32 - S (length es))) in E by lia.
    unfold zeros in E. cbn [repeat] in E.
    replace (false :: repeat false (32 - S (length es))) with (repeat false (32 - S (length es)) ++ [false]) in E.
    + rewrite app_assoc in E. apply app_inj_tail in E. tauto.
    + generalize (32 - S (length es)). clear. intros n. induction n; cbn; [reflexivity|]. f_equal. exact IHn.
Qed.

Corollary lstep_false_zero d : wfw d -> lstep d false = zeros 32 -> d = zeros 32.
Proof. intros H E. apply (run_zero_small [false] d H); cbn; [lia|exact E]. Qed.

Lemma run_zeros_inv n : forall d, wfw d -> run d (zeros n) = zeros 32 -> d = zeros 32.
Proof.
  induction n as [|n IH]; intros d H R; cbn in *; [exact R|].
  apply lstep_false_zero; [exact H|]. apply IH; [apply lstep_wf; exact H | exact R].
Qed.

(* ---------- feeding the register its own content empties it ---------- *)
Lemma self_feed k : forall d, wfw d -> k <= 32 ->
  run d (firstn k d) = skipn k d ++ zeros k.
Proof.
  induction k as [|k IH]; intros d H L.
  - cbn. unfold zeros. cbn. rewrite app_nil_r. reflexivity.
  - destruct d as [|x d]; [discriminate|]. cbn [firstn skipn run fold_left].
    assert (E : lstep (x :: d) x = d ++ [false]).
    { unfold lstep. cbn [hd]. rewrite xorb_nilpotent, scale_false. unfold shr. cbn [tl].
      replace (length poly) with (length (d ++ [false])) by (rewrite app_length; cbn; unfold wfw in H; cbn in H; lia).
      apply xorl_zeros_r. }
    rewrite E. fold (run (d ++ [false]) (firstn k d)).
    assert (Hk : k <= length d) by (unfold wfw in H; cbn in H; lia).
    assert (Ef : firstn k (d ++ [false]) = firstn k d).
    { rewrite firstn_app. replace (k - length d) with 0 by lia. cbn [firstn]. apply app_nil_r. }
    rewrite <- Ef.
    rewrite IH.
    + rewrite skipn_app. replace (k - length d) with 0 by lia. cbn [skipn].
      rewrite <- app_assoc. reflexivity.
    + unfold wfw in *. rewrite app_length. cbn in *. lia.
    + lia.
Qed.

Corollary self_feed_all d : wfw d -> run d d = zeros 32.
Proof.
  intros H. pose proof (self_feed 32 d H (le_n _)) as E.
  rewrite firstn_all2 in E by (unfold wfw in H; lia).
  rewrite skipn_all2 in E by (unfold wfw in H; lia). exact E.
Qed.

(* ---------- acceptance implies the error stream drives the zero-initialised register to zero ---------- *)
Definition accepts_bits (p t : list bool) : bool := eqbl (crc_word p) t.

Lemma eqbl_eq a : forall b, eqbl a b = true -> a = b.
Proof.
  induction a as [|x a IH]; intros [|y b] H; cbn in H; try discriminate; [reflexivity|].
  apply andb_prop in H as [H1 H2]. apply eqb_prop in H1. f_equal; [exact H1 | apply IH; exact H2].
Qed.

Lemma crc_word_wf p : wfw (crc_word p).
Proof. unfold crc_word, wfw. rewrite xorl_length; rewrite (run_wf p (ones 32)); reflexivity. Qed.

Lemma accept_error_runs_to_zero p ep et :
  length ep = length p -> length et = 32 ->
  accepts_bits (xorl p ep) (xorl (crc_word p) et) = true ->
  run (zeros 32) (ep ++ et) = zeros 32.
Proof.
  intros Lp Lt A. apply eqbl_eq in A. unfold crc_word in A.
  assert (W1 : wfw (run (ones 32) p)) by (apply run_wf; reflexivity).
  assert (W2 : wfw (run (zeros 32) ep)) by (apply run_wf; reflexivity).
  (* S(p xor ep) = S(p) xor T(ep) *)
  assert (E : run (ones 32) (xorl p ep) = xorl (run (ones 32) p) (run (zeros 32) ep)).
  { rewrite <- (run_linear p ep (ones 32) (zeros 32)) by (reflexivity || lia). reflexivity. }
  rewrite E in A.
  (* (S xor T) xor ones = (S xor ones) xor et   ==>   T = et *)
  rewrite (xorl_assoc (run (ones 32) p)) in A.
  rewrite (xorl_assoc (run (ones 32) p) (ones 32)) in A.
  unfold wfw in W1, W2.
  assert (L1 : length (xorl (run (zeros 32) ep) (ones 32)) = 32)
    by (rewrite xorl_length; rewrite ?W2, ?ones_length; reflexivity).
  assert (L2 : length (xorl (ones 32) et) = 32)
    by (rewrite xorl_length; rewrite ?ones_length; lia).
  apply xorl_cancel_l in A; [| lia | lia].
  rewrite (xorl_comm (run (zeros 32) ep)) in A.
  apply xorl_cancel_l in A; [| rewrite ones_length; lia | rewrite ones_length; lia].
  rewrite run_app, A. apply self_feed_all. exact Lt.
Qed.

(* ---------- the burst theorem at bit level ---------- *)
Theorem burst_rejected_bits p a w z :
  a + length w + z = length p + 32 ->
  1 <= length w <= 32 -> hd false w = true ->
  let E := zeros a ++ w ++ zeros z in
  accepts_bits (xorl p (firstn (length p) E)) (xorl (crc_word p) (skipn (length p) E)) = false.
Proof.
  intros L Lw Hw E. destruct (accepts_bits _ _) eqn:A; [exfalso|reflexivity].
  assert (LE : length E = length p + 32).
  { unfold E. rewrite !app_length, !zeros_length. lia. }
  apply accept_error_runs_to_zero in A.
  - rewrite firstn_skipn in A. unfold E in A. rewrite !run_app, run_zeros in A.
    apply run_zeros_inv in A; [|apply run_wf; reflexivity].
    apply run_zero_small in A; [| reflexivity | lia].
    destruct w as [|x w]; [cbn in Lw; lia|]. cbn in Hw. subst x. discriminate.
  - rewrite firstn_length. lia.
  - rewrite skipn_length. lia.
Qed.

(* ---------- byte level ---------- *)
Lemma byte_bits_lxor a b : byte_bits (N.lxor a b) = xorl (byte_bits a) (byte_bits b).
Proof. unfold byte_bits. cbn [xorl]. rewrite !N.lxor_spec. reflexivity. Qed.

Lemma byte_bits_length b : length (byte_bits b) = 8. Proof. reflexivity. Qed.

Lemma bits_of_bytes_length l : length (bits_of_bytes l) = 8 * length l.
Proof. induction l as [|b l IH]; [reflexivity|]. cbn [bits_of_bytes flat_map]. rewrite app_length, byte_bits_length. fold (bits_of_bytes l). rewrite IH. cbn [length]. lia. Qed.

Lemma bits_of_bytes_app a b : bits_of_bytes (a ++ b) = bits_of_bytes a ++ bits_of_bytes b.
Proof. unfold bits_of_bytes. apply flat_map_app. Qed.

Lemma bits_xor_bytes f : forall m, length f = length m ->
  bits_of_bytes (xor_bytes f m) = xorl (bits_of_bytes f) (bits_of_bytes m).
Proof.
  induction f as [|x f IH]; intros [|y m] L; cbn [length] in L; try lia; [reflexivity|].
  change (xor_bytes (x :: f) (y :: m)) with (N.lxor x y :: xor_bytes f m).
  change (bits_of_bytes (N.lxor x y :: xor_bytes f m)) with (byte_bits (N.lxor x y) ++ bits_of_bytes (xor_bytes f m)).
  change (bits_of_bytes (x :: f)) with (byte_bits x ++ bits_of_bytes f).
  change (bits_of_bytes (y :: m)) with (byte_bits y ++ bits_of_bytes m).
  rewrite xorl_app by reflexivity. rewrite byte_bits_lxor, IH by lia. reflexivity.
Qed.

Lemma xor_bytes_length f : forall m, length f = length m -> length (xor_bytes f m) = length f.
Proof. induction f as [|x f IH]; intros [|y m] L; cbn in *; try lia. rewrite IH; lia. Qed.

Lemma byte_roundtrip b0 b1 b2 b3 b4 b5 b6 b7 :
  byte_bits (N_of_bits [b0; b1; b2; b3; b4; b5; b6; b7]) = [b0; b1; b2; b3; b4; b5; b6; b7].
Proof. destruct b0, b1, b2, b3, b4, b5, b6, b7; reflexivity. Qed.

Lemma bits_bytes_roundtrip n : forall l, length l = 8 * n -> bits_of_bytes (bytes_of_bits l) = l.
Proof.
  induction n as [|n IH]; intros l L.
  - destruct l; [reflexivity|cbn in L; lia].
  - do 8 (destruct l as [|? l]; [cbn in L; lia|]).
    cbn [bytes_of_bits]. change (bits_of_bytes (?x :: ?r)) with (byte_bits x ++ bits_of_bytes r).
    rewrite byte_roundtrip, IH by (cbn in L; lia). reflexivity.
Qed.

Lemma trailer_bits payload : bits_of_bytes (trailer payload) = crc_word (bits_of_bytes payload).
Proof. unfold trailer. apply (bits_bytes_roundtrip 4). apply crc_word_wf. Qed.

Lemma trailer_length payload : length (trailer payload) = 4.
Proof.
  pose proof (trailer_bits payload) as E. apply (f_equal (@length bool)) in E.
  rewrite bits_of_bytes_length in E. rewrite (crc_word_wf (bits_of_bytes payload)) in E. lia.
Qed.

Lemma firstn_xorl n a : forall b, firstn n (xorl a b) = xorl (firstn n a) (firstn n b).
Proof. revert n. induction a as [|x a IH]; intros [|n] [|y b]; cbn; try reflexivity. rewrite IH. reflexivity. Qed.

Lemma skipn_xorl n a : forall b, length a = length b -> skipn n (xorl a b) = xorl (skipn n a) (skipn n b).
Proof.
  revert n. induction a as [|x a IH]; intros [|n] [|y b] L; cbn in *; try lia; try reflexivity.
  apply IH. lia.
Qed.

(* emitted files verify *)
Theorem verify_emitted payload : verify (payload ++ trailer payload) = true.
Proof.
  unfold verify. rewrite app_length, trailer_length.
  replace (4 <=? length payload + 4) with true by (symmetry; apply Nat.leb_le; lia). cbn [andb].
  rewrite bits_of_bytes_app, trailer_bits, app_length, (crc_word_wf (bits_of_bytes payload)).
  replace (length (bits_of_bytes payload) + 32 - 32) with (length (bits_of_bytes payload)) by lia.
  rewrite firstn_app, firstn_all, Nat.sub_diag. cbn [firstn]. rewrite app_nil_r.
  rewrite skipn_app, skipn_all, Nat.sub_diag. cbn [skipn app].
  generalize (crc_word (bits_of_bytes payload)). clear. induction w as [|x w IH]; cbn; [reflexivity|].
  rewrite IH. destruct x; reflexivity.
Qed.

(* Main theorem: any burst of 1..32 bits anywhere in an emitted file (payload or trailer,
   or straddling them) makes verification fail.  Bits are numbered in the order the
   reflected CRC consumes them: bit (i mod 8) of byte (i div 8), least significant first. *)
Theorem crc_burst_detected payload mask a w z :
  length mask = length payload + 4 ->
  bits_of_bytes mask = zeros a ++ w ++ zeros z ->
  1 <= length w <= 32 -> hd false w = true ->
  verify (xor_bytes (payload ++ trailer payload) mask) = false.
Proof.
  intros Lm Em Lw Hw. unfold verify.
  assert (Lf : length (payload ++ trailer payload) = length mask) by (rewrite app_length, trailer_length; lia).
  rewrite bits_xor_bytes by exact Lf.
  rewrite bits_of_bytes_app, trailer_bits.
  set (P := bits_of_bytes payload) in *. set (C := crc_word P).
  assert (LC : length C = 32) by apply crc_word_wf.
  assert (LE : length (bits_of_bytes mask) = length P + 32).
  { rewrite bits_of_bytes_length, Lm. unfold P. rewrite bits_of_bytes_length. lia. }
  rewrite xorl_length by (rewrite app_length; lia).
  rewrite app_length, LC. replace (length P + 32 - 32) with (length P) by lia.
  rewrite firstn_xorl, skipn_xorl by (rewrite app_length; lia).
  rewrite firstn_app, firstn_all, Nat.sub_diag. cbn [firstn]. rewrite app_nil_r.
  rewrite skipn_app, skipn_all, Nat.sub_diag. cbn [skipn app].
  rewrite Em.
  assert (Sum : a + length w + z = length P + 32).
  { rewrite Em in LE. rewrite !app_length, !zeros_length in LE. lia. }
  pose proof (burst_rejected_bits P a w z Sum Lw Hw) as B. cbv zeta in B.
  unfold accepts_bits in B. fold C in B. rewrite B. apply andb_false_r.
Qed.

(* single flipped bit *)
Corollary crc_single_bit_detected payload mask a z :
  length mask = length payload + 4 ->
  bits_of_bytes mask = zeros a ++ [true] ++ zeros z ->
  verify (xor_bytes (payload ++ trailer payload) mask) = false.
Proof. intros L E. apply (crc_burst_detected payload mask a [true] z L E); cbn; [lia|reflexivity]. Qed.

(* ---------- any corruption confined to at most 4 consecutive bytes ---------- *)
Lemma first_true_split (l : list bool) : In true l ->
  exists i w, l = zeros i ++ w /\ hd false w = true.
Proof.
  induction l as [|x l IH]; intros H; [destruct H|].
  destruct x.
  - exists 0, (true :: l). split; reflexivity.
  - destruct H as [H|H]; [discriminate|]. destruct (IH H) as (i & w & E & Hw).
    exists (S i), w. split; [cbn; rewrite E; reflexivity | exact Hw].
Qed.

Lemma byte_nonzero_has_bit : forall b, (b < 256)%N -> b <> 0%N -> In true (byte_bits b).
Proof.
  assert (K : forallb (fun b => orb (N.eqb b 0) (existsb (fun x => x) (byte_bits b))) (map N.of_nat (seq 0 256)) = true)
    by (vm_compute; reflexivity).
  intros b Hb Hn. rewrite forallb_forall in K.
  assert (Hin : In b (map N.of_nat (seq 0 256))).
  { replace b with (N.of_nat (N.to_nat b)) by apply N2Nat.id. apply in_map. apply in_seq. lia. }
  specialize (K b Hin). apply orb_prop in K as [K|K]; [apply N.eqb_eq in K; contradiction|].
  apply existsb_exists in K as (x & Hx & ->). exact Hx.
Qed.

Lemma bits_of_zero_bytes n : bits_of_bytes (repeat 0%N n) = zeros (8 * n).
Proof.
  induction n as [|n IH]; [reflexivity|].
  cbn [repeat]. change (bits_of_bytes (0%N :: repeat 0%N n)) with (byte_bits 0 ++ bits_of_bytes (repeat 0%N n)).
  rewrite IH. replace (8 * S n) with (8 + 8 * n) by lia. unfold zeros. rewrite repeat_app. reflexivity.
Qed.

Theorem crc_burst_bytes payload a m z :
  a + length m + z = length payload + 4 ->
  1 <= length m <= 4 ->
  (exists b, In b m /\ (b < 256)%N /\ b <> 0%N) ->
  verify (xor_bytes (payload ++ trailer payload) (repeat 0%N a ++ m ++ repeat 0%N z)) = false.
Proof.
  intros L Lm (b & Hb & Hlt & Hnz).
  assert (Ht : In true (bits_of_bytes m)).
  { unfold bits_of_bytes. apply in_flat_map. exists b. split; [exact Hb | apply byte_nonzero_has_bit; assumption]. }
  destruct (first_true_split _ Ht) as (i & w & E & Hw).
  assert (Lw : i + length w = 8 * length m).
  { pose proof (bits_of_bytes_length m) as K. rewrite E, app_length, zeros_length in K. exact K. }
  apply (crc_burst_detected payload _ (8 * a + i) w (8 * z)).
  - rewrite !app_length, !repeat_length. lia.
  - rewrite !bits_of_bytes_app, !bits_of_zero_bytes, E. unfold zeros. rewrite repeat_app, <- !app_assoc. reflexivity.
  - destruct w as [|x w]; [discriminate|]. cbn [length] in *. lia.
  - exact Hw.
Qed.
