(* Lemmas and theorems for C08, first part: expressions (Model/Fmt3.v = Model/Fmt2.v extended by state machines; here:
   the instance expression `#name(args)`, which is an `expression` but not a formula: [pexp] tries it first, [pexp0] is
   the range / formula parser of the second round). *)
From Coq Require Import List Arith Lia PeanoNat Bool ZArith.
From Coq Require Import String Ascii.
From MechV Require Import Base.Sexp Base.Obs Model.Fmt3.
Import ListNotations.

Notation f := (fmt false).
Local Open Scope list_scope.

(* ------------------------------------------------------------------ induction principle for the nested type *)
Definition inc_ex (inc : option (bool * ex)) : list ex := match inc with Some p => [snd p] | None => [] end.
Definition fsm_args (args : option (list (option string * ex))) : list (option string * ex) :=
  match args with Some l => l | None => [] end.

Section ExInd.
  Variable P : ex -> Prop.
  Hypothesis HLit : forall l k, P (ELit l k).
  Hypothesis HVar : forall x k, P (EVar x k).
  Hypothesis HParen : forall e, P e -> P (EParen e).
  Hypothesis HNeg : forall e, P e -> P (ENeg e).
  Hypothesis HNot : forall e, P e -> P (ENot e).
  Hypothesis HTrans : forall e, P e -> P (ETrans e).
  Hypothesis HTerm : forall l r, P l -> Forall (fun p => P (snd p)) r -> P (ETerm l r).
  Hypothesis HMat : forall rows, Forall (Forall P) rows -> P (EMat rows).
  Hypothesis HSet : forall es, Forall P es -> P (ESet es).
  Hypothesis HTup : forall es, Forall P es -> P (ETup es).
  Hypothesis HRec : forall bs, Forall (fun b => P (snd b)) bs -> P (ERec bs).
  Hypothesis HMap : forall ms, Forall (fun m => P (fst m) /\ P (snd m)) ms -> P (EMap ms).
  Hypothesis HTupS : forall n e, P e -> P (ETupS n e).
  Hypothesis HCall : forall g args, Forall (fun a => P (snd a)) args -> P (ECall g args).
  Hypothesis HSlice : forall x subs, Forall P subs -> P (ESlice x subs).
  Hypothesis HDot : forall s, P (EDot s).
  Hypothesis HBrk : forall ixs, Forall P ixs -> P (EBrk ixs).
  Hypothesis HAll : P EAll.
  Hypothesis HRange : forall a inc i b, P a -> Forall P (inc_ex inc) -> P b -> P (ERange a inc i b).
  Hypothesis HFsm : forall n args, Forall (fun a => P (snd a)) (fsm_args args) -> P (EFsm n args).

  Fixpoint ex_ind' (e : ex) : P e :=
    let fl := fix fl (l : list ex) : Forall P l :=
      match l with [] => Forall_nil _ | x :: r => Forall_cons _ (ex_ind' x) (fl r) end in
    match e with
    | ELit l k => HLit l k
    | EVar x k => HVar x k
    | EParen e => HParen e (ex_ind' e)
    | ENeg e => HNeg e (ex_ind' e)
    | ENot e => HNot e (ex_ind' e)
    | ETrans e => HTrans e (ex_ind' e)
    | ETerm l r =>
        HTerm l r (ex_ind' l)
          ((fix go (q : list (binop * ex)) : Forall (fun p => P (snd p)) q :=
              match q with [] => Forall_nil _ | p :: q' => Forall_cons _ (ex_ind' (snd p)) (go q') end) r)
    | EMat rows =>
        HMat rows ((fix go (q : list (list ex)) : Forall (Forall P) q :=
                      match q with [] => Forall_nil _ | row :: q' => Forall_cons _ (fl row) (go q') end) rows)
    | ESet es => HSet es (fl es)
    | ETup es => HTup es (fl es)
    | ERec bs =>
        HRec bs ((fix go (q : list (string * option kind * ex)) : Forall (fun b => P (snd b)) q :=
                    match q with [] => Forall_nil _ | b :: q' => Forall_cons _ (ex_ind' (snd b)) (go q') end) bs)
    | EMap ms =>
        HMap ms ((fix go (q : list (ex * ex)) : Forall (fun m => P (fst m) /\ P (snd m)) q :=
                    match q with [] => Forall_nil _ | m :: q' => Forall_cons _ (conj (ex_ind' (fst m)) (ex_ind' (snd m))) (go q') end) ms)
    | ETupS n e => HTupS n e (ex_ind' e)
    | ECall g args =>
        HCall g args ((fix go (q : list (option string * ex)) : Forall (fun a => P (snd a)) q :=
                         match q with [] => Forall_nil _ | a :: q' => Forall_cons _ (ex_ind' (snd a)) (go q') end) args)
    | ESlice x subs => HSlice x subs (fl subs)
    | EDot s => HDot s
    | EBrk ixs => HBrk ixs (fl ixs)
    | EAll => HAll
    | ERange a inc i b =>
        HRange a inc i b (ex_ind' a)
          (match inc as o return Forall P (inc_ex o) with
           | Some p => Forall_cons _ (ex_ind' (snd p)) (Forall_nil _)
           | None => Forall_nil _
           end) (ex_ind' b)
    | EFsm n args =>
        HFsm n args
          (match args as o return Forall (fun a => P (snd a)) (fsm_args o) with
           | Some l =>
               (fix go (q : list (option string * ex)) : Forall (fun a => P (snd a)) q :=
                  match q with [] => Forall_nil _ | a :: q' => Forall_cons _ (ex_ind' (snd a)) (go q') end) l
           | None => Forall_nil _
           end)
    end.
End ExInd.

(* ------------------------------------------------------------------ generic list / combinator lemmas *)
Lemma join_cons {A} (sep : list A) (x : list A) (xs : list (list A)) :
  join sep (x :: xs) = x ++ flat_map (fun y => sep ++ y) xs.
Proof.
  revert x. induction xs as [|y ys IH]; intros x.
  - cbn. rewrite app_nil_r. reflexivity.
  - change (join sep (x :: y :: ys)) with (x ++ sep ++ join sep (y :: ys)).
    rewrite IH. cbn [flat_map]. rewrite <- !app_assoc. reflexivity.
Qed.

Lemma flat_map_map {A B C} (g : A -> B) (h : B -> list C) (l : list A) :
  flat_map h (map g l) = flat_map (fun x => h (g x)) l.
Proof. induction l as [|x l IH]; cbn; [reflexivity|]. rewrite IH. reflexivity. Qed.

Lemma join_map_cons {A B} (sep : list B) (g : A -> list B) (x : A) (xs : list A) :
  join sep (map g (x :: xs)) = g x ++ flat_map (fun y => sep ++ g y) xs.
Proof. cbn [map]. rewrite join_cons, flat_map_map. reflexivity. Qed.

Lemma psep_ok {A} (g : A -> list tok) (septoks : list tok) (sepf : list tok -> option (list tok))
      (p : parser A) (R : list tok -> Prop) :
  (forall r, sepf (septoks ++ r) = Some r) ->
  forall xs m rest,
    List.length xs <= m ->
    (forall x r, In x xs -> R r -> p (g x ++ r) = Some (x, r)) ->
    (forall x r, In x xs -> R (septoks ++ g x ++ r)) ->
    R rest ->
    match sepf rest with Some r => p r = None | None => True end ->
    psep m sepf p (flat_map (fun x => septoks ++ g x) xs ++ rest) = (xs, rest).
Proof.
  intros Hsep. induction xs as [|x xs IH]; intros m rest Hm Hp HR Hrest Hstop.
  - cbn [flat_map app]. destruct m as [|m]; [reflexivity|]. cbn [psep].
    destruct (sepf rest) as [r|]; [|reflexivity]. rewrite Hstop. reflexivity.
  - destruct m as [|m]; [cbn in Hm; lia|].
    cbn [flat_map]. rewrite <- !app_assoc. cbn [psep]. rewrite Hsep.
    assert (HR1 : R (flat_map (fun x0 => septoks ++ g x0) xs ++ rest)).
    { destruct xs as [|y ys]; [exact Hrest|].
      cbn [flat_map]. rewrite <- !app_assoc. apply HR. right; left; reflexivity. }
    rewrite (Hp x _ (or_introl eq_refl) HR1).
    rewrite IH; [reflexivity| cbn in Hm; lia | | | exact Hrest | exact Hstop].
    + intros y r Hy. apply Hp. right; exact Hy.
    + intros y r Hy. apply HR. right; exact Hy.
Qed.

Lemma plist1_ok {A} (g : A -> list tok) (septoks : list tok) (sepf : list tok -> option (list tok))
      (p : parser A) (R : list tok -> Prop) :
  (forall r, sepf (septoks ++ r) = Some r) ->
  forall x xs m rest,
    List.length xs <= m ->
    (forall y r, In y (x :: xs) -> R r -> p (g y ++ r) = Some (y, r)) ->
    (forall y r, In y xs -> R (septoks ++ g y ++ r)) ->
    R rest ->
    match sepf rest with Some r => p r = None | None => True end ->
    plist1 m sepf p (join septoks (map g (x :: xs)) ++ rest) = Some (x :: xs, rest).
Proof.
  intros Hsep x xs m rest Hm Hp HR Hrest Hstop.
  rewrite join_map_cons, <- app_assoc. unfold plist1.
  assert (HR1 : R (flat_map (fun y => septoks ++ g y) xs ++ rest)).
  { destruct xs as [|y ys]; [exact Hrest|].
    cbn [flat_map]. rewrite <- !app_assoc. apply HR. left; reflexivity. }
  rewrite (Hp x _ (or_introl eq_refl) HR1).
  rewrite (psep_ok g septoks sepf p R Hsep xs m rest Hm); [reflexivity| | exact HR | exact Hrest | exact Hstop].
  intros y r Hy. apply Hp. right; exact Hy.
Qed.

(* ------------------------------------------------------------------ what may follow a construct *)
(* level of the operator chain that continues at this point: `␣op␣...` *)
Definition cont_level (ts : list tok) : nat :=
  match ts with TSp :: TSym (SOp o) :: TSp :: _ => op_level o | _ => 0 end.

(* nothing that would extend a factor: kind annotation, call, subscript *)
Definition post0 (ts : list tok) : bool :=
  match ts with
  | TSym (SOp OLt) :: _ | TSym LP :: _ | TSym LB :: _ | TSym Dot :: TId _ :: _ => false
  | _ => true
  end.
Definition post_ok (ts : list tok) : bool := post0 ts && negb (hd_is t_apos ts).
Definition range_ok (ts : list tok) : bool := match prop_ ts with None => true | Some _ => false end.

Lemma post_ok_post0 ts : post_ok ts = true -> post0 ts = true.
Proof. unfold post_ok. intros H. apply andb_prop in H. tauto. Qed.
Lemma post_ok_apos ts : post_ok ts = true -> hd_is t_apos ts = false.
Proof. unfold post_ok. intros H. apply andb_prop in H as [_ H]. apply negb_true_iff in H. exact H. Qed.

Lemma pkind_none ts : post0 ts = true -> pkind ts = None.
Proof.
  destruct ts as [|t r]; [reflexivity|]. destruct t as [| | | | | |s|]; try reflexivity.
  destruct s as [| | | | | | | | | | | | | | | | | | | | | | | | |o| | | | | |]; try reflexivity. destruct o; try reflexivity. discriminate.
Qed.

Lemma psub_none m base ts : post0 ts = true -> psub m base ts = None.
Proof.
  destruct ts as [|t r]; [reflexivity|]. destruct t as [| | | | | |s|]; try reflexivity.
  destruct s; try reflexivity; try discriminate.
  destruct r as [|[| | | | | | |] r]; try reflexivity; discriminate.
Qed.

Lemma hd_lp_post0 ts : post0 ts = true -> hd_is t_lp ts = false.
Proof.
  destruct ts as [|t r]; [reflexivity|]. destruct t as [| | | | | |s|]; try reflexivity.
  destruct s; try reflexivity; discriminate.
Qed.

Lemma length_flat_map_ge {A B} (g : A -> list B) (xs : list A) :
  (forall x, 1 <= List.length (g x)) -> List.length xs <= List.length (flat_map g xs).
Proof.
  intros Hg. induction xs as [|x xs IH]; cbn; [lia|]. rewrite app_length. specialize (Hg x). lia.
Qed.

(* ------------------------------------------------------------------ kinds *)
Lemma pkind_ok k rest : pkind (fmt_kind k ++ rest) = Some (k, rest).
Proof.
  destruct k as [s|s ds]; [reflexivity|]. destruct ds as [|d ds]; [reflexivity|].
  cbn [fmt_kind]. rewrite <- !app_assoc. cbn [app pkind].
  change (flat_map (fun x => [TSym Comma; TNum x]) ds)
    with (flat_map (fun x => [TSym Comma] ++ (fun y => [TNum y]) x) ds).
  rewrite (psep_ok (fun y => [TNum y]) [TSym Comma] sep_comma pnum (fun _ => True)); try reflexivity; auto.
  rewrite app_length. pose proof (length_flat_map_ge (fun x => [TSym Comma] ++ [TNum x]) ds (fun _ => le_S _ _ (le_n 1))). lia.
Qed.

Lemma optkind_ok ok rest : (ok = None -> post0 rest = true) -> optkind (fmt_okind ok ++ rest) = (ok, rest).
Proof.
  intros H. unfold optkind. destruct ok as [k|]; cbn [fmt_okind].
  - rewrite pkind_ok. reflexivity.
  - cbn [app]. rewrite pkind_none by auto. reflexivity.
Qed.

(* ------------------------------------------------------------------ level chains *)
Lemma lev_none j m base ts : base ts = None -> lev j m base ts = None.
Proof.
  intros H. induction j as [|j IH]; cbn [lev]; [exact H|]. unfold chain. rewrite IH. reflexivity.
Qed.

Lemma pop_none k operand r : cont_level r <> k -> pop k operand r = None.
Proof.
  unfold pop, cont_level. intros H.
  destruct r as [|t1 r]; [reflexivity|]. destruct t1; try reflexivity.
  destruct r as [|t2 r]; [reflexivity|]. destruct t2 as [| | | | | |s|]; try reflexivity. destruct s; try reflexivity.
  destruct r as [|t3 r]; [reflexivity|]. destruct t3; try reflexivity.
  destruct (Nat.eqb (op_level o) k) eqn:E; [|reflexivity]. apply Nat.eqb_eq in E. contradiction.
Qed.

Lemma chain_stop m k operand ts a r :
  operand ts = Some (a, r) -> cont_level r <> k -> chain m k operand ts = Some (a, r).
Proof.
  intros H Hk. unfold chain. rewrite H.
  destruct m as [|m]; cbn [psep]; [reflexivity|]. unfold sep_none. rewrite pop_none by exact Hk. reflexivity.
Qed.

Lemma lev_up m base ts e r j' : forall j,
  lev j' m base ts = Some (e, r) -> j' <= j -> j <= 7 -> cont_level r < 8 - j -> lev j m base ts = Some (e, r).
Proof.
  induction j as [|j IH]; intros H Hle H7 Hc.
  - replace j' with 0 in H by lia. exact H.
  - destruct (Nat.eq_dec j' (S j)) as [->|Hne]; [exact H|].
    cbn [lev]. apply chain_stop; [apply IH; try assumption; lia | lia].
Qed.

(* ------------------------------------------------------------------ first tokens of a printed expression *)
Lemma fmt_head_nsp : forall e r, exists t tl, f e ++ r = t :: tl /\ t <> TSp.
Proof.
  induction e using ex_ind'; intros r0; cbn [fmt fmt_lit app]; try (eexists _, _; split; [reflexivity|discriminate]).
  - destruct l; cbn [fmt_lit app]; eexists _, _; (split; [reflexivity|discriminate]).
  - rewrite <- app_assoc. apply IHe.
  - rewrite <- app_assoc. apply IHe.
  - destruct ms; cbn [app]; eexists _, _; (split; [reflexivity|discriminate]).
  - destruct inc as [[i1 s]|]; rewrite <- app_assoc; apply IHe1.
  - destruct args; cbn [app]; eexists _, _; (split; [reflexivity|discriminate]).
Qed.

Lemma cont_after_sp : forall e r, cont_level (TSp :: f e ++ r) = 0.
Proof.
  induction e using ex_ind'; intros r0; cbn [fmt fmt_lit app]; try reflexivity.
  - destruct l; reflexivity.
  - destruct (fmt_head_nsp e r0) as (t & tl & -> & Ht). destruct t; try reflexivity. contradiction.
  - rewrite <- app_assoc. apply IHe.
  - rewrite <- app_assoc. apply IHe.
  - destruct ms; reflexivity.
  - destruct inc as [[i1 s]|]; rewrite <- app_assoc; apply IHe1.
  - destruct args; reflexivity.
Qed.

(* ------------------------------------------------------------------ lengths *)
Lemma fmt_len_pos e : 1 <= List.length (f e).
Proof.
  destruct (fmt_head_nsp e []) as (t & tl & H & _). rewrite app_nil_r in H. rewrite H. cbn. lia.
Qed.

Lemma join_len_in {A B} (sep : list B) (g : A -> list B) (xs : list A) x :
  In x xs -> List.length (g x) <= List.length (join sep (map g xs)).
Proof.
  induction xs as [|y ys IH]; intros Hin; [contradiction|].
  rewrite join_map_cons, app_length. destruct Hin as [->|Hin]; [lia|].
  specialize (IH Hin). destruct ys as [|z zs]; [contradiction|].
  rewrite join_map_cons in IH. cbn [flat_map]. rewrite !app_length in *. lia.
Qed.

Lemma join_len_count {A B} (sep : list B) (g : A -> list B) (xs : list A) :
  (forall x, In x xs -> 1 <= List.length (g x)) -> List.length xs <= List.length (join sep (map g xs)).
Proof.
  induction xs as [|y ys IH]; intros Hg; [cbn; lia|].
  rewrite join_map_cons, app_length.
  pose proof (Hg y (or_introl eq_refl)) as Hy.
  assert (IH' : List.length ys <= List.length (join sep (map g ys))) by (apply IH; intros; apply Hg; right; assumption).
  destruct ys as [|z zs]; [cbn; lia|].
  rewrite join_map_cons in IH'. cbn [flat_map]. rewrite !app_length in *. cbn [List.length] in *. lia.
Qed.

Lemma flat_len_in {A B} (g : A -> list B) (xs : list A) x :
  In x xs -> List.length (g x) <= List.length (flat_map g xs).
Proof.
  induction xs as [|y ys IH]; intros Hin; [contradiction|]. cbn [flat_map]. rewrite app_length.
  destruct Hin as [->|Hin]; [lia|]. specialize (IH Hin). lia.
Qed.

(* ------------------------------------------------------------------ failures on closers *)
Definition closer (t : tok) : bool :=
  match t with TSym RP | TSym RB | TSym RC | TSym Comma | TSym Semi | TSp | TNl => true | _ => false end.

Lemma pfac_closer n t r : closer t = true -> pfac n (t :: r) = None.
Proof.
  intros H. destruct n as [|n]; [reflexivity|].
  destruct t as [| | | | | |s|]; try discriminate; try reflexivity.
  destruct s; try discriminate; reflexivity.
Qed.

Lemma pfac_nil n : pfac n [] = None.
Proof. destruct n; reflexivity. Qed.

Definition nohash (ts : list tok) : bool := match ts with TSym Hash :: _ => false | _ => true end.

Lemma pexp_nohash m base ts : nohash ts = true -> pexp m base ts = pexp0 m base ts.
Proof.
  intros H. destruct ts as [|t r]; [reflexivity|]. destruct t as [| | | | | |s|]; try reflexivity.
  destruct s; try reflexivity. discriminate.
Qed.

Lemma pexp0_none m base ts : base ts = None -> pexp0 m base ts = None.
Proof. intros H. unfold pexp0. rewrite lev_none by exact H. reflexivity. Qed.

Lemma pexp_none m base ts : base ts = None -> nohash ts = true -> pexp m base ts = None.
Proof. intros H Hn. rewrite pexp_nohash by exact Hn. apply pexp0_none, H. Qed.

Lemma pfac_colon n t r : closer t = true -> pfac n (TSym Colon :: t :: r) = None.
Proof.
  intros H. destruct n as [|n]; [reflexivity|].
  destruct t as [| | | | | |s|]; try discriminate; reflexivity.
Qed.

(* ------------------------------------------------------------------ the statements proved by induction *)
Definition core_ok (e : ex) : Prop := forall n m rest,
  List.length (f e) <= S n -> List.length (f e) <= S m -> post0 rest = true ->
  pcore m (pfac n) (f e ++ rest) = Some (e, rest).

Definition fac_ok (e : ex) : Prop := forall n rest,
  List.length (f e) <= n -> post_ok rest = true -> pfac n (f e ++ rest) = Some (e, rest).

Definition lev_ok (e : ex) : Prop := forall j n m rest,
  8 - j <= elvl e -> j <= 7 -> List.length (f e) <= n -> List.length (f e) <= m ->
  post_ok rest = true -> cont_level rest < 8 - j ->
  lev j m (pfac n) (f e ++ rest) = Some (e, rest).

Definition exp_ok (e : ex) : Prop := forall n m rest,
  List.length (f e) <= n -> List.length (f e) <= m ->
  post_ok rest = true -> cont_level rest = 0 -> range_ok rest = true ->
  pexp0 m (pfac n) (f e ++ rest) = Some (e, rest).

(* the same for the parser of `expression`, which tries a state-machine instance first *)
Definition expF_ok (e : ex) : Prop := forall n m rest,
  List.length (f e) <= n -> List.length (f e) <= m ->
  post_ok rest = true -> cont_level rest = 0 -> range_ok rest = true ->
  pexp m (pfac n) (f e ++ rest) = Some (e, rest).

Definition sub_ok (e : ex) : Prop := forall n m rest,
  List.length (f e) <= n -> List.length (f e) <= m ->
  psub m (pfac n) (f e ++ rest) = Some (e, rest).

Lemma core_to_fac e : core_ok e -> fac_ok e.
Proof.
  intros H n rest Hn Hp. pose proof (fmt_len_pos e). destruct n as [|n]; [lia|].
  cbn [pfac]. rewrite (H n n rest) by (try lia; apply post_ok_post0; exact Hp).
  rewrite (post_ok_apos _ Hp). reflexivity.
Qed.

Lemma fac_to_lev e : elvl e = 8 -> fac_ok e -> lev_ok e.
Proof.
  intros _ H j n m rest _ H7 Hn _ Hp Hc.
  apply (lev_up m (pfac n) _ e rest 0); [cbn [lev]; apply H; assumption | lia | exact H7 | exact Hc].
Qed.

Lemma op_level_pos o : 1 <= op_level o.
Proof. destruct o; cbn; lia. Qed.

Lemma lev_to_exp e : 1 <= elvl e -> lev_ok e -> exp_ok e.
Proof.
  intros Hl H n m rest Hn Hm Hp Hc Hr. unfold pexp0.
  rewrite (H 7 n m rest) by (try assumption; lia).
  unfold range_ok in Hr. destruct (prop_ rest); [discriminate|reflexivity].
Qed.

Lemma okind_follow k rest : post0 rest = true ->
  hd_is t_lp (fmt_okind k ++ rest) = false /\ (forall m base, psub m base (fmt_okind k ++ rest) = None).
Proof.
  intros H. destruct k as [[s|s [|d ds]]|]; cbn [fmt_okind fmt_kind app]; try (split; reflexivity).
  split; [apply hd_lp_post0; exact H | intros; apply psub_none; exact H].
Qed.

Lemma psep_nothing {A} m (p : parser A) ts : p ts = None -> psep m sep_none p ts = ([], ts).
Proof. intros H. destruct m; cbn [psep]; [reflexivity|]. unfold sep_none. rewrite H. reflexivity. Qed.

Lemma core_ok_var x k : core_ok (EVar x k).
Proof.
  intros n m rest _ _ Hp. cbn [fmt app pcore].
  destruct (okind_follow k rest Hp) as [H1 H2]. rewrite H1.
  rewrite psep_nothing by apply H2. unfold with_kind. rewrite optkind_ok by auto. reflexivity.
Qed.

Lemma core_ok_lit l k : core_ok (ELit l k).
Proof.
  intros n m rest _ _ Hp. cbn [fmt]. rewrite <- app_assoc.
  destruct l; cbn [fmt_lit app pcore]; try (unfold with_kind; rewrite optkind_ok by auto; reflexivity).
  rewrite (proj1 (okind_follow k rest Hp)). unfold with_kind; rewrite optkind_ok by auto; reflexivity.
Qed.

Lemma exp_ok_var x k : exp_ok (EVar x k).
Proof. apply lev_to_exp; [cbn; lia|]. apply fac_to_lev; [reflexivity|]. apply core_to_fac, core_ok_var. Qed.

(* a text that the range / formula parser accepts does not begin with `#`, so [pexp] reads it the same way *)
Lemma pfac_hash n r : pfac n (TSym Hash :: r) = None.
Proof. destruct n; reflexivity. Qed.

Lemma pexp0_hash m n r : pexp0 m (pfac n) (TSym Hash :: r) = None.
Proof. apply pexp0_none, pfac_hash. Qed.

Lemma pexp_of_pexp0 m n ts res : pexp0 m (pfac n) ts = Some res -> pexp m (pfac n) ts = Some res.
Proof.
  intros H. destruct (nohash ts) eqn:E; [rewrite pexp_nohash by exact E; exact H|].
  destruct ts as [|t r]; [discriminate|]. destruct t as [| | | | | |s|]; try discriminate.
  destruct s; try discriminate. rewrite pexp0_hash in H. discriminate.
Qed.

Lemma exp_to_expF e : exp_ok e -> expF_ok e.
Proof. intros H n m rest Hn Hm Hp Hc Hr. apply pexp_of_pexp0. apply H; assumption. Qed.

Lemma expF_ok_var x k : expF_ok (EVar x k).
Proof. apply exp_to_expF, exp_ok_var. Qed.

(* ------------------------------------------------------------------ follow sets of list elements *)
Definition R_exp (r : list tok) : Prop := post_ok r = true /\ cont_level r = 0 /\ range_ok r = true.

Definition sepclose (t : tok) : bool :=
  match t with TSym Comma | TSym Semi | TSym RP | TSym RB | TSym RC | TSym Colon | TNl => true | _ => false end.

Lemma sepclose_R r : hd_is sepclose r = true -> R_exp r.
Proof.
  destruct r as [|t r]; [discriminate|]. destruct t as [| | | | | |s|]; try discriminate.
  - intros _. repeat split.
  - destruct s; try discriminate; intros _; repeat split.
Qed.

Lemma R_after_sp e r : R_exp (TSp :: f e ++ r).
Proof. repeat split. apply cont_after_sp. Qed.

Lemma exp_at e n m r : expF_ok e -> List.length (f e) <= n -> List.length (f e) <= m -> R_exp r ->
  pexp m (pfac n) (f e ++ r) = Some (e, r).
Proof. intros H Hn Hm (H1 & H2 & H3). apply H; assumption. Qed.

Lemma exp_at0 e n m r : exp_ok e -> List.length (f e) <= n -> List.length (f e) <= m -> R_exp r ->
  pexp0 m (pfac n) (f e ++ r) = Some (e, r).
Proof. intros H Hn Hm (H1 & H2 & H3). apply H; assumption. Qed.

(* ------------------------------------------------------------------ constructors, one by one *)
Lemma core_ok_paren e : expF_ok e -> core_ok (EParen e).
Proof.
  intros IH n m rest Hn Hm Hp. cbn [fmt] in *. cbn [List.length] in Hn, Hm. rewrite app_length in Hn, Hm. cbn in Hn, Hm.
  cbn [app pcore]. rewrite <- app_assoc. cbn [app].
  rewrite (exp_at e n m _ IH) by (try lia; apply sepclose_R; reflexivity). reflexivity.
Qed.

Lemma fac_ok_neg e : fac_ok e -> fac_ok (ENeg e).
Proof.
  intros IH n rest Hn Hp. cbn [fmt] in *. cbn [List.length] in Hn. destruct n as [|n]; [lia|].
  cbn [app pfac pcore]. rewrite (IH n rest) by (try lia; assumption).
  rewrite (post_ok_apos _ Hp). reflexivity.
Qed.

Lemma fac_ok_not e : fac_ok e -> fac_ok (ENot e).
Proof.
  intros IH n rest Hn Hp. cbn [fmt] in *. cbn [List.length] in Hn. destruct n as [|n]; [lia|].
  cbn [app pfac pcore]. rewrite (IH n rest) by (try lia; assumption).
  rewrite (post_ok_apos _ Hp). reflexivity.
Qed.

Lemma fac_ok_trans e : core_ok e -> fac_ok (ETrans e).
Proof.
  intros IH n rest Hn Hp. cbn [fmt] in *. rewrite app_length in Hn. cbn in Hn. destruct n as [|n]; [lia|].
  rewrite <- app_assoc. cbn [app pfac]. rewrite (IH n n) by (try lia; reflexivity). reflexivity.
Qed.

Lemma op_level_le7 o : op_level o <= 7.
Proof. destruct o; cbn; lia. Qed.

Lemma lev_ok_term l r :
  r <> [] ->
  (forall p, In p r -> op_level (fst p) = elvl (ETerm l r) /\ elvl (ETerm l r) < elvl (snd p)) ->
  elvl (ETerm l r) < elvl l ->
  lev_ok l -> (forall p, In p r -> lev_ok (snd p)) -> lev_ok (ETerm l r).
Proof.
  intros Hne Hops Hl IHl IHr j n m rest Hj H7 Hn Hm Hp Hc.
  destruct r as [|[o0 x0] r']; [contradiction|]. clear Hne.
  set (r := (o0, x0) :: r') in *. set (k := elvl (ETerm l r)) in *.
  assert (Hk : k = op_level o0) by reflexivity.
  pose proof (op_level_pos o0). pose proof (op_level_le7 o0).
  set (g := fun p : binop * ex => TSp :: TSym (SOp (fst p)) :: TSp :: f (snd p)).
  assert (Hf : f (ETerm l r) = f l ++ flat_map g r) by reflexivity.
  assert (Hlen_l : List.length (f l) <= List.length (f (ETerm l r))) by (rewrite Hf, app_length; lia).
  assert (Hlen_r : forall p, In p r -> List.length (f (snd p)) <= List.length (f (ETerm l r))).
  { intros p Hin. rewrite Hf, app_length. pose proof (flat_len_in g r p Hin) as Hg. unfold g at 1 in Hg. cbn [List.length] in Hg. lia. }
  assert (Hcnt : List.length r <= List.length (f (ETerm l r))).
  { rewrite Hf, app_length. pose proof (length_flat_map_ge g r) as Hg.
    assert (forall x, 1 <= List.length (g x)) by (intros; unfold g; cbn; lia). specialize (Hg H1). lia. }
  apply (lev_up m (pfac n) _ _ rest (8 - k)); [|lia|exact H7|exact Hc].
  replace (8 - k) with (S (7 - k)) by lia. cbn [lev]. replace (7 - (7 - k)) with k by lia.
  set (operand := lev (7 - k) m (pfac n)).
  rewrite Hf, <- app_assoc. unfold chain.
  assert (Hop_l : operand (f l ++ flat_map g r ++ rest) = Some (l, flat_map g r ++ rest)).
  { assert (Hh : flat_map g r ++ rest = TSp :: TSym (SOp o0) :: TSp :: (f x0 ++ flat_map g r') ++ rest) by reflexivity.
    rewrite Hh. apply IHl; try lia; [reflexivity|]. cbn [cont_level]. lia. }
  rewrite Hop_l.
  assert (Hloop : psep m sep_none (pop k operand) (flat_map g r ++ rest) = (r, rest)).
  { apply (psep_ok g [] sep_none (pop k operand) (fun r0 => post_ok r0 = true /\ cont_level r0 <= k)).
    - reflexivity.
    - lia.
    - intros [o x] r0 Hin [Hp0 Hc0]. unfold g. cbn [fst snd app pop].
      destruct (Hops _ Hin) as [Ho Hx]. cbn [fst snd] in Ho, Hx. fold k in Ho, Hx. rewrite Ho, Nat.eqb_refl.
      pose proof (IHr _ Hin) as IHx. cbn [snd] in IHx. specialize (Hlen_r _ Hin). cbn [snd] in Hlen_r.
      unfold operand. rewrite (IHx (7 - k) n m r0) by (try lia; assumption). reflexivity.
    - intros [o x] r0 Hin. unfold g. cbn [fst snd app]. split; [reflexivity|].
      destruct (Hops _ Hin) as [Ho _]. cbn [fst] in Ho. fold k in Ho. cbn [cont_level]. lia.
    - split; [exact Hp|lia].
    - unfold sep_none. apply pop_none. lia. }
  rewrite Hloop. reflexivity.
Qed.

Lemma prop_rop i r : prop_ (rop i :: r) = Some (i, r).
Proof. destruct i; reflexivity. Qed.

Lemma exp_ok_range a inc i b :
  lev_ok a -> 1 <= elvl a -> lev_ok b -> 1 <= elvl b ->
  (forall s, In s (inc_ex inc) -> lev_ok s /\ 1 <= elvl s) ->
  exp_ok (ERange a inc i b).
Proof.
  intros IHa La IHb Lb IHs n m rest Hn Hm Hp Hc Hr. unfold pexp0.
  assert (Hrop : forall i0 r0, post_ok (rop i0 :: r0) = true /\ cont_level (rop i0 :: r0) = 0).
  { intros [] r0; split; reflexivity. }
  unfold range_ok in Hr. destruct (prop_ rest) eqn:Hpr; [discriminate|].
  destruct inc as [[i1 s]|]; cbn [fmt] in *.
  - destruct (IHs s (or_introl eq_refl)) as [IHs' Ls].
    repeat (rewrite app_length in Hn, Hm; cbn [List.length] in Hn, Hm).
    rewrite <- app_assoc. cbn [app]. rewrite <- app_assoc. cbn [app].
    rewrite (IHa 7 n m) by (try lia; apply Hrop || (rewrite (proj2 (Hrop _ _)); lia)).
    rewrite prop_rop.
    rewrite (IHs' 7 n m) by (try lia; apply Hrop || (rewrite (proj2 (Hrop _ _)); lia)).
    rewrite prop_rop.
    rewrite (IHb 7 n m rest) by (try lia; assumption). reflexivity.
  - repeat (rewrite app_length in Hn, Hm; cbn [List.length] in Hn, Hm).
    rewrite <- app_assoc. cbn [app].
    rewrite (IHa 7 n m) by (try lia; apply Hrop || (rewrite (proj2 (Hrop _ _)); lia)).
    rewrite prop_rop.
    rewrite (IHb 7 n m rest) by (try lia; assumption). rewrite Hpr. reflexivity.
Qed.

(* ------------------------------------------------------------------ lists of expressions *)
Lemma pe_list_ok septoks sepf n m x xs rest :
  (forall r, sepf (septoks ++ r) = Some r) ->
  Forall expF_ok (x :: xs) ->
  List.length (join septoks (map f (x :: xs))) <= n ->
  List.length (join septoks (map f (x :: xs))) <= m ->
  (forall y r, R_exp (septoks ++ f y ++ r)) ->
  R_exp rest ->
  match sepf rest with Some r => pexp m (pfac n) r = None | None => True end ->
  plist1 m sepf (pexp m (pfac n)) (join septoks (map f (x :: xs)) ++ rest) = Some (x :: xs, rest).
Proof.
  intros Hsep Hall Hn Hm HR Hrest Hstop.
  apply (plist1_ok f septoks sepf (pexp m (pfac n)) R_exp Hsep); try assumption.
  - pose proof (join_len_count septoks f (x :: xs) (fun y _ => fmt_len_pos y)) as Hc. cbn [List.length] in Hc. lia.
  - intros y r Hin Hr. rewrite Forall_forall in Hall.
    pose proof (join_len_in septoks f (x :: xs) y Hin).
    apply exp_at; [apply Hall; exact Hin | lia | lia | exact Hr].
  - intros y r _. apply HR.
Qed.

Lemma R_comma_sp y r : R_exp ([TSym Comma; TSp] ++ f y ++ r).
Proof. apply sepclose_R. reflexivity. Qed.
Lemma R_comma y r : R_exp ([TSym Comma] ++ f y ++ r).
Proof. apply sepclose_R. reflexivity. Qed.

Lemma pexp_closer n m t r : closer t = true -> pexp m (pfac n) (t :: r) = None.
Proof.
  intros H. apply pexp_none; [apply pfac_closer, H|].
  destruct t as [| | | | | |s|]; try reflexivity. destruct s; try reflexivity; discriminate.
Qed.

Lemma plist1_none {A} m sepf (p : parser A) ts : p ts = None -> plist1 m sepf p ts = None.
Proof. intros H. unfold plist1. rewrite H. reflexivity. Qed.

Lemma core_ok_tup es : List.length es <> 1 -> Forall expF_ok es -> core_ok (ETup es).
Proof.
  intros Hlen IH n m rest Hn Hm Hp. cbn [fmt] in *. cbn [List.length] in Hn, Hm. rewrite app_length in Hn, Hm. cbn [List.length] in Hn, Hm.
  destruct es as [|x [|y zs]]; [| cbn in Hlen; lia |].
  - cbn [map join app pcore]. rewrite pexp_closer by reflexivity. reflexivity.
  - change (join [TSym Comma] (map f (x :: y :: zs))) with (f x ++ [TSym Comma] ++ join [TSym Comma] (map f (y :: zs))) in *.
    rewrite !app_length in Hn, Hm. cbn [List.length] in Hn, Hm.
    cbn [app pcore]. rewrite <- !app_assoc. cbn [app].
    assert (Hx : expF_ok x) by (inversion IH; assumption).
    rewrite (exp_at x n m _ Hx) by (try lia; apply sepclose_R; reflexivity).
    rewrite (pe_list_ok [TSym Comma] sep_comma n m y zs (TSym RP :: rest)); try reflexivity; try lia.
    + inversion IH; assumption.
    + intros; apply R_comma.
    + apply sepclose_R; reflexivity.
Qed.

Lemma pmapping_closer n m t r : closer t = true -> pmapping m (pfac n) (t :: r) = None.
Proof. intros H. unfold pmapping. rewrite pexp_closer by exact H. reflexivity. Qed.

Lemma pbind_closer n m t r : closer t = true -> pbind m (pfac n) (t :: r) = None.
Proof. intros H. unfold pbind. rewrite pexp_closer by exact H. reflexivity. Qed.

Lemma core_ok_set es : Forall expF_ok es -> core_ok (ESet es).
Proof.
  intros IH n m rest Hn Hm Hp. cbn [fmt] in *. cbn [List.length] in Hn, Hm. rewrite app_length in Hn, Hm. cbn [List.length] in Hn, Hm.
  destruct es as [|x xs].
  - cbn [map join app pcore].
    rewrite (plist1_none m sep_comma_sp (pbind m (pfac n))) by (apply pbind_closer; reflexivity).
    rewrite (plist1_none m sep_comma_sp (pmapping m (pfac n))) by (apply pmapping_closer; reflexivity).
    rewrite plist1_none by (apply pexp_closer; reflexivity). reflexivity.
  - cbn [app pcore]. rewrite <- app_assoc. cbn [app].
    assert (Hset : plist1 m sep_comma_sp (pexp m (pfac n)) (join [TSym Comma; TSp] (map f (x :: xs)) ++ TSym RC :: rest)
                   = Some (x :: xs, TSym RC :: rest)).
    { apply pe_list_ok; try reflexivity; try lia; try assumption.
      - intros; apply R_comma_sp.
      - apply sepclose_R; reflexivity. }
    pose proof (join_len_in [TSym Comma; TSp] f (x :: xs) x (or_introl eq_refl)) as Hlx.
    assert (Hx : pexp m (pfac n) (join [TSym Comma; TSp] (map f (x :: xs)) ++ TSym RC :: rest) =
                 Some (x, match xs with [] => TSym RC :: rest | _ => flat_map (fun y => [TSym Comma; TSp] ++ f y) xs ++ TSym RC :: rest end)).
    { rewrite join_map_cons, <- app_assoc.
      rewrite (exp_at x n m); try lia; [|inversion IH; assumption|].
      - destruct xs as [|y ys]; reflexivity.
      - destruct xs as [|y ys]; apply sepclose_R; reflexivity. }
    assert (Hrec : plist1 m sep_comma_sp (pbind m (pfac n)) (join [TSym Comma; TSp] (map f (x :: xs)) ++ TSym RC :: rest) = None).
    { apply plist1_none. unfold pbind. rewrite Hx. destruct xs as [|y ys]; reflexivity. }
    assert (Hmap : plist1 m sep_comma_sp (pmapping m (pfac n)) (join [TSym Comma; TSp] (map f (x :: xs)) ++ TSym RC :: rest) = None).
    { apply plist1_none. unfold pmapping. rewrite Hx. destruct xs as [|y ys]; reflexivity. }
    rewrite Hrec, Hmap, Hset. reflexivity.
Qed.

Definition gmap (mp : ex * ex) : list tok := f (fst mp) ++ TSym Colon :: TSp :: f (snd mp).

Lemma gmap_len mp : List.length (f (fst mp)) <= List.length (gmap mp) /\ List.length (f (snd mp)) <= List.length (gmap mp) /\
                    1 <= List.length (gmap mp).
Proof.
  destruct mp as [k v]. unfold gmap. cbn [fst snd]. rewrite app_length. cbn [List.length].
  pose proof (fmt_len_pos k). lia.
Qed.

Definition is_var (e : ex) : bool := match e with EVar _ _ => true | _ => false end.

Lemma core_ok_map ms :
  match ms with (k0, _) :: _ => is_var k0 = false | [] => True end ->
  Forall (fun mp => expF_ok (fst mp) /\ expF_ok (snd mp)) ms -> core_ok (EMap ms).
Proof.
  intros Hk0 IH n m rest Hn Hm Hp. cbn [fmt] in *.
  destruct ms as [|m0 ms'].
  - cbn [app pcore].
    rewrite (plist1_none m sep_comma_sp (pbind m (pfac n))) by (unfold pbind; rewrite pexp_none by (first [apply pfac_colon; reflexivity | reflexivity]); reflexivity).
    rewrite (plist1_none m sep_comma_sp (pmapping m (pfac n))) by (unfold pmapping; rewrite pexp_none by (first [apply pfac_colon; reflexivity | reflexivity]); reflexivity).
    rewrite plist1_none by (apply pexp_none; [apply pfac_colon; reflexivity | reflexivity]). reflexivity.
  - change (map (fun mp => f (fst mp) ++ TSym Colon :: TSp :: f (snd mp)) (m0 :: ms')) with (map gmap (m0 :: ms')) in *.
    cbn [List.length] in Hn, Hm. rewrite app_length in Hn, Hm. cbn [List.length] in Hn, Hm.
    cbn [app pcore]. rewrite <- app_assoc. cbn [app].
    pose proof (join_len_in [TSym Comma; TSp] gmap (m0 :: ms') m0 (or_introl eq_refl)) as Hl0.
    pose proof (gmap_len m0) as (Hl1 & Hl2 & _).
    assert (Hrec : plist1 m sep_comma_sp (pbind m (pfac n)) (join [TSym Comma; TSp] (map gmap (m0 :: ms')) ++ TSym RC :: rest) = None).
    { apply plist1_none. unfold pbind. rewrite join_map_cons, <- app_assoc. unfold gmap at 1. rewrite <- app_assoc.
      inversion IH as [|? ? [Hk _] _]; subst.
      rewrite (exp_at (fst m0) n m _ Hk) by (try lia; apply sepclose_R; reflexivity).
      cbn [app]. destruct m0 as [k0 v0]. cbn [fst] in *. destruct k0; try reflexivity. discriminate Hk0. }
    rewrite Hrec.
    rewrite (plist1_ok gmap [TSym Comma; TSp] sep_comma_sp (pmapping m (pfac n)) (fun r => hd_is sepclose r = true));
      try reflexivity.
    + pose proof (join_len_count [TSym Comma; TSp] gmap (m0 :: ms') (fun b _ => proj2 (proj2 (gmap_len b)))) as Hc.
      cbn [List.length] in Hc. lia.
    + intros mp r Hin Hr. rewrite Forall_forall in IH. destruct (IH _ Hin) as [Hk Hv].
      pose proof (join_len_in [TSym Comma; TSp] gmap (m0 :: ms') mp Hin) as Hl. pose proof (gmap_len mp) as (Hk1 & Hk2 & _).
      unfold pmapping, gmap. rewrite <- app_assoc.
      rewrite (exp_at (fst mp) n m _ Hk) by (try lia; apply sepclose_R; reflexivity).
      cbn [app]. rewrite (exp_at (snd mp) n m _ Hv) by (try lia; apply sepclose_R; exact Hr).
      destruct mp; reflexivity.
Qed.

Lemma core_ok_tups nm e : expF_ok e -> core_ok (ETupS nm e).
Proof.
  intros IH n m rest Hn Hm Hp. cbn [fmt] in *. cbn [List.length] in Hn, Hm. rewrite app_length in Hn, Hm. cbn in Hn, Hm.
  cbn [app pcore hd_is t_lp List.tl]. rewrite <- app_assoc. cbn [app].
  rewrite (exp_at e n m _ IH) by (try lia; apply sepclose_R; reflexivity). reflexivity.
Qed.

Definition t_semi_rb (t : tok) : bool := match t with TSym Semi | TSym RB => true | _ => false end.
Definition grow (row : list ex) : list tok := join [TSp] (map f row).

Lemma grow_len_pos row : row <> [] -> 1 <= List.length (grow row).
Proof.
  destruct row as [|x xs]; [contradiction|]. intros _. unfold grow. rewrite join_map_cons, app_length.
  pose proof (fmt_len_pos x). lia.
Qed.

Lemma core_ok_mat rows :
  (forall row, In row rows -> row <> []) -> Forall (Forall expF_ok) rows -> core_ok (EMat rows).
Proof.
  intros Hne IH n m rest Hn Hm Hp. cbn [fmt] in *. cbn [List.length] in Hn, Hm. rewrite app_length in Hn, Hm. cbn [List.length] in Hn, Hm.
  change (map (fun row => join [TSp] (map f row)) rows) with (map grow rows) in *.
  destruct rows as [|row0 rows'].
  - cbn [map join app pcore].
    rewrite plist1_none by (apply plist1_none, pexp_closer; reflexivity). reflexivity.
  - cbn [app pcore]. rewrite <- app_assoc. cbn [app].
    rewrite (plist1_ok grow [TSym Semi; TSp] sep_semi_sp (plist1 m sep_sp (pexp m (pfac n)))
               (fun r => hd_is t_semi_rb r = true)); try reflexivity.
    + pose proof (join_len_count [TSym Semi; TSp] grow (row0 :: rows') (fun r Hin => grow_len_pos r (Hne r Hin))) as Hc.
      cbn [List.length] in Hc. lia.
    + intros row r Hin Hr. rewrite Forall_forall in IH. specialize (IH _ Hin).
      pose proof (join_len_in [TSym Semi; TSp] grow (row0 :: rows') row Hin) as Hl.
      specialize (Hne _ Hin). destruct row as [|x xs]; [contradiction|]. unfold grow in *.
      assert (Hsc : hd_is sepclose r = true).
      { destruct r as [|[| | | | | |[]|] r]; try discriminate; reflexivity. }
      apply pe_list_ok; try reflexivity; try lia; try assumption.
      * intros; apply R_after_sp.
      * apply sepclose_R; exact Hsc.
      * destruct r as [|[| | | | | |[]|] r]; try discriminate; exact I.
Qed.

Definition garg (a : option string * ex) : list tok :=
  match fst a with Some nm => TId nm :: TSym Colon :: TSp :: f (snd a) | None => f (snd a) end.
Definition gbind (b : string * option kind * ex) : list tok :=
  TId (fst (fst b)) :: fmt_okind (snd (fst b)) ++ TSym Colon :: TSp :: f (snd b).

Lemma garg_len a : List.length (f (snd a)) <= List.length (garg a) /\ 1 <= List.length (garg a).
Proof. destruct a as [[nm|] v]; unfold garg; cbn [fst snd List.length]; pose proof (fmt_len_pos v); lia. Qed.

Lemma gbind_len b : List.length (f (snd b)) <= List.length (gbind b) /\ 1 <= List.length (gbind b).
Proof.
  destruct b as [[nm k] v]. unfold gbind. cbn [fst snd List.length]. rewrite app_length. cbn [List.length]. lia.
Qed.

Lemma core_ok_call g args : Forall (fun a => expF_ok (snd a)) args -> core_ok (ECall g args).
Proof.
  intros IH n m rest Hn Hm Hp. cbn [fmt] in *.
  change (map (fun a => match fst a with
                        | Some n0 => TId n0 :: TSym Colon :: TSp :: f (snd a)
                        | None => f (snd a) end) args) with (map garg args) in *.
  cbn [List.length] in Hn, Hm. rewrite app_length in Hn, Hm. cbn [List.length] in Hn, Hm.
  destruct args as [|a0 args'].
  - cbn [map join app pcore hd_is t_lp List.tl].
    rewrite plist1_none by (unfold parg; rewrite pexp_closer by reflexivity; reflexivity). reflexivity.
  - cbn [app pcore hd_is t_lp List.tl]. rewrite <- app_assoc. cbn [app].
    rewrite (plist1_ok garg [TSym Comma; TSp] sep_comma_sp (parg m (pfac n)) (fun r => hd_is sepclose r = true /\ hd_is (fun t => match t with TSym Colon => true | _ => false end) r = false));
      try reflexivity.
    + pose proof (join_len_count [TSym Comma; TSp] garg (a0 :: args') (fun a _ => proj2 (garg_len a))) as Hc.
      cbn [List.length] in Hc. lia.
    + intros a r Hin [Hr Hnc]. rewrite Forall_forall in IH. specialize (IH _ Hin).
      pose proof (join_len_in [TSym Comma; TSp] garg (a0 :: args') a Hin) as Hl. pose proof (garg_len a) as [Hl2 _].
      destruct a as [[nm|] v]; unfold garg in *; cbn [fst snd] in *; unfold parg.
      * change (TId nm :: TSym Colon :: TSp :: f v) with (f (EVar nm None) ++ TSym Colon :: TSp :: f v).
        rewrite <- app_assoc.
        assert (H1n : List.length (f (EVar nm None)) <= n) by (cbn; lia).
        assert (H1m : List.length (f (EVar nm None)) <= m) by (cbn; lia).
        rewrite (exp_at (EVar nm None) n m _ (expF_ok_var nm None) H1n H1m) by (apply sepclose_R; reflexivity).
        cbn [app]. rewrite (exp_at v n m _ IH) by (try lia; apply sepclose_R; exact Hr). reflexivity.
      * rewrite (exp_at v n m _ IH) by (try lia; apply sepclose_R; exact Hr).
        destruct r as [|[| | | | | |[]|] r]; try discriminate; reflexivity.
    + intros; split; reflexivity.
    + split; reflexivity.
Qed.

Lemma core_ok_rec bs : bs <> [] -> Forall (fun b => expF_ok (snd b)) bs -> core_ok (ERec bs).
Proof.
  intros Hne IH n m rest Hn Hm Hp. cbn [fmt] in *.
  change (map (fun b => TId (fst (fst b)) :: fmt_okind (snd (fst b)) ++ TSym Colon :: TSp :: f (snd b)) bs)
    with (map gbind bs) in *.
  cbn [List.length] in Hn, Hm. rewrite app_length in Hn, Hm. cbn [List.length] in Hn, Hm.
  destruct bs as [|b0 bs']; [contradiction|].
  cbn [app pcore]. rewrite <- app_assoc. cbn [app].
  rewrite (plist1_ok gbind [TSym Comma; TSp] sep_comma_sp (pbind m (pfac n)) (fun r => hd_is sepclose r = true));
    try reflexivity.
  - pose proof (join_len_count [TSym Comma; TSp] gbind (b0 :: bs') (fun b _ => proj2 (gbind_len b))) as Hc.
    cbn [List.length] in Hc. lia.
  - intros b r Hin Hr. rewrite Forall_forall in IH. specialize (IH _ Hin).
    pose proof (join_len_in [TSym Comma; TSp] gbind (b0 :: bs') b Hin) as Hl. pose proof (gbind_len b) as [Hl2 _].
    destruct b as [[nm k] v]. unfold gbind in *. cbn [fst snd] in *. unfold pbind.
    change (TId nm :: fmt_okind k ++ TSym Colon :: TSp :: f v) with ((TId nm :: fmt_okind k) ++ TSym Colon :: TSp :: f v).
    change (TId nm :: fmt_okind k) with (f (EVar nm k)). rewrite <- app_assoc.
    assert (H1 : List.length (f (EVar nm k)) <= List.length (TId nm :: fmt_okind k ++ TSym Colon :: TSp :: f v)).
    { cbn [fmt List.length]. rewrite app_length. lia. }
    rewrite (exp_at (EVar nm k) n m _ (expF_ok_var nm k)) by (try lia; apply sepclose_R; reflexivity).
    cbn [app]. rewrite (exp_at v n m _ IH) by (try lia; apply sepclose_R; exact Hr). reflexivity.
Qed.

Lemma sub_ok_dot s : sub_ok (EDot s).
Proof. intros n m rest _ _. reflexivity. Qed.

Definition t_cm_rb (t : tok) : bool := match t with TSym Comma | TSym RB => true | _ => false end.

Lemma sub_ok_brk ixs : ixs <> [] -> Forall (fun x => x = EAll \/ expF_ok x) ixs -> sub_ok (EBrk ixs).
Proof.
  intros Hne IH n m rest Hn Hm. cbn [fmt] in *. cbn [List.length] in Hn, Hm. rewrite app_length in Hn, Hm. cbn [List.length] in Hn, Hm.
  destruct ixs as [|x0 xs]; [contradiction|].
  cbn [app psub]. rewrite <- app_assoc. cbn [app].
  rewrite (plist1_ok f [TSym Comma] sep_comma (pix m (pfac n)) (fun r => hd_is t_cm_rb r = true)); try reflexivity.
  - pose proof (join_len_count [TSym Comma] f (x0 :: xs) (fun y _ => fmt_len_pos y)) as Hc. cbn [List.length] in Hc. lia.
  - intros x r Hin Hr. rewrite Forall_forall in IH. specialize (IH _ Hin).
    pose proof (join_len_in [TSym Comma] f (x0 :: xs) x Hin) as Hl.
    unfold pix. destruct IH as [->|IH].
    + cbn [fmt app]. destruct r as [|[| | | | | |[]|] r]; try discriminate;
        rewrite pexp_none by (first [apply pfac_colon; reflexivity | reflexivity]); reflexivity.
    + rewrite (exp_at x n m _ IH); try lia; [reflexivity|].
      apply sepclose_R. destruct r as [|[| | | | | |[]|] r]; try discriminate; reflexivity.
Qed.

Lemma core_ok_slice x subs : subs <> [] -> Forall (fun s => is_sub s = true /\ sub_ok s) subs -> core_ok (ESlice x subs).
Proof.
  intros Hne IH n m rest Hn Hm Hp. cbn [fmt] in *. cbn [List.length] in Hn, Hm.
  destruct subs as [|s0 ss]; [contradiction|].
  assert (Hhd : hd_is t_lp (flat_map f (s0 :: ss) ++ rest) = false).
  { inversion IH as [|? ? [Hs _] _]; subst. destruct s0; try discriminate; reflexivity. }
  cbn [app pcore]. rewrite Hhd.
  assert (Hloop : psep m sep_none (psub m (pfac n)) (flat_map f (s0 :: ss) ++ rest) = (s0 :: ss, rest)).
  { apply (psep_ok f [] sep_none (psub m (pfac n)) (fun _ => True)); auto.
    - pose proof (length_flat_map_ge f (s0 :: ss) fmt_len_pos). lia.
    - intros s r Hin _. rewrite Forall_forall in IH. destruct (IH _ Hin) as [_ Hs].
      pose proof (flat_len_in f (s0 :: ss) s Hin). apply Hs; lia.
    - unfold sep_none. apply psub_none, Hp. }
  rewrite Hloop. reflexivity.
Qed.

(* ------------------------------------------------------------------ the induction *)
(* ------------------------------------------------------------------ state-machine instances *)
Lemma pexp0_closer n m t r : closer t = true -> pexp0 m (pfac n) (t :: r) = None.
Proof. intros H. apply pexp0_none, pfac_closer, H. Qed.

Lemma expF_ok_fsm0 nm : expF_ok (EFsm nm None).
Proof.
  intros n m rest _ _ Hp _ _. cbn [fmt app pexp pfsm].
  rewrite (hd_lp_post0 _ (post_ok_post0 _ Hp)). reflexivity.
Qed.

Lemma expF_ok_fsm nm args : Forall (fun a => exp_ok (snd a)) args -> expF_ok (EFsm nm (Some args)).
Proof.
  intros IH n m rest Hn Hm Hp _ _. cbn [fmt] in *.
  change (map (fun a => match fst a with
                        | Some n0 => TId n0 :: TSym Colon :: TSp :: f (snd a)
                        | None => f (snd a) end) args) with (map garg args) in *.
  cbn [List.length] in Hn, Hm. rewrite app_length in Hn, Hm. cbn [List.length] in Hn, Hm.
  destruct args as [|a0 args'].
  - cbn [map join app pexp pfsm hd_is t_lp List.tl].
    rewrite plist1_none by (unfold parg0; rewrite pexp0_closer by reflexivity; reflexivity). reflexivity.
  - cbn [app pexp pfsm hd_is t_lp List.tl]. rewrite <- app_assoc. cbn [app].
    rewrite (plist1_ok garg [TSym Comma; TSp] sep_comma_sp (parg0 m (pfac n)) (fun r => hd_is sepclose r = true /\ hd_is (fun t => match t with TSym Colon => true | _ => false end) r = false));
      try reflexivity.
    + pose proof (join_len_count [TSym Comma; TSp] garg (a0 :: args') (fun a _ => proj2 (garg_len a))) as Hc.
      cbn [List.length] in Hc. lia.
    + intros a r Hin [Hr Hnc]. rewrite Forall_forall in IH. specialize (IH _ Hin).
      pose proof (join_len_in [TSym Comma; TSp] garg (a0 :: args') a Hin) as Hl. pose proof (garg_len a) as [Hl2 _].
      destruct a as [[nm'|] v]; unfold garg in *; cbn [fst snd] in *; unfold parg0.
      * change (TId nm' :: TSym Colon :: TSp :: f v) with (f (EVar nm' None) ++ TSym Colon :: TSp :: f v).
        rewrite <- app_assoc.
        assert (H1n : List.length (f (EVar nm' None)) <= n) by (cbn; lia).
        assert (H1m : List.length (f (EVar nm' None)) <= m) by (cbn; lia).
        rewrite (exp_at0 (EVar nm' None) n m _ (exp_ok_var nm' None) H1n H1m) by (apply sepclose_R; reflexivity).
        cbn [app]. rewrite (exp_at0 v n m _ IH) by (try lia; apply sepclose_R; exact Hr). reflexivity.
      * rewrite (exp_at0 v n m _ IH) by (try lia; apply sepclose_R; exact Hr).
        destruct r as [|[| | | | | |[]|] r]; try discriminate; reflexivity.
    + intros; split; reflexivity.
    + split; reflexivity.
Qed.

(* ------------------------------------------------------------------ the induction *)
Definition all5 (e : ex) : Prop :=
  (is_core e = true -> core_ok e) /\ (is_fac e = true -> fac_ok e) /\ (is_formula e = true -> lev_ok e) /\
  (is_expr e = true -> exp_ok e) /\ (is_sub e = true -> sub_ok e) /\ (is_exprF e = true -> expF_ok e).

Lemma elvl_formula e : 1 <= elvl e -> is_formula e = true.
Proof.
  destruct e; cbn; intros H; try reflexivity; try lia.
Qed.

Lemma wf_formula_lvl e : wf e = true -> is_formula e = true -> 1 <= elvl e.
Proof.
  destruct e; cbn; intros Hw Hf; try lia; try discriminate.
  destruct r as [|[o x] r]; [discriminate|]. apply op_level_pos.
Qed.

Lemma from_fac e : is_fac e = true -> is_sub e = false -> (is_core e = true -> core_ok e) -> fac_ok e -> all5 e.
Proof.
  intros Hf Hs Hc H.
  assert (Hl : elvl e = 8) by (destruct e; try discriminate; reflexivity).
  assert (Hlev : lev_ok e) by (apply fac_to_lev; assumption).
  assert (Hexp : exp_ok e) by (apply lev_to_exp; [lia|assumption]).
  repeat split; intros; try assumption; try (apply Hc; assumption).
  - congruence.
  - apply exp_to_expF, Hexp.
Qed.

Lemma from_core e : is_core e = true -> core_ok e -> all5 e.
Proof.
  intros Hc H. apply from_fac; auto.
  - destruct e; try discriminate; reflexivity.
  - destruct e; try discriminate; reflexivity.
  - apply core_to_fac, H.
Qed.

Lemma forallb_Forall_and {A} (P : A -> bool) (Q : A -> Prop) (l : list A) :
  forallb P l = true -> Forall (fun x => P x = true -> Q x) l -> Forall Q l.
Proof.
  intros H HF. rewrite forallb_forall in H. rewrite Forall_forall in *. intros x Hin. apply HF; auto.
Qed.

Lemma all5_expF e : all5 e -> is_exprF e = true -> expF_ok e.
Proof. intros (_ & _ & _ & _ & _ & H). exact H. Qed.

Lemma all5_exp e : all5 e -> is_expr e = true -> exp_ok e.
Proof. intros (_ & _ & _ & H & _). exact H. Qed.

Lemma all5_exp_F e : all5 e -> is_expr e = true -> expF_ok e.
Proof. intros H He. apply exp_to_expF, (all5_exp e H He). Qed.

Theorem all_ok : forall e, wf e = true -> all5 e.
Proof.
  induction e using ex_ind'; intros Hw; cbn [wf] in Hw.
  - apply from_core; [reflexivity|apply core_ok_lit].
  - apply from_core; [reflexivity|apply core_ok_var].
  - (* paren *) apply andb_prop in Hw as [Hw Hf].
    apply from_core; [reflexivity|]. apply core_ok_paren, (all5_exp_F e (IHe Hw)). unfold is_expr. rewrite Hf. reflexivity.
  - (* neg *) apply andb_prop in Hw as [Hw _]. apply andb_prop in Hw as [Hw Hf]. destruct (IHe Hw) as (_ & He & _).
    apply from_fac; try reflexivity; [discriminate|]. apply fac_ok_neg, He, Hf.
  - (* not *) apply andb_prop in Hw as [Hw Hf]. destruct (IHe Hw) as (_ & He & _).
    apply from_fac; try reflexivity; [discriminate|]. apply fac_ok_not, He, Hf.
  - (* trans *) apply andb_prop in Hw as [Hw Hf]. destruct (IHe Hw) as (He & _).
    apply from_fac; try reflexivity; [discriminate|]. apply fac_ok_trans, He, Hf.
  - (* term *)
    destruct r as [|[o0 x0] r']; [discriminate|]. set (r := (o0, x0) :: r') in *.
    apply andb_prop in Hw as [Hw Hr]. apply andb_prop in Hw as [Hwl Hll]. apply Nat.ltb_lt in Hll.
    rewrite forallb_forall in Hr. rewrite Forall_forall in H.
    assert (Hk : elvl (ETerm e r) = op_level o0) by reflexivity.
    assert (Hlev : lev_ok (ETerm e r)).
    { apply lev_ok_term.
      - discriminate.
      - intros p Hin. specialize (Hr _ Hin). apply andb_prop in Hr as [Hr H3]. apply andb_prop in Hr as [H1 H2].
        apply Nat.eqb_eq in H1. apply Nat.ltb_lt in H3. rewrite Hk. split; assumption.
      - rewrite Hk. exact Hll.
      - destruct (IHe Hwl) as (_ & _ & Hl & _). apply Hl, elvl_formula. pose proof (op_level_pos o0). lia.
      - intros p Hin. specialize (Hr _ Hin). apply andb_prop in Hr as [Hr H3]. apply andb_prop in Hr as [H1 H2].
        apply Nat.ltb_lt in H3. destruct (H _ Hin H2) as (_ & _ & Hl & _). apply Hl, elvl_formula.
        pose proof (op_level_pos o0). lia. }
    assert (Hexp : exp_ok (ETerm e r)) by (apply lev_to_exp; [rewrite Hk; apply op_level_pos | assumption]).
    repeat split; intros; try discriminate; try assumption. apply exp_to_expF, Hexp.
  - (* mat *)
    apply from_core; [reflexivity|]. rewrite forallb_forall in Hw. apply core_ok_mat.
    + intros row Hin. specialize (Hw _ Hin). apply andb_prop in Hw as [Hw _]. destruct row; [discriminate|discriminate].
    + rewrite Forall_forall in *. intros row Hin. specialize (Hw _ Hin). apply andb_prop in Hw as [_ Hw].
      specialize (H _ Hin). rewrite forallb_forall in Hw. rewrite Forall_forall in *. intros y Hy.
      specialize (Hw _ Hy). apply andb_prop in Hw as [Hwx Hex]. apply (all5_expF y (H _ Hy Hwx)), Hex.
  - (* set *)
    apply from_core; [reflexivity|]. apply core_ok_set. rewrite forallb_forall in Hw. rewrite Forall_forall in *.
    intros y Hy. specialize (Hw _ Hy). apply andb_prop in Hw as [Hwx Hex]. apply (all5_expF y (H _ Hy Hwx)), Hex.
  - (* tup *)
    apply andb_prop in Hw as [Hlen Hw]. apply from_core; [reflexivity|]. apply core_ok_tup.
    + apply negb_true_iff, Nat.eqb_neq in Hlen. exact Hlen.
    + rewrite forallb_forall in Hw. rewrite Forall_forall in *.
      intros y Hy. specialize (Hw _ Hy). apply andb_prop in Hw as [Hwx Hex]. apply (all5_expF y (H _ Hy Hwx)), Hex.
  - (* rec *)
    apply andb_prop in Hw as [Hlen Hw]. apply from_core; [reflexivity|]. apply core_ok_rec.
    + destruct bs; [discriminate|discriminate].
    + rewrite forallb_forall in Hw. rewrite Forall_forall in *.
      intros y Hy. specialize (Hw _ Hy). apply andb_prop in Hw as [Hwx Hex]. apply (all5_expF _ (H _ Hy Hwx)), Hex.
  - (* map *)
    apply andb_prop in Hw as [Hk0 Hw]. apply from_core; [reflexivity|]. apply core_ok_map.
    + destruct ms as [|[k0 v0] ms']; [exact I|]. destruct k0; try reflexivity. discriminate Hk0.
    + rewrite forallb_forall in Hw. rewrite Forall_forall in *.
      intros y Hy. specialize (Hw _ Hy). apply andb_prop in Hw as [Hw Hev]. apply andb_prop in Hw as [Hw Hwv].
      apply andb_prop in Hw as [Hwk Hek]. destruct (H _ Hy) as [H1 H2].
      split; [apply (all5_exp_F _ (H1 Hwk)), Hek | apply (all5_expF _ (H2 Hwv)), Hev].
  - (* tuple-struct *)
    apply andb_prop in Hw as [Hw Hf].
    apply from_core; [reflexivity|]. apply core_ok_tups, (all5_expF e (IHe Hw)), Hf.
  - (* call *)
    apply from_core; [reflexivity|]. apply core_ok_call. rewrite forallb_forall in Hw. rewrite Forall_forall in *.
    intros y Hy. specialize (Hw _ Hy). apply andb_prop in Hw as [Hwx Hex]. apply (all5_expF _ (H _ Hy Hwx)), Hex.
  - (* slice *)
    apply andb_prop in Hw as [Hlen Hw]. apply from_core; [reflexivity|]. apply core_ok_slice.
    + destruct subs; [discriminate|discriminate].
    + rewrite forallb_forall in Hw. rewrite Forall_forall in *.
      intros y Hy. specialize (Hw _ Hy). apply andb_prop in Hw as [Hwx Hsx]. destruct (H _ Hy Hwx) as (_ & _ & _ & _ & Hs & _).
      split; [exact Hsx|apply Hs, Hsx].
  - (* dot *) repeat split; intros; try discriminate; try apply sub_ok_dot.
  - (* brk *)
    apply andb_prop in Hw as [Hlen Hw]. repeat split; intros; try discriminate. apply sub_ok_brk.
    + destruct ixs; [discriminate|discriminate].
    + rewrite forallb_forall in Hw. rewrite Forall_forall in *.
      intros y Hy. specialize (Hw _ Hy). destruct y; try (left; reflexivity); right;
        apply andb_prop in Hw as [Hwx Hex]; apply (all5_exp_F _ (H _ Hy Hwx)), Hex.
  - (* all *) repeat split; intros; discriminate.
  - (* range *)
    apply andb_prop in Hw as [Hw Hinc]. apply andb_prop in Hw as [Hw Hfb]. apply andb_prop in Hw as [Hw Hwb].
    apply andb_prop in Hw as [Hwa Hfa].
    assert (Hexp : exp_ok (ERange e1 inc i e2)).
    { apply exp_ok_range.
      + destruct (IHe1 Hwa) as (_ & _ & Hl & _). apply Hl, Hfa.
      + apply wf_formula_lvl; assumption.
      + destruct (IHe2 Hwb) as (_ & _ & Hl & _). apply Hl, Hfb.
      + apply wf_formula_lvl; assumption.
      + intros s Hin. destruct inc as [[i1 s']|]; [|contradiction]. destruct Hin as [<-|[]]. cbn [snd].
        apply andb_prop in Hinc as [Hws Hfs]. inversion H as [|? ? Hs _]; subst. cbn [snd] in Hs.
        destruct (Hs Hws) as (_ & _ & Hl & _). split; [apply Hl, Hfs | apply wf_formula_lvl; assumption]. }
    repeat split; intros; try discriminate; try assumption. apply exp_to_expF, Hexp.
  - (* state-machine instance *)
    repeat split; intros; try discriminate.
    destruct args as [l|]; [|apply expF_ok_fsm0].
    apply expF_ok_fsm. cbn [fsm_args] in H. rewrite forallb_forall in Hw. rewrite Forall_forall in *.
    intros y Hy. specialize (Hw _ Hy). apply andb_prop in Hw as [Hwx Hex]. apply (all5_exp _ (H _ Hy Hwx)), Hex.
Qed.

(* ------------------------------------------------------------------ statements and programs *)
Lemma exp_ok_of e : wf e = true -> is_expr e = true -> exp_ok e.
Proof. intros Hw He. destruct (all_ok e Hw) as (_ & _ & _ & H & _). apply H, He. Qed.

Definition starter (t : tok) : bool :=
  match t with
  | TId _ | TNum _ | TStr _ | TBool _ => true
  | TSym s => match s with LP | LB | LC | Colon | Dot | NotS | SOp OSub | Hash => true | _ => false end
  | _ => false
  end.

Lemma fmt_head_st : forall e r, exists t tl, f e ++ r = t :: tl /\ starter t = true.
Proof.
  induction e using ex_ind'; intros r0; cbn [fmt fmt_lit app]; try (eexists _, _; split; reflexivity).
  - destruct l; cbn [fmt_lit app]; eexists _, _; (split; reflexivity).
  - rewrite <- app_assoc. apply IHe.
  - rewrite <- app_assoc. apply IHe.
  - destruct ms; cbn [app]; eexists _, _; (split; reflexivity).
  - destruct inc as [[i1 s]|]; rewrite <- app_assoc; apply IHe1.
  - destruct args; cbn [app]; eexists _, _; (split; reflexivity).
Qed.

Lemma no_tilde ts t tl : ts = t :: tl -> starter t = true ->
  match ts with TSym Tilde :: r => (true, r) | _ => (false, ts) end = (false, ts).
Proof. intros -> H. destruct t as [| | | | | |[]|]; try discriminate; reflexivity. Qed.

Lemma pexpr_at e n r : wf e = true -> is_expr e = true -> List.length (f e) <= n -> R_exp r ->
  pexpr n (f e ++ r) = Some (e, r).
Proof. intros Hw He Hn Hr. unfold pexpr. apply exp_at; try assumption. apply exp_to_expF, exp_ok_of; assumption. Qed.

Lemma expF_ok_of e : wf e = true -> is_exprF e = true -> expF_ok e.
Proof. intros Hw He. apply (all5_expF e (all_ok e Hw)), He. Qed.

Lemma pexprF_at e n r : wf e = true -> is_exprF e = true -> List.length (f e) <= n -> R_exp r ->
  pexpr n (f e ++ r) = Some (e, r).
Proof. intros Hw He Hn Hr. unfold pexpr. apply exp_at; try assumption. apply expF_ok_of; assumption. Qed.

Lemma R_nl r : R_exp (TNl :: r).
Proof. apply sepclose_R. reflexivity. Qed.

Lemma wf_target_slice x subs : subs <> [] -> wf_target subs = true ->
  wf (ESlice x subs) = true /\ is_expr (ESlice x subs) = true.
Proof.
  intros Hne Hw. split; [|reflexivity]. cbn [wf]. unfold wf_target in Hw. rewrite Hw.
  destruct subs; [contradiction|reflexivity].
Qed.

Lemma target_ok x subs n r :
  wf_target subs = true -> List.length (TId x :: fmt_subs false subs) <= n -> R_exp r ->
  pexpr n (TId x :: fmt_subs false subs ++ r) =
  Some (match subs with [] => EVar x None | _ => ESlice x subs end, r).
Proof.
  intros Hw Hn Hr. destruct subs as [|s0 ss].
  - change (TId x :: fmt_subs false [] ++ r) with (f (EVar x None) ++ r). apply pexpr_at; auto.
  - destruct (wf_target_slice x (s0 :: ss)) as [H1 H2]; [discriminate|exact Hw|].
    change (TId x :: fmt_subs false (s0 :: ss) ++ r) with (f (ESlice x (s0 :: ss)) ++ r). apply pexpr_at; auto.
Qed.

Lemma R_stmt_op s r : (forall o, s <> SOp o) -> R_exp (TSp :: TSym s :: r).
Proof.
  intros H. repeat split. destruct s; try reflexivity. exfalso. eapply H. reflexivity.
Qed.

