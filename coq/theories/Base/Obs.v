(* Observations printed by harness/src/canon.rs, decoded generically:
   element payloads stay opaque S-expressions, so the shape-level models
   (indexing, assignment, concatenation, reshape) are polymorphic in the
   element type and are instantiated at [sx]. *)
From Coq Require Import List ZArith String.
From MechV Require Import Base.Sexp.
Import ListNotations.
Open Scope string_scope.

(* column-major matrix over any element type *)
Record mat (A : Type) : Type := Mat { mrows : nat; mcols : nat; mdata : list A }.
Arguments Mat {A} _ _ _.
Arguments mrows {A} _.
Arguments mcols {A} _.
Arguments mdata {A} _.

Definition wf_mat {A} (m : mat A) : Prop := List.length (mdata m) = mrows m * mcols m.
Definition wf_matb {A} (m : mat A) : bool := Nat.eqb (List.length (mdata m)) (mrows m * mcols m).

(* 0-based element access, column-major, with explicit range guards *)
Definition mget {A} (m : mat A) (i j : nat) : option A :=
  if andb (Nat.ltb i (mrows m)) (Nat.ltb j (mcols m))
  then nth_error (mdata m) (j * mrows m + i) else None.

(* kinded values as the harness prints them *)
Inductive kval : Type :=
| KS (k : string) (e : sx)                 (* (s kind payload) *)
| KM (k : string) (m : mat sx).            (* (m kind r c (payload...)) *)

Inductive obs : Type :=
| OVal (v : kval)
| OErr                                      (* (err "...") : one token *)
| OPerr                                     (* parse error *)
| OPanic                                    (* the harness caught a panic *)
| OOther (x : sx).

Definition decode_kval (x : sx) : option kval :=
  match x with
  | Lx [Ax "s"; Ax k; e] => Some (KS k e)
  | Lx [Ax "m"; Ax k; Zx r; Zx c; Lx d] =>
      if andb (Z.leb 0 r) (Z.leb 0 c) then Some (KM k (Mat (Z.to_nat r) (Z.to_nat c) d)) else None
  | _ => None
  end.

Definition decode_obs (x : sx) : obs :=
  match x with
  | Lx (Ax "err" :: _) => OErr
  | Lx (Ax "perr" :: _) => OPerr
  | Lx (Ax "panic" :: _) => OPanic
  | _ => match decode_kval x with Some v => OVal v | None => OOther x end
  end.

Definition encode_kval (v : kval) : sx :=
  match v with
  | KS k e => Lx [Ax "s"; Ax k; e]
  | KM k m => Lx [Ax "m"; Ax k; Zx (Z.of_nat (mrows m)); Zx (Z.of_nat (mcols m)); Lx (mdata m)]
  end.

Fixpoint sxs_eqb (a b : list sx) : bool :=
  match a, b with
  | [], [] => true
  | x :: a', y :: b' => andb (sx_eqb x y) (sxs_eqb a' b')
  | _, _ => false
  end.

Definition mat_eqb (a b : mat sx) : bool :=
  andb (andb (Nat.eqb (mrows a) (mrows b)) (Nat.eqb (mcols a) (mcols b))) (sxs_eqb (mdata a) (mdata b)).

Definition kval_eqb (a b : kval) : bool :=
  match a, b with
  | KS k e, KS k' e' => andb (String.eqb k k') (sx_eqb e e')
  | KM k m, KM k' m' => andb (String.eqb k k') (mat_eqb m m')
  | _, _ => false
  end.

(* verdicts every suite returns *)
Definition v_ok (tag : string) : sx := Lx [Ax "ok"; Ax tag].
Definition v_adv (tag : string) : sx := Lx [Ax "adv"; Ax tag].
Definition v_kf (id : string) : sx := Lx [Ax "kf"; Ax id].
Definition v_bad (why : string) (expected : sx) : sx := Lx [Ax "bad"; Ax why; expected].
Definition v_malformed : sx := Lx [Ax "malformed-case"].
