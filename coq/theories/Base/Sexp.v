(* S-expressions: the wire format between the generators, the Rust harness
   (harness/src/canon.rs) and the extracted models.  Parser and printer are
   total Gallina functions, so the OCaml driver only moves lines around. *)
From Coq Require Import List ZArith Ascii String DecimalString.
Import ListNotations.
Open Scope string_scope.

Inductive sx : Type :=
| Zx (z : Z)            (* decimal integer atom *)
| Ax (s : string)       (* bare word *)
| Qx (s : string)       (* quoted string (raw bytes) *)
| Lx (l : list sx).

(* ---------- tokens ---------- *)
Inductive tok := TL | TR | TA (s : string) | TQ (s : string).

Definition is_space (c : ascii) : bool :=
  match c with " "%char | "009"%char | "010"%char | "013"%char => true | _ => false end.

Definition is_delim (c : ascii) : bool :=
  match c with "("%char | ")"%char | """"%char => true | _ => is_space c end.

Definition hexval (c : ascii) : option nat :=
  let n := nat_of_ascii c in
  if andb (Nat.leb 48 n) (Nat.leb n 57) then Some (n - 48)
  else if andb (Nat.leb 97 n) (Nat.leb n 102) then Some (n - 87)
  else if andb (Nat.leb 65 n) (Nat.leb n 70) then Some (n - 55)
  else None.

(* read the inside of a quoted string; returns (content, rest after closing quote) *)
Fixpoint read_q (s : string) (acc : string -> string) : option (string * string) :=
  match s with
  | EmptyString => None
  | String """"%char r => Some (acc EmptyString, r)
  | String "\"%char (String c r) =>
      match c with
      | "n"%char => read_q r (fun t => acc (String "010"%char t))
      | "r"%char => read_q r (fun t => acc (String "013"%char t))
      | "t"%char => read_q r (fun t => acc (String "009"%char t))
      | "x"%char =>
          match r with
          | String h1 (String h2 r') =>
              match hexval h1, hexval h2 with
              | Some a, Some b => read_q r' (fun t => acc (String (ascii_of_nat (16 * a + b)) t))
              | _, _ => None
              end
          | _ => None
          end
      | _ => read_q r (fun t => acc (String c t))
      end
  | String c r => read_q r (fun t => acc (String c t))
  end.

Fixpoint read_word (s : string) (acc : string -> string) : string * string :=
  match s with
  | EmptyString => (acc EmptyString, EmptyString)
  | String c r => if is_delim c then (acc EmptyString, s) else read_word r (fun t => acc (String c t))
  end.

(* tokenizer with fuel = length of the input + 1 *)
Fixpoint tokenize (fuel : nat) (s : string) : option (list tok) :=
  match fuel with
  | O => match s with EmptyString => Some [] | _ => None end
  | S f =>
      match s with
      | EmptyString => Some []
      | String c r =>
          if is_space c then tokenize f r
          else match c with
               | "("%char => option_map (cons TL) (tokenize f r)
               | ")"%char => option_map (cons TR) (tokenize f r)
               | """"%char =>
                   match read_q r (fun t => t) with
                   | Some (q, r') => option_map (cons (TQ q)) (tokenize f r')
                   | None => None
                   end
               | _ => let '(w, r') := read_word s (fun t => t) in
                      match w with
                      | EmptyString => None
                      | _ => option_map (cons (TA w)) (tokenize f r')
                      end
               end
      end
  end.

Definition atom_of (w : string) : sx :=
  match NilZero.int_of_string w with
  | Some i => Zx (Z.of_int i)
  | None => Ax w
  end.

(* stack parser: stack of reversed partial lists *)
Fixpoint parse_toks (ts : list tok) (stack : list (list sx)) : option sx :=
  match ts with
  | [] => match stack with [[x]] => Some x | _ => None end
  | t :: ts' =>
      match t, stack with
      | TL, _ => parse_toks ts' ([] :: stack)
      | TR, top :: next :: rest => parse_toks ts' ((Lx (List.rev top) :: next) :: rest)
      | TR, _ => None
      | TA w, top :: rest => parse_toks ts' ((atom_of w :: top) :: rest)
      | TQ q, top :: rest => parse_toks ts' ((Qx q :: top) :: rest)
      | _, [] => None
      end
  end.

Definition parse_sx (s : string) : option sx :=
  match tokenize (S (String.length s)) s with
  | Some ts => parse_toks ts [[]]
  | None => None
  end.

(* ---------- printer ---------- *)
Definition show_Z (z : Z) : string := NilZero.string_of_int (Z.to_int z).

Definition hexdigit (n : nat) : ascii :=
  if Nat.ltb n 10 then ascii_of_nat (48 + n) else ascii_of_nat (87 + n).

Fixpoint escape (s : string) : string :=
  match s with
  | EmptyString => EmptyString
  | String c r =>
      let n := nat_of_ascii c in
      match c with
      | """"%char => String "\"%char (String """"%char (escape r))
      | "\"%char => String "\"%char (String "\"%char (escape r))
      | "010"%char => String "\"%char (String "n"%char (escape r))
      | "013"%char => String "\"%char (String "r"%char (escape r))
      | "009"%char => String "\"%char (String "t"%char (escape r))
      | _ => if andb (Nat.leb 32 n) (Nat.leb n 126) then String c (escape r)
             else String "\"%char (String "x"%char
                    (String (hexdigit (n / 16)) (String (hexdigit (n mod 16)) (escape r))))
      end
  end.

Fixpoint show (x : sx) : string :=
  match x with
  | Zx z => show_Z z
  | Ax s => s
  | Qx s => String """"%char (escape s ++ String """"%char EmptyString)
  | Lx l =>
      let fix go (l : list sx) : string :=
        match l with
        | [] => ""
        | [y] => show y
        | y :: r => show y ++ " " ++ go r
        end in
      "(" ++ go l ++ ")"
  end.

(* ---------- small decoding helpers used by every suite ---------- *)
Definition sx_Z (x : sx) : option Z := match x with Zx z => Some z | _ => None end.
Definition sx_list (x : sx) : option (list sx) := match x with Lx l => Some l | _ => None end.
Definition sx_word (x : sx) : option string := match x with Ax s => Some s | _ => None end.
Definition sx_str (x : sx) : option string := match x with Qx s => Some s | Ax s => Some s | _ => None end.

Fixpoint map_opt {A B} (f : A -> option B) (l : list A) : option (list B) :=
  match l with
  | [] => Some []
  | a :: r => match f a, map_opt f r with Some b, Some bs => Some (b :: bs) | _, _ => None end
  end.

Definition sx_Zs (x : sx) : option (list Z) :=
  match x with Lx l => map_opt sx_Z l | _ => None end.

(* structural equality on sx *)
Fixpoint sx_eqb (a b : sx) : bool :=
  match a, b with
  | Zx x, Zx y => Z.eqb x y
  | Ax x, Ax y => String.eqb x y
  | Qx x, Qx y => String.eqb x y
  | Lx x, Lx y =>
      (fix go (x y : list sx) : bool :=
         match x, y with
         | [], [] => true
         | a :: x', b :: y' => andb (sx_eqb a b) (go x' y')
         | _, _ => false
         end) x y
  | _, _ => false
  end.

(* A line-level wrapper: every suite provides judge : sx -> sx; a malformed
   line is reported, never silently accepted. *)
Definition run_with (judge : sx -> sx) (line : string) : string :=
  match parse_sx line with
  | Some x => show (judge x)
  | None => "(malformed)"
  end.
