From Coq Require Extraction ExtrOcamlBasic ExtrOcamlString.
From MechV Require Import Model.Fmt3.
Extraction "ocaml/C08/model.ml" run_line.
