From Coq Require Extraction ExtrOcamlBasic ExtrOcamlString.
From MechV Require Import Model.Fmt2.
Extraction "ocaml/C08/model.ml" run_line.
