From Coq Require Extraction ExtrOcamlBasic ExtrOcamlString.
From MechV Require Import Model.Store.
Extraction "ocaml/C05/model.ml" run_line.
