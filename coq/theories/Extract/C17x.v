From Coq Require Extraction ExtrOcamlBasic ExtrOcamlString.
From MechV Require Import Model.Fsm.
Extraction "ocaml/C17/model.ml" run_line.
