From Coq Require Extraction ExtrOcamlBasic ExtrOcamlString.
From MechV Require Import Model.SetM.
Extraction "ocaml/C14/model.ml" run_line.
