From Coq Require Extraction ExtrOcamlBasic ExtrOcamlString.
From MechV Require Import Model.Plan.
Extraction "ocaml/C19/model.ml" run_line.
