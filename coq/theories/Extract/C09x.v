From Coq Require Extraction ExtrOcamlBasic ExtrOcamlString.
From MechV Require Import Model.ParseLoop.
Extraction "ocaml/C09/model.ml" run_line.
