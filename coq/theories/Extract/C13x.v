From Coq Require Extraction ExtrOcamlBasic ExtrOcamlString.
From MechV Require Import Model.Literal.
Extraction "ocaml/C13/model.ml" run_line.
