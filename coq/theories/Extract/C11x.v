From Coq Require Extraction ExtrOcamlBasic ExtrOcamlString.
From MechV Require Import Model.Cat.
Extraction "ocaml/C11/model.ml" run_line.
