From Coq Require Extraction ExtrOcamlBasic ExtrOcamlString.
From MechV Require Import Model.Index.
Extraction "ocaml/C03/model.ml" run_line.
