From Coq Require Extraction ExtrOcamlBasic ExtrOcamlString.
From MechV Require Import Model.ConvertJ.
Extraction "ocaml/C12/model.ml" run_line.
