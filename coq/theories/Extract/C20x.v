From Coq Require Extraction ExtrOcamlBasic ExtrOcamlString.
From MechV Require Import Model.Include.
Extraction "ocaml/C20/model.ml" run_line.
