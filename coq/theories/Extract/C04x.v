From Coq Require Extraction ExtrOcamlBasic ExtrOcamlString.
From MechV Require Import Model.Assign.
Extraction "ocaml/C04/model.ml" run_line.
