From Coq Require Extraction ExtrOcamlBasic ExtrOcamlString.
From MechV Require Import Model.BytecodeLinkJ.
Extraction "ocaml/C06/model.ml" run_line.
