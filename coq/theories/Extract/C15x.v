From Coq Require Extraction ExtrOcamlBasic ExtrOcamlString.
From MechV Require Import Model.Range.
Extraction "ocaml/C15/model.ml" run_line.
