From Coq Require Extraction ExtrOcamlBasic ExtrOcamlString.
From MechV Require Import Model.LoaderJ.
Extraction "ocaml/C07/model.ml" run_line.
