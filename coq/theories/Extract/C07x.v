From Coq Require Extraction ExtrOcamlBasic ExtrOcamlString.
From MechV Require Import Model.ContainerJ.
Extraction "ocaml/C07/model.ml" run_line.
