From Coq Require Extraction ExtrOcamlBasic ExtrOcamlString.
From MechV Require Import Model.Formula.
Extraction "ocaml/C02/model.ml" run_line.
