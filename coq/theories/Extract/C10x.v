From Coq Require Extraction ExtrOcamlBasic ExtrOcamlString.
From MechV Require Import Model.DocScan.
Extraction "ocaml/C10/model.ml" DocScan.run_line.
