From Coq Require Extraction ExtrOcamlBasic ExtrOcamlString.
From MechV Require Import Model.Doc.
Extraction "ocaml/C10/model.ml" run_line.
