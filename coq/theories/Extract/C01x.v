From Coq Require Extraction ExtrOcamlBasic ExtrOcamlString.
From MechV Require Import Model.Elemwise.
Extraction "ocaml/C01/model.ml" run_line.
