From Coq Require Extraction ExtrOcamlBasic ExtrOcamlString.
From MechV Require Import Model.Join.
Extraction "ocaml/C18/model.ml" run_line.
