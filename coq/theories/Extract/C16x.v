From Coq Require Extraction ExtrOcamlBasic ExtrOcamlString.
From MechV Require Import Model.Fun.
Extraction "ocaml/C16/model.ml" run_line.
