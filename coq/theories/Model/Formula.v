(* C02 — formulas: precedence levels and left associativity.  Executable definitions only.

   Implementation side (what the code does):
     src/syntax/src/expressions.rs   formula := l1 ; lN := lN+1, (opN, lN+1)* -> Term{lhs, rhs} (lhs alone if rhs = []);
                                     factor := (parenthetical | negate | not | ... ), transpose? ;
                                     negate-factor := "-", factor ; not-factor := "!", factor
     src/interpreter/src/expressions.rs  term(): lhs := op_i(lhs, rhs_i) for i = 1..n (left fold); Parenthetical is
                                     transparent; Negate/Not/Transpose apply a unary function.
   The table "operator parser -> level" is NOT written here: it is Gen/Levels.v, regenerated from the Rust source
   by translators/levels.py on every run.

   Specification side: the documented precedence classes (docs/design/specification.mec 6.1 and the property text)
   read declaratively: the root of a flat operator sequence is the LAST operator of the LOOSEST class present. *)
From Coq Require Import List Arith ZArith String Bool.
From MechV Require Import Base.Sexp Base.Obs Gen.Levels.
Import ListNotations.
Open Scope string_scope.

(* ------------------------------------------------------------------ *)
(* operators: one constructor per operator parser of the source       *)
(* ------------------------------------------------------------------ *)
Inductive binop : Type :=
| OAnd | OOr | OXor
| OSeq | OSneq | ONeq | OEq | OGe | OGt | OLe | OLt
| OAdd | OSub
| OMul | ODiv | OMod | OMatMul | OSolve | ODot | OCross
| OPow
| OJoin | OLJoin | ORJoin | OFJoin | OLSemi | OLAnti
| OUnion | OInter | ODiff | OCompl | OSubset | OSuperset | OPSubset | OPSuperset | OElem | ONotElem | OSymDiff.

Definition all_binops : list binop :=
  [OAnd; OOr; OXor; OSeq; OSneq; ONeq; OEq; OGe; OGt; OLe; OLt; OAdd; OSub;
   OMul; ODiv; OMod; OMatMul; OSolve; ODot; OCross; OPow;
   OJoin; OLJoin; ORJoin; OFJoin; OLSemi; OLAnti;
   OUnion; OInter; ODiff; OCompl; OSubset; OSuperset; OPSubset; OPSuperset; OElem; ONotElem; OSymDiff].

(* name of the parser function in src/syntax/src/expressions.rs *)
Definition binop_name (o : binop) : string :=
  match o with
  | OAnd => "and" | OOr => "or" | OXor => "xor"
  | OSeq => "strict_equal" | OSneq => "strict_not_equal" | ONeq => "not_equal" | OEq => "equal_to"
  | OGe => "greater_than_equal" | OGt => "greater_than" | OLe => "less_than_equal" | OLt => "less_than"
  | OAdd => "add" | OSub => "subtract"
  | OMul => "multiply" | ODiv => "divide" | OMod => "modulus"
  | OMatMul => "matrix_multiply" | OSolve => "matrix_solve" | ODot => "dot_product" | OCross => "cross_product"
  | OPow => "power"
  | OJoin => "join" | OLJoin => "left_join" | ORJoin => "right_join" | OFJoin => "full_join"
  | OLSemi => "left_semi_join" | OLAnti => "left_anti_join"
  | OUnion => "union_op" | OInter => "intersection" | ODiff => "difference" | OCompl => "complement"
  | OSubset => "subset" | OSuperset => "superset" | OPSubset => "proper_subset" | OPSuperset => "proper_superset"
  | OElem => "element_of" | ONotElem => "not_element_of" | OSymDiff => "symmetric_difference"
  end.

(* the token written between two operands (always surrounded by one space).  xor is written U+2295: the ASCII
   spelling "^^" of the source never parses after an operand (the power parser takes the first "^" and then
   `cut`s), which is outside this property. *)
Definition binop_tok (o : binop) : string :=
  match o with
  | OAnd => "&&" | OOr => "||" | OXor => "⊕"
  | OSeq => "=:=" | OSneq => "=!=" | ONeq => "!=" | OEq => "=="
  | OGe => ">=" | OGt => ">" | OLe => "<=" | OLt => "<"
  | OAdd => "+" | OSub => "-"
  | OMul => "*" | ODiv => "/" | OMod => "%"
  | OMatMul => "**" | OSolve => "\" | ODot => "·" | OCross => "⨯"
  | OPow => "^"
  | OJoin => "⋈" | OLJoin => "⟕" | ORJoin => "⟖" | OFJoin => "⟗" | OLSemi => "⋉" | OLAnti => "▷"
  | OUnion => "∪" | OInter => "∩" | ODiff => "∖" | OCompl => "∁" | OSubset => "⊆" | OSuperset => "⊇"
  | OPSubset => "⊊" | OPSuperset => "⊋" | OElem => "∈" | ONotElem => "∉" | OSymDiff => "Δ"
  end.

Definition binop_eqb (a b : binop) : bool := String.eqb (binop_name a) (binop_name b).

Definition binop_of_name (s : string) : option binop :=
  find (fun o => String.eqb (binop_name o) s) all_binops.

(* ------------------------------------------------------------------ *)
(* the level table of the implementation (from Gen/Levels.v)          *)
(* ------------------------------------------------------------------ *)
Fixpoint row_index (s : string) (rows : list (list string)) (n : nat) : nat :=
  match rows with
  | [] => 0
  | r :: rs => if existsb (String.eqb s) r then n else row_index s rs (S n)
  end.

(* level (1 = loosest = l1) of an operator in a table; 0 = the table has no level for it *)
Definition level_in (rows : list (list string)) (o : binop) : nat := row_index (binop_name o) rows 1.
Definition lvl : binop -> nat := level_in level_rows.
Definition nlevels : nat := List.length level_rows.

(* ------------------------------------------------------------------ *)
(* the documented classes (specification)                             *)
(* ------------------------------------------------------------------ *)
Inductive cls : Type := Logic | Cmp | AddSub | MulDivMat | Pow | TableC | SetC.

(* specification.mec 6.1.1 / property text: which operator belongs to which class *)
Definition class_of (o : binop) : cls :=
  match o with
  | OAnd | OOr | OXor => Logic
  | OSeq | OSneq | ONeq | OEq | OGe | OGt | OLe | OLt => Cmp
  | OAdd | OSub => AddSub
  | OMul | ODiv | OMod | OMatMul | OSolve | ODot | OCross => MulDivMat
  | OPow => Pow
  | OJoin | OLJoin | ORJoin | OFJoin | OLSemi | OLAnti => TableC
  | OUnion | OInter | ODiff | OCompl | OSubset | OSuperset | OPSubset | OPSuperset | OElem | ONotElem | OSymDiff => SetC
  end.

(* Logic < Cmp < AddSub < MulDivMat < Pow (tighter to the right); table and set operators bind tighter
   than ^ (specification.mec 6.1.1 items 3-5 and the grammar l6, l7), unary operators tighter still. *)
Definition rank (c : cls) : nat :=
  match c with Logic => 1 | Cmp => 2 | AddSub => 3 | MulDivMat => 4 | Pow => 5 | TableC => 6 | SetC => 7 end.
Definition crank (o : binop) : nat := rank (class_of o).
Definition five_classes (o : binop) : bool :=
  match class_of o with TableC | SetC => false | _ => true end.

(* ------------------------------------------------------------------ *)
(* concrete syntax                                                    *)
(* ------------------------------------------------------------------ *)
Inductive atom : Type :=
| ANum (n : Z)                      (* decimal literal (default kind f64) *)
| ABool (b : bool)
| AVar (name : string).             (* a variable bound (by the generator's prelude) to a matrix literal *)

Inductive unop : Type := UNeg | UNot.

(* operand = prefix operators, a literal or a parenthesised formula, at most one postfix transpose: exactly the
   texts `factor` accepts (a second "'" is not accepted by the grammar after an operand). *)
Inductive operand : Type :=
| OAtom (pre : list unop) (a : atom) (tr : bool)
| OParen (pre : list unop) (f : formula) (tr : bool)
with formula : Type :=
| FOne (o : operand)
| FCons (o : operand) (op : binop) (f : formula).

(* evaluation trees: what the interpreter computes *)
Inductive tree : Type :=
| TAtom (a : atom)
| TUn (u : unop) (t : tree)
| TTr (t : tree)
| TBin (op : binop) (l r : tree).

Definition oseq : Type := list (binop * tree).

(* interpreter::term(): left fold of the (operator, operand) list onto lhs; the parser's
   `if rhs.is_empty() { lhs }` is the case [fold_term x [] = x]. *)
Definition fold_term (x : tree) (r : oseq) : tree := fold_left (fun acc ot => TBin (fst ot) acc (snd ot)) r x.

(* factor(): prefix operators parse a whole factor as operand (so the transpose belongs to the innermost one) *)
Definition wrap (pre : list unop) (tr : bool) (t : tree) : tree :=
  fold_right TUn (if tr then TTr t else t) pre.

Section Build.
  (* how a flat sequence  x0 op1 x1 ... opn xn  of already built operands is grouped *)
  Variable seqf : tree -> oseq -> tree.

  Fixpoint build_operand (o : operand) : tree :=
    match o with
    | OAtom pre a tr => wrap pre tr (TAtom a)
    | OParen pre f tr => wrap pre tr (let '(x, r) := flat f in seqf x r)
    end
  with flat (f : formula) : tree * oseq :=
    match f with
    | FOne o => (build_operand o, [])
    | FCons o op f' => let '(x, r) := flat f' in (build_operand o, (op, x) :: r)
    end.

  Definition build (f : formula) : tree := let '(x, r) := flat f in seqf x r.
End Build.

(* ---------------- implementation model: recursive descent ---------------- *)
Section RD.
  Variable lv : binop -> nat.

  (* What `lN` sees: the maximal runs without an operator of level <= n are what lN+1 consumes; the operators
     of level n between them are the rhs list of lN's Term.  Returns (first run, [(op, run)...]). *)
  Fixpoint segs (n : nat) (x : tree) (r : oseq) : (tree * oseq) * list (binop * (tree * oseq)) :=
    match r with
    | [] => ((x, []), [])
    | (op, y) :: r' =>
        let '(s0, ss) := segs n y r' in
        if Nat.leb (lv op) n then ((x, []), (op, s0) :: ss)
        else ((x, (op, fst s0) :: snd s0), ss)
    end.

  (* k levels remain, the current one is n:  lN := lN+1, (opN, lN+1)*  followed by term()'s fold;
     k = 0 is `factor` (operands are already built) *)
  Fixpoint rd_level (k n : nat) (x : tree) (r : oseq) : tree :=
    match k with
    | O => x
    | S k' =>
        let '(s0, ss) := segs n x r in
        fold_term (rd_level k' (S n) (fst s0) (snd s0))
                  (map (fun os => (fst os, rd_level k' (S n) (fst (snd os)) (snd (snd os)))) ss)
    end.
End RD.

Definition rd_seq_with (lv : binop -> nat) (nl : nat) : tree -> oseq -> tree := rd_level lv nl 1.
Definition rd_with (lv : binop -> nat) (nl : nat) : formula -> tree := build (rd_seq_with lv nl).
(* the implementation: the generated table *)
Definition rd_seq : tree -> oseq -> tree := rd_seq_with lvl nlevels.
Definition rd : formula -> tree := rd_with lvl nlevels.

(* A second, token-consuming rendering of the same parser, literally `lN := lN+1, many0(pair(opN, cut(lN+1)))`
   on the remaining input (fuel = number of remaining tokens bounds the many0 loop).  Returns the parsed tree
   and the unconsumed rest.  Proofs/FormulaP.v shows it equals [rd_level]. *)
Section Stream.
  Variable lv : binop -> nat.
  Fixpoint many0 (fuel : nat) (n : nat) (next : tree -> oseq -> tree * oseq) (r : oseq) : oseq * oseq :=
    match fuel with
    | O => ([], r)
    | S fuel' =>
        match r with
        | [] => ([], [])
        | (op, y) :: r' =>
            if Nat.eqb (lv op) n then
              let '(t, r1) := next y r' in
              let '(more, r2) := many0 fuel' n next r1 in
              ((op, t) :: more, r2)
            else ([], r)
        end
    end.
  Fixpoint pl (k n : nat) (x : tree) (r : oseq) : tree * oseq :=
    match k with
    | O => (x, r)
    | S k' =>
        let '(lhs, r1) := pl k' (S n) x r in
        let '(rhs, r2) := many0 (List.length r1) n (pl k' (S n)) r1 in
        (fold_term lhs rhs, r2)
    end.
End Stream.

(* ---------------- specification: declarative precedence ---------------- *)
(* loosest rank present; 8 (more than any rank) for the empty sequence *)
Fixpoint min_rank (r : oseq) : nat :=
  match r with
  | [] => 8
  | (op, _) :: r' => Nat.min (crank op) (min_rank r')
  end.

(* split at the LAST operator of rank m *)
Fixpoint split_last (m : nat) (x : tree) (r : oseq) : option ((tree * oseq) * binop * (tree * oseq)) :=
  match r with
  | [] => None
  | (op, y) :: r' =>
      match split_last m y r' with
      | Some (l, o, rt) => Some ((x, (op, fst l) :: snd l), o, rt)
      | None => if Nat.eqb (crank op) m then Some ((x, []), op, (y, r')) else None
      end
  end.

Fixpoint spec_fuel (fuel : nat) (x : tree) (r : oseq) : tree :=
  match fuel with
  | O => x
  | S fuel' =>
      match r with
      | [] => x
      | _ :: _ =>
          match split_last (min_rank r) x r with
          | Some (l, o, rt) => TBin o (spec_fuel fuel' (fst l) (snd l)) (spec_fuel fuel' (fst rt) (snd rt))
          | None => x
          end
      end
  end.

Definition spec_seq (x : tree) (r : oseq) : tree := spec_fuel (List.length r) x r.
Definition spec_tree : formula -> tree := build spec_seq.

(* ---------------- inserting parentheses ---------------- *)
Fixpoint fapp (g : formula) (op : binop) (f : formula) : formula :=
  match g with
  | FOne o => FCons o op f
  | FCons o p g' => FCons o p (fapp g' op f)
  end.

Definition as_operand (f : formula) : operand :=
  match f with FOne o => o | _ => OParen [] f false end.
Definition push_un (u : unop) (o : operand) : operand :=
  match o with OAtom pre a tr => OAtom (u :: pre) a tr | OParen pre f tr => OParen (u :: pre) f tr end.

(* child [c] (rendered as [g]) of an operator of rank [p]: parentheses are NEEDED when the child is a binary
   node that would otherwise regroup (looser operator, or equal class on the right: left associativity);
   [force] inserts them also where the grammar already implies the grouping. *)
Definition side (force left : bool) (p : nat) (c : tree) (g : formula) : formula :=
  match c with
  | TAtom _ => g
  | TBin cop _ _ =>
      if orb force (negb (if left then Nat.leb p (crank cop) else Nat.ltb p (crank cop)))
      then FOne (OParen [] g false) else g
  | _ => if force then FOne (OParen [] g false) else g
  end.

(* [pf sel d t]: the tree written as a formula; besides the needed parentheses, the grammar-implied ones are
   inserted around the children of every node whose depth satisfies [sel] *)
Fixpoint pf (sel : nat -> bool) (d : nat) (t : tree) : formula :=
  match t with
  | TAtom a => FOne (OAtom [] a false)
  | TUn u t' =>
      if sel d then FOne (OParen [u] (pf sel (S d) t') false)
      else FOne (push_un u (as_operand (pf sel (S d) t')))
  | TTr t' =>
      match pf sel (S d) t' with
      | FOne (OAtom [] a false) =>
          if sel d then FOne (OParen [] (FOne (OAtom [] a false)) true) else FOne (OAtom [] a true)
      | g => FOne (OParen [] g true)
      end
  | TBin op l r =>
      fapp (side (sel d) true (crank op) l (pf sel (S d) l)) op
           (side (sel d) false (crank op) r (pf sel (S d) r))
  end.

(* every parenthesis inserted / only the needed ones *)
Definition paren_full (t : tree) : formula := pf (fun _ => true) 0 t.
Definition paren_min (t : tree) : formula := pf (fun _ => false) 0 t.

(* The implementation's parser needs time exponential in the nesting depth of parentheses (about x3..x4 per
   level), so a long chain cannot be submitted fully parenthesised in one text.  Band k of m inserts the implied
   parentheses at the depths = k (mod m); the m bands together insert every parenthesis of [paren_full]. *)
Fixpoint nest_operand (o : operand) : nat :=
  match o with OAtom _ _ _ => 0 | OParen _ f _ => S (nest f) end
with nest (f : formula) : nat :=
  match f with FOne o => nest_operand o | FCons o _ f' => Nat.max (nest_operand o) (nest f') end.

Definition band (m k : nat) (t : tree) : formula := pf (fun d => Nat.eqb (Nat.modulo d m) k) 0 t.
Definition bands (m : nat) (t : tree) : list formula := map (fun k => band m k t) (List.seq 0 m).
(* a band may nest at most 3 deep, or one deeper than the parentheses the tree needs anyway *)
Definition nest_limit (t : tree) : nat := Nat.max 3 (S (nest (paren_min t))).
Fixpoint choose_bands (fuel m : nat) (t : tree) : list formula :=
  match fuel with
  | O => bands m t
  | S fuel' =>
      let bs := bands m t in
      if forallb (fun g => Nat.leb (nest g) (nest_limit t)) bs then bs else choose_bands fuel' (S m) t
  end.
(* m = 1 is [paren_full] itself; at most 5 bands *)
Definition paren_texts (t : tree) : list formula := choose_bands 4 1 t.

(* ---------------- rendering to Mech source ---------------- *)
Definition unop_tok (u : unop) : string := match u with UNeg => "-" | UNot => "!" end.
Fixpoint show_pre (p : list unop) : string :=
  match p with [] => "" | u :: p' => unop_tok u ++ show_pre p' end.
Definition show_atom (a : atom) : string :=
  match a with
  | ANum n => show_Z n
  | ABool true => "true"
  | ABool false => "false"
  | AVar name => name
  end.
Definition show_tr (tr : bool) : string := if tr then "'" else "".

Fixpoint show_operand (o : operand) : string :=
  match o with
  | OAtom pre a tr => show_pre pre ++ show_atom a ++ show_tr tr
  | OParen pre f tr => show_pre pre ++ "(" ++ show_formula f ++ ")" ++ show_tr tr
  end
with show_formula (f : formula) : string :=
  match f with
  | FOne o => show_operand o
  | FCons o op f' => show_operand o ++ " " ++ binop_tok op ++ " " ++ show_formula f'
  end.

(* ---------------- exact evaluation where it is cheap ---------------- *)
(* Numbers are f64 in the implementation; the model evaluates only where every intermediate result is an
   integer of magnitude < 2^53 computed exactly by IEEE arithmetic (so the model value is THE value), and
   booleans.  [None] = outside that region (inexact, ill-typed, matrix, division by zero ...): no prediction. *)
Inductive val : Type := VN (z : Z) | VB (b : bool).

Definition lim53 : Z := 9007199254740992%Z.
Definition inr (z : Z) : option val := if Z.ltb (Z.abs z) lim53 then Some (VN z) else None.

Definition ev_bin (op : binop) (a b : val) : option val :=
  match op, a, b with
  | OAdd, VN x, VN y => inr (x + y)%Z
  | OSub, VN x, VN y => inr (x - y)%Z
  | OMul, VN x, VN y => inr (x * y)%Z
  | ODiv, VN x, VN y => if Z.eqb y 0 then None else if Z.eqb (Z.rem x y) 0 then inr (Z.quot x y) else None
  | OMod, VN x, VN y => if Z.eqb y 0 then None else inr (Z.rem x y)
  | OPow, VN x, VN y =>
      if andb (andb (Z.leb 0 y) (Z.leb y 64)) (Z.leb (Z.abs x) 1024) then inr (Z.pow x y) else None
  | OEq, VN x, VN y => Some (VB (Z.eqb x y))
  | ONeq, VN x, VN y => Some (VB (negb (Z.eqb x y)))
  | OLt, VN x, VN y => Some (VB (Z.ltb x y))
  | OLe, VN x, VN y => Some (VB (Z.leb x y))
  | OGt, VN x, VN y => Some (VB (Z.gtb x y))
  | OGe, VN x, VN y => Some (VB (Z.geb x y))
  | OEq, VB x, VB y => Some (VB (Bool.eqb x y))
  | ONeq, VB x, VB y => Some (VB (negb (Bool.eqb x y)))
  | OAnd, VB x, VB y => Some (VB (andb x y))
  | OOr, VB x, VB y => Some (VB (orb x y))
  | OXor, VB x, VB y => Some (VB (xorb x y))
  | _, _, _ => None
  end.

Fixpoint ev (t : tree) : option val :=
  match t with
  | TAtom (ANum n) => inr n
  | TAtom (ABool b) => Some (VB b)
  | TAtom (AVar _) => None
  | TUn UNeg t' => match ev t' with Some (VN z) => Some (VN (- z)%Z) | _ => None end
  | TUn UNot t' => match ev t' with Some (VB b) => Some (VB (negb b)) | _ => None end
  | TTr _ => None
  | TBin op l r => match ev l, ev r with Some a, Some b => ev_bin op a b | _, _ => None end
  end.

(* IEEE-754 binary64 bit pattern of an integer of magnitude < 2^53 (exactly representable) *)
Definition f64_bits_of_Z (z : Z) : Z :=
  if Z.eqb z 0 then 0 else
  let a := Z.abs z in
  let e := Z.log2 a in
  let m := ((a - Z.pow 2 e) * Z.pow 2 (52 - e))%Z in
  ((if Z.ltb z 0 then 9223372036854775808 else 0) + (1023 + e) * 4503599627370496 + m)%Z.

(* does an observation equal the model value?  a zero result may carry either sign (the sign of a zero
   is not tracked by the integer model; it cannot influence other results because division by zero is excluded) *)
Definition matches (v : val) (o : sx) : bool :=
  match v, o with
  | VN z, Lx [Ax "s"; Ax "f64"; Zx b] =>
      if Z.eqb z 0 then orb (Z.eqb b 0) (Z.eqb b 9223372036854775808) else Z.eqb b (f64_bits_of_Z z)
  | VB x, Lx [Ax "s"; Ax "bool"; Zx b] => Z.eqb b (if x then 1 else 0)
  | _, _ => false
  end.

Definition encode_val (v : val) : sx :=
  match v with
  | VN z => Lx [Ax "s"; Ax "f64"; Zx (f64_bits_of_Z z)]
  | VB b => Lx [Ax "s"; Ax "bool"; Zx (if b then 1 else 0)]
  end.

(* ---------------- observations ---------------- *)
Definition is_err (o : sx) : bool :=
  match o with Lx (Ax "err" :: _) => true | Lx (Ax "panic" :: _) => true | _ => false end.
Definition is_perr (o : sx) : bool :=
  match o with Lx (Ax "perr" :: _) => true | _ => false end.

(* all NaNs identified *)
Definition nan_norm (b : Z) : Z :=
  let e := Z.land (Z.shiftr b 52) 2047 in
  let m := Z.land b 4503599627370495 in
  if andb (Z.eqb e 2047) (negb (Z.eqb m 0)) then 9221120237041090560 else b.
Definition norm_f64 (x : sx) : sx := match x with Zx b => Zx (nan_norm b) | _ => x end.
Definition norm_kval (v : kval) : kval :=
  match v with
  | KS k e => if String.eqb k "f64" then KS k (norm_f64 e) else v
  | KM k m => if String.eqb k "f64" then KM k (Mat (mrows m) (mcols m) (map norm_f64 (mdata m))) else v
  end.
Definition obs_val (o : sx) : option kval :=
  if orb (is_err o) (is_perr o) then None else option_map norm_kval (decode_kval o).

Definition same_value (o1 o2 : sx) : bool :=
  match obs_val o1, obs_val o2 with
  | Some a, Some b => kval_eqb a b
  | _, _ => false
  end.
(* the two observations are indistinguishable: both errors, or the same value *)
Definition obs_agree (o1 o2 : sx) : bool := orb (andb (is_err o1) (is_err o2)) (same_value o1 o2).

(* ---------------- an alternative grouping (only used to report whether grouping matters) ---------------- *)
(* rotate at the root: ((a o2 b) o1 c) <-> (a o2 (b o1 c)) *)
Definition alt_tree (f : formula) : option tree :=
  match rd f with
  | TBin o1 (TBin o2 a b) c => Some (TBin o2 a (TBin o1 b c))
  | TBin o1 a (TBin o2 b c) => Some (TBin o2 (TBin o1 a b) c)
  | _ => None
  end.

(* ---------------- decoding of cases ---------------- *)
Definition dec_unop (x : sx) : option unop :=
  match x with Ax "neg" => Some UNeg | Ax "not" => Some UNot | _ => None end.
Definition dec_atom (x : sx) : option atom :=
  match x with
  | Lx [Ax "num"; Zx n] => Some (ANum n)
  | Lx [Ax "bool"; Zx b] => Some (ABool (negb (Z.eqb b 0)))
  | Lx [Ax "var"; Ax name] => Some (AVar name)
  | _ => None
  end.

(* operand: (a (pre...) atom tr) | (p (pre...) formula tr) ; formula: (f operand opname operand opname operand ...) *)
Fixpoint dec_operand (x : sx) : option operand :=
  match x with
  | Lx [Ax "a"; Lx pre; a; Zx tr] =>
      match map_opt dec_unop pre, dec_atom a with
      | Some p, Some a' => Some (OAtom p a' (negb (Z.eqb tr 0)))
      | _, _ => None
      end
  | Lx [Ax "p"; Lx pre; f; Zx tr] =>
      match map_opt dec_unop pre, dec_formula f with
      | Some p, Some f' => Some (OParen p f' (negb (Z.eqb tr 0)))
      | _, _ => None
      end
  | _ => None
  end
with dec_formula (x : sx) : option formula :=
  match x with
  | Lx (Ax "f" :: items) =>
      (fix go (l : list sx) {struct l} : option formula :=
         match l with
         | [o] => option_map FOne (dec_operand o)
         | o :: Ax opn :: l' =>
             match dec_operand o, binop_of_name opn, go l' with
             | Some o', Some op, Some f' => Some (FCons o' op f')
             | _, _, _ => None
             end
         | _ => None
         end) items
  | _ => None
  end.

(* ---------------- the judge ---------------- *)
(* case: (c02 formula) ; sources sent to the implementation: [texts f] ; observation: (multi o_e o_1 .. o_m o_alt) *)
Definition text_e (f : formula) : string := show_formula f.
Definition texts_paren (f : formula) : list string := map show_formula (paren_texts (rd f)).
Definition text_alt (f : formula) : string :=
  match alt_tree f with Some t => show_formula (paren_min t) | None => show_formula (paren_min (rd f)) end.
Definition texts (f : formula) : list string := (text_e f :: texts_paren f ++ [text_alt f])%list.

Definition dtag (f : formula) (o1 o3 : sx) : string :=
  match alt_tree f with
  | None => "single"
  | Some _ => if obs_agree o1 o3 then "same" else "distinct"
  end.

(* o_e : observation of e ; ops : observations of the parenthesised texts ; oa : of the alternative grouping *)
Definition judge_obs (f : formula) (oe : sx) (ops : list sx) (oa : sx) : sx :=
  match ev (rd f) with
  | Some v =>
      if andb (andb (matches v oe) (forallb (matches v) ops)) (forallb (same_value oe) ops)
      then v_ok ("value-" ++ dtag f oe oa)
      else v_bad "wrong-value" (encode_val v)
  | None =>
      if andb (is_perr oe) (forallb is_perr ops) then v_adv "parse-error"
      else if andb (is_err oe) (forallb is_err ops) then v_ok "error"
      else if forallb (same_value oe) ops then v_ok ("agree-" ++ dtag f oe oa)
      else v_bad "grouping-differs" (Lx ops)
  end.

Definition judge_formula (x : sx) : sx :=
  match x with
  | Lx [Ax "render"; f] =>
      match dec_formula f with
      | Some f' => Lx (Ax "texts" :: map Qx (texts f'))
      | None => v_malformed
      end
  | Lx [Lx [Ax "c02"; f]; Lx (Ax "multi" :: oe :: rest)] =>
      match dec_formula f with
      | Some f' =>
          let m := List.length (paren_texts (rd f')) in
          if Nat.eqb (List.length rest) (S m)
          then judge_obs f' oe (firstn m rest) (nth m rest (Lx []))
          else v_malformed
      | None => v_malformed
      end
  (* the harness produced no observation at all for this case (killed after the stall limit, or the process died):
     nothing can be said about grouping *)
  | Lx [Lx [Ax "c02"; _]; Lx (Ax "hang" :: _)] => v_adv "no-observation"
  | Lx [Lx [Ax "c02"; _]; Lx (Ax "abort" :: _)] => v_adv "no-observation"
  | _ => v_malformed
  end.

Definition run_line (s : string) : string := run_with judge_formula s.
