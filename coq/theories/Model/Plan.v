(* C19 — re-evaluation of a plan.  An abstract machine: a store of cells, a plan of
   steps; each step recomputes its output cell from its operand cells (solve()).
   Executable definitions only. *)
From Coq Require Import List Arith Bool ZArith String.
From MechV Require Import Base.Sexp Base.Obs.
Import ListNotations.

Section Plan.
  Context {V : Type}.

  Definition store := nat -> V.
  Definition upd (s : store) (c : nat) (v : V) : store := fun c' => if Nat.eqb c' c then v else s c'.

  Record pstep := { s_out : nat; s_args : list nat; s_fn : list V -> V }.

  Definition solve (s : store) (st : pstep) : store := upd s (s_out st) (s_fn st (map s (s_args st))).
  Definition resolve (p : list pstep) (s : store) : store := fold_left solve p s.
  Fixpoint steps (n : nat) (p : list pstep) (s : store) : store :=
    match n with O => s | S n' => steps n' p (resolve p s) end.

  (* hypotheses under which re-evaluation is a no-op *)
  Definition outs (p : list pstep) : list nat := map s_out p.
  (* every operand of step k is either never written by the plan, or written by an earlier step *)
  Fixpoint reads_earlier (before : list nat) (all_outs : list nat) (p : list pstep) : Prop :=
    match p with
    | [] => True
    | st :: r =>
        (forall a, In a (s_args st) -> In a before \/ ~ In a all_outs) /\
        reads_earlier (s_out st :: before) all_outs r
    end.
  Definition plan_pure (p : list pstep) : Prop := NoDup (outs p) /\ reads_earlier [] (outs p) p.
End Plan.

(* ---- dataflow shape of a real plan, as read back by the harness ---- *)
Open Scope string_scope.
Record rstep := { r_name : string; r_structured : bool; r_outs : list nat; r_ins : list nat }.

Definition is_define (n : string) : bool := String.prefix "VariableDefine" n.

Fixpoint mem_nat (x : nat) (l : list nat) : bool :=
  match l with [] => false | y :: r => orb (Nat.eqb x y) (mem_nat x r) end.

Fixpoint nodup_nat (l : list nat) : bool :=
  match l with [] => true | x :: r => andb (negb (mem_nat x r)) (nodup_nat r) end.

(* boolean version of plan_pure over the observed dataflow: every non-define step has exactly one
   output cell, distinct from all other outputs and not among its own operands, and reads only cells
   written earlier or never written *)
Fixpoint reads_earlierb (before all_outs : list nat) (p : list rstep) : bool :=
  match p with
  | [] => true
  | st :: r =>
      if is_define (r_name st) then reads_earlierb before all_outs r
      else match r_outs st with
           | [o] => andb (forallb (fun a => orb (mem_nat a before) (negb (mem_nat a all_outs))) (r_ins st))
                         (reads_earlierb (o :: before) all_outs r)
           | _ => false
           end
  end.

Definition real_outs (p : list rstep) : list nat := flat_map (fun st => if is_define (r_name st) then [] else r_outs st) p.
Definition plan_pureb (p : list rstep) : bool :=
  andb (forallb r_structured p) (andb (nodup_nat (real_outs p)) (reads_earlierb [] (real_outs p) p)).

(* ---- the suite ---- *)
Definition sx_nat (x : sx) : option nat := match x with Zx z => if Z.leb 0 z then Some (Z.to_nat z) else None | _ => None end.
Definition sx_nats (x : sx) : option (list nat) := match x with Lx l => map_opt sx_nat l | _ => None end.

Definition decode_rstep (x : sx) : option rstep :=
  match x with
  | Lx [Ax "pstep"; Qx n; Zx b; o; i] =>
      match sx_nats o, sx_nats i with
      | Some os, Some is => Some {| r_name := n; r_structured := Z.eqb b 1; r_outs := os; r_ins := is |}
      | _, _ => None
      end
  | _ => None
  end.

(* case: (step <has_assign 0|1> <k> "source") ; observation: see harness mode_step *)
Definition judge_step (x : sx) : sx :=
  match x with
  | Lx [Lx [Ax "step"; Zx has_assign; Zx k; _];
        Lx [Ax "stepobs"; ra; s0; Lx (Ax "singles" :: singles); rb; b0; Lx [Ax "batch"; rbk; bk]; Lx (Ax "plan" :: plan)]] =>
      let single_syms := map (fun st => match st with Lx [Ax "st"; _; sy] => sy | _ => Ax "?" end) singles in
      let single_res := map (fun st => match st with Lx [Ax "st"; r; _] => r | _ => Ax "?" end) singles in
      let panicked := existsb (fun r => match r with Lx (Ax "panic" :: _) => true | _ => false end) (rbk :: single_res) in
      if negb (Z.eqb (Z.of_nat (List.length singles)) k) then v_malformed
      else if panicked then
        (* the plan of a program whose interpretation failed still contains the failing step: re-running it
           panics again; C19 fixes nothing about failed programs (C05 covers failing statements) *)
        (match ra with Lx (Ax "err" :: _) => v_adv "step-panicked-after-failed-interpret" | Lx (Ax "perr" :: _) => v_adv "step-panicked-after-failed-interpret"
                     | _ => v_bad "step-panicked" (Ax "no-panic") end)
      else if negb (andb (sx_eqb ra rb) (sx_eqb s0 b0)) then v_bad "two-interpreters-differ-after-interpret" s0
      else if negb (sx_eqb (last single_syms s0) bk) then v_bad "n-single-steps-differ-from-one-request-for-n" (last single_syms s0)
      else if Z.eqb has_assign 0 then
        (if forallb (fun sy => sx_eqb sy s0) single_syms
         then match map_opt decode_rstep plan with
              | Some p => if plan_pureb p then v_ok "noop-plan-pure" else v_ok "noop-plan-not-recognised"
              | None => v_ok "noop-plan-unreadable"
              end
         else v_bad "re-evaluation-changed-a-variable" s0)
      else v_ok "deterministic"
  | _ => v_malformed
  end.

Definition run_line (s : string) : string := run_with judge_step s.
