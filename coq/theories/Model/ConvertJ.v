(* C12 — the part of the model that needs IEEE-754 arithmetic (Flocq), and the judge.

   f64 -> r64 in mech is `R64::from(f64)` = num-rational 0.4.2 `Ratio::<i64>::from_f64`
   = `approximate_float(val, 10e-20, 30)`: a continued-fraction expansion carried out in
   f64 arithmetic that stops as soon as fl(n/d) is within 1e-19 of val.  It does not return
   the exact dyadic value of the float even when i64/i64 can hold it (0.1 -> 1/10,
   3*2^-40 -> 1/366503875925): known finding float-r64-approx.  [approx_r64] mirrors the
   Rust code statement by statement so that the judge accepts as "known" only the very
   answer the defect produces. *)
From Coq Require Import List ZArith Bool String.
From Flocq Require Import IEEE754.BinarySingleNaN IEEE754.Binary IEEE754.Bits.
From MechV Require Import Base.Sexp Base.Obs Model.Convert.
Import ListNotations.
Local Open Scope Z_scope.

Definition F_of_Z (z : Z) : binary64 := binary_normalize 53 1024 eq_refl eq_refl mode_NE z 0 false.   (* `z as f64` *)
Definition flt (a b : binary64) : bool := match b64_compare a b with Some Lt => true | _ => false end.
Definition fgt (a b : binary64) : bool := match b64_compare a b with Some Gt => true | _ => false end.

(* num-traits `f64::to_i64`: Some(trunc) iff -2^63 <= q < 2^63 *)
Definition f_to_i64 (q : binary64) : option Z :=
  if Binary.is_finite 53 1024 q then
    let z := Binary.Btrunc 53 1024 q in
    if (- 2 ^ 63 <=? z) && (z <? 2 ^ 63) then Some z else None
  else None.

Definition tmax : Z := 2 ^ 63 - 1.
Definition f_max_error : binary64 := b64_of_bits 4322756117994590892.   (* the f64 literal 10e-20 *)
Definition f_tmax : binary64 := b64_of_bits 4890909195324358656.        (* i64::MAX as f64 = 2^63 *)
Definition f_eps : binary64 := b64_of_bits 4323455642275676160.         (* t_max_f.recip() = 2^-63 *)
Definition f_one : binary64 := b64_of_bits 4607182418800017408.

(* the loop of approximate_float_unsigned; state (n0,d0,n1,d1), returns (n1,d1) at `break` *)
Fixpoint cf_loop (fuel : nat) (val q : binary64) (n0 d0 n1 d1 : Z) : Z * Z :=
  match fuel with
  | O => (n1, d1)
  | S fuel' =>
      match f_to_i64 q with
      | None => (n1, d1)
      | Some a =>
          let f := b64_minus mode_NE q (F_of_Z a) in
          if negb (a =? 0) && ((n1 >? tmax / a) || (d1 >? tmax / a) || (a * n1 >? tmax - n0) || (a * d1 >? tmax - d0))
          then (n1, d1)
          else
            let n := a * n1 + n0 in
            let d := a * d1 + d0 in
            let g := Z.gcd n d in
            let n1' := if g =? 0 then n else n / g in
            let d1' := if g =? 0 then d else d / g in
            if flt (b64_abs (b64_minus mode_NE (b64_div mode_NE (F_of_Z n) (F_of_Z d)) val)) f_max_error then (n1', d1')
            else if flt f f_eps then (n1', d1')
            else cf_loop fuel' val (b64_div mode_NE f_one f) n1 d1 n1' d1'
      end
  end.

(* Ratio::<i64>::from_f64 on a bit pattern; None = `unwrap()` panics *)
Definition approx_r64 (bits : Z) : option (Z * Z) :=
  let x := b64_of_bits bits in
  if Binary.is_nan 53 1024 x then None else
    let neg := Binary.Bsign 53 1024 x in
    let v := b64_abs x in
    if fgt v f_tmax then None
    else
      let '(n, d) := cf_loop 30 v v 0 1 1 0 in
      if d =? 0 then None
      else let g := Z.gcd n d in
           let n' := n / g in let d' := d / g in
           Some (if neg then - n' else n', d').

(* the f64 bit pattern of a float source (f32 is widened first, exactly) *)
Definition f64_bits_of (k1 : kind) (v : sval) : option Z :=
  match k1, v with
  | F64, VFlt b => Some b
  | F32, VFlt _ => match as_cast F32 F64 v with CVal (VFlt b) => Some b | _ => None end
  | _, _ => None
  end.

(* the observed value is the answer of the approximation (and the judge has found it not exact) *)
Definition kf_approx : kfa_t := fun k1 v k2 v' =>
  kind_eqb k2 R64 &&
  match f64_bits_of k1 v with
  | Some b => match approx_r64 b with
              | Some (n, d) => sval_eqb v' (VRat n d)
              | None => false
              end
  | None => false
  end.

Definition judge_c12 : sx -> sx := judge_convert kf_approx.
Definition run_line (s : string) : string := run_with judge_c12 s.
