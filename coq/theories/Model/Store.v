(* C05 — Bindings are isolated: immutable means unchanged, failures change nothing.
   Executable definitions only.

   Three layers:
   1. the PROPERTY on observable symbol tables: [step_okb T st ok T'] says whether going from table T to
      table T' by statement st with outcome ok/err is allowed by C05 (failure atomic; the three mandatory
      errors; a definition adds exactly the new name with the value of its right-hand side; an assignment
      to or through x leaves every other name, the set of names and all mutability flags alone);
   2. a faithful heap model of what mech does ([exec]): src/core/src/program/symbol_table.rs (name -> slot),
      values holding Rc cells (Ref<T> = Rc<RefCell<T>>, src/core/src/types/mod.rs), the statements of
      src/interpreter/src/statements.rs (variable_define + detach_variable_value, variable_assign, op_assign,
      subscript_ref, tuple_destructure) and the kernels they dispatch to (stdlib/assign/{mod,record,tuple,
      table,matrix}.rs, machines/math/src/op_assign): which statement shares which cells, which forms a
      kernel accepts (one level of MutableReference is looked through, never two), what is written;
   3. the judge: the observed session must satisfy the property step by step (-> ok); if it does not, it is a
      known finding only when the heap model predicts the observation exactly, step by step up to the last
      violating step, and every failing step falls in a listed class.

   Value kinds.  f64 scalars, matrices, sets and tables are held structurally (exact dyadics).  A scalar or
   matrix of any other kind (u8..u128, i8..i128, f32, r64, c64, bool, string) is [DK kind shape payloads], the
   payloads being what harness/src/canon.rs prints (integers, f32 / c64 bit patterns, (numerator denominator),
   0/1, quoted strings); tables and sets with an element of another kind are [DOpq canonical-form].  The
   property only needs equality of such values.  The heap model also knows which kernels exist for which kind
   (none for i128; TupleAssignScalar only for f64/i64/bool/string; no arithmetic on bool and string) and computes
   the op-assignments on integers (with the range checks of the dev profile), f32 and c64 (correctly rounded)
   and r64, including what a kernel leaves behind when it panics midway. *)
From Coq Require Import List ZArith String Bool Arith.
From MechV Require Import Base.Sexp Base.Obs.
Import ListNotations.
Open Scope string_scope.
Open Scope list_scope.

(* ------------------------------------------------------------------ *)
(* numbers: dyadic rationals m * 2^e in normal form (m odd, or (0,0)) *)
(* every f64 except inf/nan is one; +,-,* and division by +-2^k are    *)
(* exact on them (the generator keeps all values within 53 bits)       *)
(* ------------------------------------------------------------------ *)
Definition dy := (Z * Z)%type.

Fixpoint ptz (p : positive) : positive * Z :=
  match p with
  | xO q => let '(r, k) := ptz q in (r, (k + 1)%Z)
  | _ => (p, 0%Z)
  end.

Definition dnorm (m e : Z) : dy :=
  match m with
  | Z0 => (0%Z, 0%Z)
  | Zpos p => let '(r, k) := ptz p in (Zpos r, (e + k)%Z)
  | Zneg p => let '(r, k) := ptz p in (Zneg r, (e + k)%Z)
  end.

Definition dadd (a b : dy) : dy :=
  let '(m1, e1) := a in let '(m2, e2) := b in
  let e := Z.min e1 e2 in
  dnorm (m1 * 2 ^ (e1 - e) + m2 * 2 ^ (e2 - e))%Z e.
Definition dneg (a : dy) : dy := ((- fst a)%Z, snd a).
Definition dsub (a b : dy) : dy := dadd a (dneg b).
Definition dmul (a b : dy) : dy := dnorm (fst a * fst b)%Z (snd a + snd b)%Z.
(* division: only by +-2^k (the decoder rejects other divisors) *)
Definition ddiv (a b : dy) : dy :=
  if Z.eqb (fst b) 1 then dnorm (fst a) (snd a - snd b)%Z
  else if Z.eqb (fst b) (-1) then dnorm (- fst a)%Z (snd a - snd b)%Z
  else (0%Z, 0%Z).
Definition dy_eqb (a b : dy) : bool := andb (Z.eqb (fst a) (fst b)) (Z.eqb (snd a) (snd b)).
Definition dy_pow2 (a : dy) : bool := orb (Z.eqb (fst a) 1) (Z.eqb (fst a) (-1)).

(* IEEE-754 binary64 bit pattern -> dyadic (None for inf / nan) *)
Definition dy_of_bits (b : Z) : option dy :=
  if orb (Z.ltb b 0) (Z.leb (2 ^ 64) b) then None else
  let s := (b / 2 ^ 63)%Z in
  let ex := ((b / 2 ^ 52) mod 2 ^ 11)%Z in
  let fr := (b mod 2 ^ 52)%Z in
  if Z.eqb ex 2047 then None else
  let m := if Z.eqb ex 0 then fr else (fr + 2 ^ 52)%Z in
  let e := if Z.eqb ex 0 then (-1074)%Z else (ex - 1075)%Z in
  Some (dnorm (if Z.eqb s 1 then (- m)%Z else m) e).

Inductive aop := OAdd | OSub | OMul | ODiv.

Definition dop (o : aop) : dy -> dy -> dy :=
  match o with OAdd => dadd | OSub => dsub | OMul => dmul | ODiv => ddiv end.

(* IEEE-754 binary32 bit pattern -> dyadic (None for inf / nan) *)
Definition dy_of_bits32 (b : Z) : option dy :=
  if orb (Z.ltb b 0) (Z.leb (2 ^ 32) b) then None else
  let s := (b / 2 ^ 31)%Z in
  let ex := ((b / 2 ^ 23) mod 2 ^ 8)%Z in
  let fr := (b mod 2 ^ 23)%Z in
  if Z.eqb ex 255 then None else
  let m := if Z.eqb ex 0 then fr else (fr + 2 ^ 23)%Z in
  let e := if Z.eqb ex 0 then (-149)%Z else (ex - 150)%Z in
  Some (dnorm (if Z.eqb s 1 then (- m)%Z else m) e).

(* the correctly rounded (nearest, ties to even) bit pattern of a dyadic in a binary format with p significand
   bits and eb exponent bits; None outside the normal range.  Zero is +0 (-0 and +0 are identified). *)
Definition fbits_of_dy (p eb : Z) (a : dy) : option Z :=
  let '(m, e) := a in
  if Z.eqb m 0 then Some 0%Z else
  let am := Z.abs m in
  let n := (Z.log2 am + 1)%Z in
  let '(m1, e1) :=
    if Z.leb n p then (am, e) else
      let sh := (n - p)%Z in
      let qq := (am / 2 ^ sh)%Z in
      let rem := (am mod 2 ^ sh)%Z in
      let half := (2 ^ (sh - 1))%Z in
      let q1 := if orb (Z.ltb half rem) (andb (Z.eqb rem half) (Z.odd qq)) then (qq + 1)%Z else qq in
      dnorm q1 (e + sh)%Z in
  let n1 := (Z.log2 m1 + 1)%Z in
  let E := (e1 + n1 - 1 + (2 ^ (eb - 1) - 1))%Z in
  if orb (Z.leb E 0) (Z.leb (2 ^ eb - 1) E) then None else
  Some ((if Z.ltb m 0 then 2 ^ (p - 1 + eb) else 0) + E * 2 ^ (p - 1) + (m1 * 2 ^ (p - n1) - 2 ^ (p - 1)))%Z.
Definition bits32_of_dy := fbits_of_dy 24 8.
Definition bits64_of_dy := fbits_of_dy 53 11.
(* one f64 operation: the exact result, rounded *)
Definition rnd64 (a : dy) : option dy := match bits64_of_dy a with Some b => dy_of_bits b | None => None end.

(* the integer kinds and their ranges *)
Definition int_range (k : string) : option (Z * Z) :=
  if String.eqb k "u8" then Some (0, 2 ^ 8 - 1)%Z else
  if String.eqb k "u16" then Some (0, 2 ^ 16 - 1)%Z else
  if String.eqb k "u32" then Some (0, 2 ^ 32 - 1)%Z else
  if String.eqb k "u64" then Some (0, 2 ^ 64 - 1)%Z else
  if String.eqb k "u128" then Some (0, 2 ^ 128 - 1)%Z else
  if String.eqb k "i8" then Some (- 2 ^ 7, 2 ^ 7 - 1)%Z else
  if String.eqb k "i16" then Some (- 2 ^ 15, 2 ^ 15 - 1)%Z else
  if String.eqb k "i32" then Some (- 2 ^ 31, 2 ^ 31 - 1)%Z else
  if String.eqb k "i64" then Some (- 2 ^ 63, 2 ^ 63 - 1)%Z else
  if String.eqb k "i128" then Some (- 2 ^ 127, 2 ^ 127 - 1)%Z else None.

(* a rational in lowest terms with a positive denominator (d <> 0) *)
Definition qred (n d : Z) : sx :=
  let g := Z.gcd n d in
  if Z.eqb g 0 then Lx [Zx 0; Zx 1]
  else if Z.ltb d 0 then Lx [Zx (- (n / g)); Zx (- (d / g))] else Lx [Zx (n / g); Zx (d / g)].

(* one element of an op-assignment on payloads of kind k *)
Inductive kor :=
| KV (z : sx)        (* done *)
| KPanic             (* the kernel panics here before it stores anything (integer overflow and division by zero:
                        the harness build has overflow checks on), or the model has no such kernel *)
| KPanicW (z : sx).  (* the kernel panics here AFTER it stored z (Ratio::div_assign by zero: the fields are
                        updated, then reduce() panics on the zero denominator) *)

Definition kop (k : string) (o : aop) (x y : sx) : kor :=
  match int_range k, x, y with
  | Some (lo, hi), Zx a, Zx b =>
      let r := match o with
               | OAdd => Some (a + b)%Z | OSub => Some (a - b)%Z | OMul => Some (a * b)%Z
               | ODiv => if Z.eqb b 0 then None else Some (Z.quot a b)
               end in
      match r with
      | Some z => if andb (Z.leb lo z) (Z.leb z hi) then KV (Zx z) else KPanic
      | None => KPanic
      end
  | _, _, _ =>
      if String.eqb k "f32" then
        match x, y with
        | Zx a, Zx b =>
            match dy_of_bits32 a, dy_of_bits32 b with
            | Some da, Some db =>
                let r := match o with
                         | ODiv => if dy_pow2 db then bits32_of_dy (ddiv da db) else None
                         | OAdd => bits32_of_dy (dadd da db)
                         | OSub => bits32_of_dy (dsub da db)
                         | OMul => bits32_of_dy (dmul da db)
                         end in
                match r with Some z => KV (Zx z) | None => KPanic end
            | _, _ => KPanic
            end
        | _, _ => KPanic
        end
      else if String.eqb k "r64" then
        match x, y with
        | Lx [Zx n; Zx d], Lx [Zx n'; Zx d'] =>
            if orb (Z.eqb d 0) (Z.eqb d' 0) then KPanic else
            match o with
            | OAdd => KV (qred (n * d' + n' * d) (d * d'))
            | OSub => KV (qred (n * d' - n' * d) (d * d'))
            | OMul => KV (qred (n * n') (d * d'))
            | ODiv =>
                if Z.eqb n' 0 then (if Z.eqb n 0 then KPanic else KPanicW (Lx [Zx (Z.sgn n); Zx 0]))
                else KV (qred (n * d') (d * n'))
            end
        | _, _ => KPanic
        end
      else if String.eqb k "c64" then
        match x, y with
        | Lx [Zx a; Zx b], Lx [Zx c; Zx d] =>
            match dy_of_bits a, dy_of_bits b, dy_of_bits c, dy_of_bits d with
            | Some a', Some b', Some c', Some d' =>
                let r := match o with
                         | OAdd => Some (dadd a' c', dadd b' d')
                         | OSub => Some (dsub a' c', dsub b' d')
                         | OMul =>
                             match rnd64 (dmul a' c'), rnd64 (dmul b' d'), rnd64 (dmul a' d'), rnd64 (dmul b' c') with
                             | Some ac, Some bd, Some ad, Some bc => Some (dsub ac bd, dadd ad bc)
                             | _, _, _, _ => None
                             end
                         | ODiv => None
                         end in
                match r with
                | Some (re, im) =>
                    match bits64_of_dy re, bits64_of_dy im with
                    | Some rb, Some ib => KV (Lx [Zx rb; Zx ib])
                    | _, _ => KPanic
                    end
                | None => KPanic
                end
            | _, _, _, _ => KPanic
            end
        | _, _ => KPanic
        end
      else KPanic
  end.
Definition has_kop (k : string) : bool :=
  andb (negb (String.eqb k "i128"))
       (orb (match int_range k with Some _ => true | None => false end)
            (orb (String.eqb k "f32") (orb (String.eqb k "r64") (String.eqb k "c64")))).

(* sink.iter_mut().zip(source.iter()) with a kernel that may panic: (elements after the loop, completed?, stores) *)
Fixpoint kops (k : string) (o : aop) (a b : list sx) : list sx * bool * nat :=
  match a, b with
  | x :: a', y :: b' =>
      match kop k o x y with
      | KV z => let '(r, ok, n) := kops k o a' b' in (z :: r, ok, S n)
      | KPanic => (a, false, O)
      | KPanicW z => (z :: a', false, 1)
      end
  | _, _ => (a, true, O)
  end.

(* ------------------------------------------------------------------ *)
(* syntax of the histories                                             *)
(* ------------------------------------------------------------------ *)
Inductive atom :=
| ANum (x : dy)
| AMat (r c : nat) (d : list dy)            (* column-major *)
| AVar (x : string)
| AK (k : string) (sh : option (nat * nat)) (l : list sx).  (* 5<u8>, [1<u8> 2<u8>]: kind, shape, payloads as printed *)

Inductive expr :=
| ENum (x : dy)                                (* 2.5 *)
| EMat (r c : nat) (d : list dy)               (* [1 2; 3 4] *)
| ESet (l : list dy)                           (* {1, 2, 3} *)
| ETab (cols : list (string * list dy))        (* | x<f64> y<f64> | 1 2 | 3 4 | *)
| ETup (l : list atom)                         (* (1, a, [1 2]) *)
| ERec (l : list (string * atom))              (* {x: 1, y: a} *)
| EVar (x : string)                            (* a *)
| EK (k : string) (sh : option (nat * nat)) (l : list sx)   (* a scalar (sh = None) or matrix of a kind other than f64:
                                                  5<u8>, x<u8> := 5, m<[u8]:1,3> := [1 2 3], true, "s"; payloads as the
                                                  harness prints them (integers, f32 bit patterns, 0/1, quoted strings) *)
| EOpq (x : sx).                               (* any other literal, by the canonical form of its value (typed tables and sets) *)

(* the scalar of an indexed assignment: an f64 or a payload of another kind *)
Inductive scal := SF (d : dy) | SK (k : string) (p : sx).

Inductive stmt :=
| SDef (mu : bool) (x : string) (e : expr)     (* x := e   /  ~x := e *)
| SAssign (x : string) (e : expr)              (* x = e *)
| SIdx1 (x : string) (i : Z) (s : scal)        (* x[i] = s *)
| SIdx2 (x : string) (i j : Z) (s : scal)      (* x[i,j] = s *)
| SOp (x : string) (o : aop) (e : expr)        (* x += e ... *)
| SField (x : string) (f : string) (e : expr)  (* x.f = e  (record field, table column) *)
| STix (x : string) (k : Z) (e : expr)         (* x.k = e  (tuple element) *)
| SDestr (xs : list string) (e : expr).        (* (p, q) := e *)

(* the name a statement assigns to or through (None for the defining forms) *)
Definition assign_target (st : stmt) : option string :=
  match st with
  | SAssign x _ | SIdx1 x _ _ | SIdx2 x _ _ _ | SOp x _ _ | SField x _ _ | STix x _ _ => Some x
  | SDef _ _ _ | SDestr _ _ => None
  end.

(* ------------------------------------------------------------------ *)
(* deep values and observable symbol tables                            *)
(* ------------------------------------------------------------------ *)
Inductive dv :=
| DNum (x : dy)
| DMat (r c : nat) (d : list dy)
| DSet (l : list dy)
| DTab (cols : list (string * list dy))
| DTup (l : list dv)
| DRec (l : list (string * dv))
| DK (k : string) (sh : option (nat * nat)) (l : list sx)   (* scalar / matrix of another kind, payloads as printed *)
| DOpq (x : sx).                                           (* anything else, by its canonical form *)

Fixpoint sxl_eqb (a b : list sx) : bool :=
  match a, b with
  | [], [] => true
  | x :: a', y :: b' => andb (sx_eqb x y) (sxl_eqb a' b')
  | _, _ => false
  end.
Definition shape_eqb (a b : option (nat * nat)) : bool :=
  match a, b with
  | None, None => true
  | Some (r, c), Some (r', c') => andb (Nat.eqb r r') (Nat.eqb c c')
  | _, _ => false
  end.

Fixpoint dys_eqb (a b : list dy) : bool :=
  match a, b with
  | [], [] => true
  | x :: a', y :: b' => andb (dy_eqb x y) (dys_eqb a' b')
  | _, _ => false
  end.

Fixpoint cols_eqb (a b : list (string * list dy)) : bool :=
  match a, b with
  | [], [] => true
  | (n, x) :: a', (n', y) :: b' => andb (andb (String.eqb n n') (dys_eqb x y)) (cols_eqb a' b')
  | _, _ => false
  end.

Fixpoint dv_eqb (a b : dv) : bool :=
  match a, b with
  | DNum x, DNum y => dy_eqb x y
  | DMat r c d, DMat r' c' d' => andb (andb (Nat.eqb r r') (Nat.eqb c c')) (dys_eqb d d')
  | DSet l, DSet l' => dys_eqb l l'
  | DTab l, DTab l' => cols_eqb l l'
  | DTup l, DTup l' =>
      (fix go (x y : list dv) : bool :=
         match x, y with
         | [], [] => true
         | a :: x', b :: y' => andb (dv_eqb a b) (go x' y')
         | _, _ => false
         end) l l'
  | DRec l, DRec l' =>
      (fix go (x y : list (string * dv)) : bool :=
         match x, y with
         | [], [] => true
         | (n, a) :: x', (n', b) :: y' => andb (andb (String.eqb n n') (dv_eqb a b)) (go x' y')
         | _, _ => false
         end) l l'
  | DK k sh l, DK k' sh' l' => andb (andb (String.eqb k k') (shape_eqb sh sh')) (sxl_eqb l l')
  | DOpq x, DOpq y => sx_eqb x y
  | _, _ => false
  end.

Fixpoint find {A} (x : string) (l : list (string * A)) : option A :=
  match l with
  | [] => None
  | (y, a) :: r => if String.eqb x y then Some a else find x r
  end.
Definition keys {A} (l : list (string * A)) : list string := map fst l.
Fixpoint mem (x : string) (l : list string) : bool :=
  match l with [] => false | y :: r => orb (String.eqb x y) (mem x r) end.
Fixpoint nodupb (l : list string) : bool :=
  match l with [] => true | x :: r => andb (negb (mem x r)) (nodupb r) end.

(* an observable symbol table: name -> (mutable?, deep value) *)
Notation row := (bool * dv)%type (only parsing).
Definition tab := list (string * row).

Definition row_eqb (a b : row) : bool := andb (Bool.eqb (fst a) (fst b)) (dv_eqb (snd a) (snd b)).
Definition orow_eqb (a b : option row) : bool :=
  match a, b with
  | None, None => true
  | Some x, Some y => row_eqb x y
  | _, _ => false
  end.

(* every name outside xs means the same in T and T' *)
Definition frameb (xs : list string) (T T' : tab) : bool :=
  forallb (fun n => orb (mem n xs) (orow_eqb (find n T') (find n T))) (keys T ++ keys T').

(* value semantics of right-hand sides, on observable tables *)
Definition aeval (T : tab) (a : atom) : option dv :=
  match a with
  | ANum x => Some (DNum x)
  | AMat r c d => Some (DMat r c d)
  | AVar x => option_map snd (find x T)
  | AK k sh l => Some (DK k sh l)
  end.

Definition seval (T : tab) (e : expr) : option dv :=
  match e with
  | ENum x => Some (DNum x)
  | EMat r c d => Some (DMat r c d)
  | ESet l => Some (DSet l)
  | ETab cols => Some (DTab cols)
  | ETup l => option_map DTup (map_opt (aeval T) l)
  | ERec l => option_map DRec (map_opt (fun p => option_map (pair (fst p)) (aeval T (snd p))) l)
  | EVar x => option_map snd (find x T)
  | EK k sh l => Some (DK k sh l)
  | EOpq x => Some (DOpq x)
  end.

Fixpoint destr_rowsb (xs : list string) (l : list dv) (T' : tab) : bool :=
  match xs, l with
  | [], _ => true
  | x :: xr, v :: lr => andb (orow_eqb (find x T') (Some (false, v))) (destr_rowsb xr lr T')
  | _ :: _, [] => false
  end.

(* THE PROPERTY, one step: from table T, statement st, outcome ok, to table T' *)
Definition step_okb (T : tab) (st : stmt) (ok : bool) (T' : tab) : bool :=
  if negb ok then frameb [] T T'
  else match st with
       | SDef mu x e =>
           match find x T, seval T e with
           | None, Some v => andb (orow_eqb (find x T') (Some (mu, v))) (frameb [x] T T')
           | _, _ => false
           end
       | SDestr xs e =>
           match seval T e with
           | Some (DTup l) =>
               andb (andb (nodupb xs) (forallb (fun x => match find x T with None => true | Some _ => false end) xs))
                    (andb (destr_rowsb xs l T') (frameb xs T T'))
           | _ => false
           end
       | _ =>
           match assign_target st with
           | Some x =>
               match find x T, find x T' with
               | Some (true, _), Some (true, _) => frameb [x] T T'
               | _, _ => false
               end
           | None => false
           end
       end.

(* a trace: the statements with the observed outcome and table after each *)
Definition tstep := (stmt * bool * tab)%type.
Fixpoint trace_okb (T : tab) (tr : list tstep) : bool :=
  match tr with
  | [] => true
  | (st, ok, T') :: r => andb (step_okb T st ok T') (trace_okb T' r)
  end.

(* ------------------------------------------------------------------ *)
(* the heap model of the implementation                                *)
(* ------------------------------------------------------------------ *)
(* A value as the interpreter holds it.  [VC c]: a scalar (Value::F64(Ref<f64>)), matrix (Matrix::*(Ref<..>))
   or table (Ref<MechTable>) living in cell c; the content of the cell says which.  Tuples, records and
   sets are Rc cells too but no statement ever writes INTO them (field / element assignment writes into the
   element's own cell), so they are trees tagged with the identity of their Rc (used only to predict the
   alias classes the harness prints).  [VRef v]: Value::MutableReference(slot) of a variable whose slot holds
   v (a slot's content never changes once the variable is defined). *)
Inductive value :=
| VC (c : nat)
| VSet (id : nat) (l : list dy)
| VTup (id : nat) (l : list value)
| VRec (id : nat) (l : list (string * value))
| VRef (v : value).

(* how a name came to hold its value: which sharing construct (if any) created it *)
Inductive birth := BFresh | BDefVar | BLitVar | BDestr.

Notation entry := (bool * value * birth)%type (only parsing).
Record store := { cells : list (nat * dv); names : list (string * entry); next : nat }.
Definition store0 : store := {| cells := []; names := []; next := 0 |}.

(* which of the proposed repairs are in the code under test (all false = mech as it is) *)
Record cfg := { c_def_copy : bool;      (* x := y copies y's value into fresh cells *)
                c_atom_copy : bool;     (* (y, 1) / {f: y} copy y's value *)
                c_destr_fixed : bool;   (* destructure: all targets checked first, immutable, copied *)
                c_col_checked : bool }. (* table column assignment refuses a source longer than the table *)
Definition cfg_cur : cfg := {| c_def_copy := false; c_atom_copy := false; c_destr_fixed := false; c_col_checked := false |}.

Fixpoint findn {A} (c : nat) (l : list (nat * A)) : option A :=
  match l with
  | [] => None
  | (k, a) :: r => if Nat.eqb c k then Some a else findn c r
  end.
Definition get (c : nat) (cs : list (nat * dv)) : dv :=
  match findn c cs with Some d => d | None => DNum (0%Z, 0%Z) end.
Definition write (c : nat) (d : dv) (cs : list (nat * dv)) : list (nat * dv) := (c, d) :: cs.

Definition alloc (d : dv) (st : store) : nat * store :=
  (next st, {| cells := (next st, d) :: cells st; names := names st; next := S (next st) |}).
Definition fresh_id (st : store) : nat * store :=
  (next st, {| cells := cells st; names := names st; next := S (next st) |}).
Definition add_name (x : string) (en : entry) (st : store) : store :=
  {| cells := cells st; names := names st ++ [(x, en)]; next := next st |}.
Definition set_cells (cs : list (nat * dv)) (st : store) : store :=
  {| cells := cs; names := names st; next := next st |}.

(* what a value looks like from outside *)
Fixpoint snap (cs : list (nat * dv)) (v : value) : dv :=
  match v with
  | VC c => get c cs
  | VSet _ l => DSet l
  | VTup _ l => DTup (map (snap cs) l)
  | VRec _ l => DRec (map (fun p => match p with (f, w) => (f, snap cs w) end) l)
  | VRef w => snap cs w
  end.

Definition snap_tab (st : store) : tab :=
  map (fun p => match p with (x, (mu, v, _)) => (x, (mu, snap (cells st) v)) end) (names st).

(* detach_variable_value: peel every MutableReference at the top, keep (share) what is below *)
Fixpoint detach (v : value) : value := match v with VRef w => detach w | _ => v end.
(* what the kernels do when the direct match fails: look through ONE reference *)
Definition deref1 (v : value) : value := match v with VRef w => w | _ => v end.

(* the cells a value reaches (through references too) *)
Fixpoint cells_of (v : value) : list nat :=
  match v with
  | VC c => [c]
  | VSet _ _ => []
  | VTup _ l => flat_map cells_of l
  | VRec _ l => flat_map (fun p => match p with (_, w) => cells_of w end) l
  | VRef w => cells_of w
  end.
Fixpoint memn (c : nat) (l : list nat) : bool :=
  match l with [] => false | k :: r => orb (Nat.eqb c k) (memn c r) end.

(* the identity of the outermost Rc (what Value::addr() of the slot content reports) *)
Definition top_id (v : value) : nat :=
  match detach v with VC c => c | VSet i _ => i | VTup i _ => i | VRec i _ => i | VRef _ => 0 end.

(* a list traversal that threads the store *)
Section MapSt.
  Context {A B : Type} (f : store -> A -> B * store).
  Fixpoint map_st (l : list A) (st : store) : list B * store :=
    match l with
    | [] => ([], st)
    | a :: r => let '(b, s1) := f st a in let '(bs, s2) := map_st r s1 in (b :: bs, s2)
    end.
End MapSt.

(* a deep copy into fresh cells (only used by the repaired configurations): Value::deep_copy of the patch *)
Fixpoint copyv (st : store) (v : value) : value * store :=
  match v with
  | VC c => let '(c', st') := alloc (get c (cells st)) st in (VC c', st')
  | VSet _ l => let '(i, st') := fresh_id st in (VSet i l, st')
  | VTup _ l =>
      let '(i, st0) := fresh_id st in
      let '(l', st') := map_st copyv l st0 in
      (VTup i l', st')
  | VRec _ l =>
      let '(i, st0) := fresh_id st in
      let '(l', st') := map_st (fun s p => match p with (f, w) => let '(w', s1) := copyv s w in ((f, w'), s1) end) l st0 in
      (VRec i l', st')
  | VRef w => copyv st w
  end.

(* ---- expressions (src/interpreter/src/structures.rs, expressions.rs::var) ---- *)
Definition eval_atom (cf : cfg) (st : store) (a : atom) : option (value * store) :=
  match a with
  | ANum x => let '(c, st') := alloc (DNum x) st in Some (VC c, st')
  | AMat r c d => let '(k, st') := alloc (DMat r c d) st in Some (VC k, st')
  | AVar x =>
      match find x (names st) with
      | Some (_, v, _) => if c_atom_copy cf then Some (copyv st v) else Some (VRef v, st)
      | None => None
      end
  | AK k sh l => let '(c, st') := alloc (DK k sh l) st in Some (VC c, st')
  end.

Fixpoint eval_atoms (cf : cfg) (st : store) (l : list atom) : option (list value * store) :=
  match l with
  | [] => Some ([], st)
  | a :: r =>
      match eval_atom cf st a with
      | Some (v, s1) => match eval_atoms cf s1 r with Some (vs, s2) => Some (v :: vs, s2) | None => None end
      | None => None
      end
  end.

Definition is_avar (a : atom) : bool := match a with AVar _ => true | _ => false end.
Definition lit_birth (cf : cfg) (l : list atom) : birth :=
  if andb (existsb is_avar l) (negb (c_atom_copy cf)) then BLitVar else BFresh.

Definition eval_expr (cf : cfg) (st : store) (e : expr) : option (value * store * birth) :=
  match e with
  | ENum x => let '(c, st') := alloc (DNum x) st in Some (VC c, st', BFresh)
  | EMat r c d => let '(k, st') := alloc (DMat r c d) st in Some (VC k, st', BFresh)
  | ESet l => let '(i, st') := fresh_id st in Some (VSet i l, st', BFresh)
  | ETab cols => let '(k, st') := alloc (DTab cols) st in Some (VC k, st', BFresh)
  | ETup l =>
      let '(i, s0) := fresh_id st in
      match eval_atoms cf s0 l with
      | Some (vs, s1) => Some (VTup i vs, s1, lit_birth cf l)
      | None => None
      end
  | ERec l =>
      let '(i, s0) := fresh_id st in
      match eval_atoms cf s0 (map snd l) with
      | Some (vs, s1) => Some (VRec i (combine (map fst l) vs), s1, lit_birth cf (map snd l))
      | None => None
      end
  | EVar x =>
      match find x (names st) with
      | Some (_, v, _) => Some (VRef v, st, BDefVar)
      | None => None
      end
  | EK k sh l => let '(c, st') := alloc (DK k sh l) st in Some (VC c, st', BFresh)
  | EOpq x => let '(c, st') := alloc (DOpq x) st in Some (VC c, st', BFresh)
  end.

(* ---- kernels: result = refused | done (cell written, new cells) | failed after writing ---- *)
Inductive kres :=
| KErr
| KOk (c : nat) (cs : list (nat * dv))
| KPartial (c : nat) (cs : list (nat * dv)).

(* storage form of a matrix: only matrices of the same form can be assigned to each other *)
Definition mform (r c : nat) : nat :=
  if andb (Nat.eqb r 1) (Nat.leb 2 c) then 1 else if andb (Nat.eqb c 1) (Nat.leb 2 r) then 2 else 0.

Fixpoint set_nth {A} (n : nat) (x : A) (l : list A) : list A :=
  match l, n with
  | [], _ => []
  | _ :: r, O => x :: r
  | a :: r, S k => a :: set_nth k x r
  end.

(* sink.iter_mut().zip(source.iter()) *)
Fixpoint zipw (f : dy -> dy -> dy) (a b : list dy) : list dy :=
  match a, b with
  | x :: a', y :: b' => f x y :: zipw f a' b'
  | _, _ => a
  end.

(* two scalars, or two matrices of the same storage form *)
Definition shape_compat (a b : option (nat * nat)) : bool :=
  match a, b with
  | None, None => true
  | Some (r, c), Some (r', c') => Nat.eqb (mform r c) (mform r' c')
  | _, _ => false
  end.

(* x = e : AssignValue (stdlib/assign/mod.rs): same scalar kind, or matrices of the same form and kind
   (no kernel is registered for i128) *)
Definition k_assign (cs : list (nat * dv)) (sink src : value) : kres :=
  match deref1 sink, deref1 src with
  | VC a, VC b =>
      match get a cs, get b cs with
      | DNum _, DNum y => KOk a (write a (DNum y) cs)
      | DMat r c _, DMat r' c' d' =>
          if Nat.eqb (mform r c) (mform r' c') then KOk a (write a (DMat r' c' d') cs) else KErr
      | DK k sh _, DK k' sh' l' =>
          if andb (andb (String.eqb k k') (negb (String.eqb k "i128"))) (shape_compat sh sh')
          then KOk a (write a (DK k' sh' l') cs) else KErr
      | _, _ => KErr
      end
  | _, _ => KErr
  end.

(* x[i] = s, x[i,j] = s : MatrixAssignScalar / MatrixAssignScalarScalar; out of range panics before writing *)
Definition k_idx (cs : list (nat * dv)) (sink : value) (lin : dv -> option nat) (s : scal) : kres :=
  match deref1 sink with
  | VC a =>
      match get a cs, s with
      | DMat r c d, SF y =>
          match lin (DMat r c d) with
          | Some n => KOk a (write a (DMat r c (set_nth n y d)) cs)
          | None => KErr
          end
      | DK k (Some (r, c)) l, SK k' p =>
          if String.eqb k k' then
            match lin (DK k (Some (r, c)) l) with
            | Some n => KOk a (write a (DK k (Some (r, c)) (set_nth n p l)) cs)
            | None => KErr
            end
          else KErr
      | _, _ => KErr
      end
  | _ => KErr
  end.

Definition dims (m : dv) : option (nat * nat) :=
  match m with DMat r c _ => Some (r, c) | DK _ (Some (r, c)) _ => Some (r, c) | _ => None end.
Definition lin1 (i : Z) (m : dv) : option nat :=
  match dims m with
  | Some (r, c) => if andb (Z.leb 1 i) (Z.leb i (Z.of_nat (r * c))) then Some (Z.to_nat (i - 1)) else None
  | None => None
  end.
Definition lin2 (i j : Z) (m : dv) : option nat :=
  match dims m with
  | Some (r, c) =>
      if andb (andb (Z.leb 1 i) (Z.leb i (Z.of_nat r))) (andb (Z.leb 1 j) (Z.leb j (Z.of_nat c)))
      then Some (Z.to_nat (j - 1) * r + Z.to_nat (i - 1)) else None
  | None => None
  end.

Fixpoint scalar_fields (cs : list (nat * dv)) (l : list (string * value)) : option (list (string * dy)) :=
  match l with
  | [] => Some []
  | (f, VC b) :: r =>
      match get b cs, scalar_fields cs r with
      | DNum y, Some t => Some ((f, y) :: t)
      | _, _ => None
      end
  | _ => None
  end.

Fixpoint append_row (cols : list (string * list dy)) (fs : list (string * dy)) : option (list (string * list dy)) :=
  match cols, fs with
  | [], [] => Some []
  | (n, d) :: cr, (f, y) :: fr =>
      if String.eqb n f then match append_row cr fr with Some t => Some ((n, d ++ [y]) :: t) | None => None end
      else None
  | _, _ => None
  end.

(* x op= e : {Add,Sub,Mul,Div}AssignValue; a table sink only takes += record *)
Definition k_op (cs : list (nat * dv)) (o : aop) (sink src : value) : kres :=
  match deref1 sink with
  | VC a =>
      match get a cs, deref1 src with
      | DNum x, VC b =>
          match get b cs with DNum y => KOk a (write a (DNum (dop o x y)) cs) | _ => KErr end
      | DMat r c d, VC b =>
          match get b cs with
          | DNum y => KOk a (write a (DMat r c (map (fun x => dop o x y) d)) cs)
          | DMat r' c' d' =>
              if Nat.eqb (mform r c) (mform r' c') then KOk a (write a (DMat r c (zipw (dop o) d d')) cs) else KErr
          | _ => KErr
          end
      | DTab cols, VRec _ fs =>
          match o, scalar_fields cs fs with
          | OAdd, Some nums =>
              match append_row cols nums with Some cols' => KOk a (write a (DTab cols') cs) | None => KErr end
          | _, _ => KErr
          end
      | DK k sh l, VC b =>
          (* integer kinds (not i128), f32, r64 and c64, element by element in storage order: what was stored
             before a panic stays *)
          match get b cs with
          | DK k' sh' l' =>
              if andb (String.eqb k k') (has_kop k) then
                match sh, sh', l' with
                | None, None, _ | Some _, Some _, _ =>
                    if shape_compat sh sh' then
                      match kops k o l l' with
                      | (r, true, _) => KOk a (write a (DK k sh r) cs)
                      | (_, false, O) => KErr
                      | (r, false, S _) => KPartial a (write a (DK k sh r) cs)
                      end
                    else KErr
                | Some _, None, [y] =>
                    match kops k o l (repeat y (List.length l)) with
                    | (r, true, _) => KOk a (write a (DK k sh r) cs)
                    | (_, false, O) => KErr
                    | (r, false, S _) => KPartial a (write a (DK k sh r) cs)
                    end
                | _, _, _ => KErr
                end
              else KErr
          | _ => KErr
          end
      | _, _ => KErr
      end
  | _ => KErr
  end.

Fixpoint set_col (f : string) (d : list dy) (cols : list (string * list dy)) : list (string * list dy) :=
  match cols with
  | [] => []
  | (n, old) :: r => if String.eqb n f then (n, d) :: r else (n, old) :: set_col f d r
  end.

(* x.f = e : AssignColumn -> AssignRecordField / AssignTableColumn.  The source is matched directly
   (a variable on the right is a MutableReference and is refused). *)
Definition k_field (cf : cfg) (cs : list (nat * dv)) (sink : value) (f : string) (src : value) : kres :=
  match deref1 sink with
  | VRec _ fs =>
      match find f fs, src with
      | Some (VC a), VC b =>
          match get a cs, get b cs with
          | DNum _, DNum y => KOk a (write a (DNum y) cs)
          | DK k None _, DK k' None l' => if String.eqb k k' then KOk a (write a (DK k' None l') cs) else KErr
          | _, _ => KErr
          end
      | _, _ => KErr
      end
  | VC a =>
      match get a cs, src with
      | DTab cols, VC b =>
          match find f cols, get b cs with
          | Some old, DMat r c d =>
              if Nat.eqb (mform r c) 2 then
                let n := List.length old in
                if andb (c_col_checked cf) (negb (Nat.leb r n)) then KErr
                else if Nat.leb r n then KOk a (write a (DTab (set_col f (d ++ skipn r old) cols)) cs)
                else KPartial a (write a (DTab (set_col f (firstn n d) cols)) cs)
              else KErr
          | _, _ => KErr
          end
      | _, _ => KErr
      end
  | _ => KErr
  end.

(* x.k = e : TupleAssignScalar; element and source matched directly *)
Definition k_tix (cs : list (nat * dv)) (sink : value) (k : Z) (src : value) : kres :=
  if Z.leb k 0 then KErr else
  match deref1 sink with
  | VTup _ l =>
      match nth_error l (Z.to_nat (k - 1)), src with
      | Some (VC a), VC b =>
          match get a cs, get b cs with
          | DNum _, DNum y => KOk a (write a (DNum y) cs)
          | DK k None _, DK k' None l' =>
              (* TupleAssignScalar is only instantiated for f64, i64, bool and string *)
              if andb (String.eqb k k') (orb (orb (String.eqb k "i64") (String.eqb k "bool")) (String.eqb k "string"))
              then KOk a (write a (DK k' None l') cs) else KErr
          | _, _ => KErr
          end
      | _, _ => KErr
      end
  | _ => KErr
  end.

(* the sink of an assignment: symbols.get_mutable(id), else NotMutable / UndefinedVariable *)
Definition target (st : store) (x : string) : option value :=
  match find x (names st) with
  | Some (true, v, _) => Some v
  | _ => None
  end.

(* tuple_destructure as it is: targets inserted one by one, mutable, sharing the elements *)
Fixpoint destr_old (xs : list string) (l : list value) (st : store) : store * bool :=
  match xs with
  | [] => (st, true)
  | x :: xr =>
      match find x (names st) with
      | Some _ => (st, false)
      | None =>
          match l with
          | [] => (st, false)
          | w :: lr => destr_old xr lr (add_name x (true, w, BDestr) st)
          end
      end
  end.

(* ... and repaired: everything checked first, targets immutable and detached copies *)
Fixpoint destr_new (xs : list string) (l : list value) (st : store) : store :=
  match xs, l with
  | x :: xr, w :: lr => let '(w', s1) := copyv st w in destr_new xr lr (add_name x (false, w', BFresh) s1)
  | _, _ => st
  end.

Definition tuple_elems (v : value) : option (list value) :=
  match v with
  | VTup _ l => Some l
  | VRef (VTup _ l) => Some l
  | _ => None
  end.

(* result of a statement: new store, ok?, and for assignments the cell that was written *)
Definition finish (st0 st : store) (k : kres) : store * bool * option nat :=
  match k with
  | KErr => (st0, false, None)
  | KOk c cs => (set_cells cs st, true, Some c)
  | KPartial c cs => (set_cells cs st, false, Some c)
  end.

(* an assignment to or through x: the sink is looked up in the store as it was before the right-hand side *)
Definition assign_with (st s1 : store) (x : string) (k : list (nat * dv) -> value -> kres) : store * bool * option nat :=
  match target st x with
  | None => (st, false, None)
  | Some sink => finish st s1 (k (cells s1) sink)
  end.

(* the right-hand side is evaluated first (an undefined variable in it fails the statement) *)
Definition with_src (cf : cfg) (st : store) (e : expr) (f : value -> store -> store * bool * option nat) : store * bool * option nat :=
  match eval_expr cf st e with
  | None => (st, false, None)
  | Some (src, s1, _) => f src s1
  end.

Definition exec (cf : cfg) (st : store) (s : stmt) : store * bool * option nat :=
  match s with
  | SDef mu x e =>
      match find x (names st) with
      | Some _ => (st, false, None)
      | None =>
          match eval_expr cf st e with
          | None => (st, false, None)
          | Some (v, s1, b) =>
              match e with
              | EVar _ =>
                  if c_def_copy cf then let '(w, s2) := copyv s1 v in (add_name x (mu, w, BFresh) s2, true, None)
                  else (add_name x (mu, detach v, BDefVar) s1, true, None)
              | _ => (add_name x (mu, detach v, b) s1, true, None)
              end
          end
      end
  | SDestr xs e =>
      match eval_expr cf st e with
      | None => (st, false, None)
      | Some (v, s1, _) =>
          match tuple_elems v with
          | None => (st, false, None)
          | Some l =>
              if c_destr_fixed cf then
                if andb (andb (nodupb xs) (forallb (fun x => match find x (names st) with None => true | Some _ => false end) xs))
                        (Nat.leb (List.length xs) (List.length l))
                then (destr_new xs l s1, true, None) else (st, false, None)
              else let '(s2, ok) := destr_old xs l s1 in (s2, ok, None)
          end
      end
  | SAssign x e => with_src cf st e (fun src s1 => assign_with st s1 x (fun cs sink => k_assign cs sink src))
  | SIdx1 x i s => assign_with st st x (fun cs sink => k_idx cs sink (lin1 i) s)
  | SIdx2 x i j s => assign_with st st x (fun cs sink => k_idx cs sink (lin2 i j) s)
  | SOp x o e => with_src cf st e (fun src s1 => assign_with st s1 x (fun cs sink => k_op cs o sink src))
  | SField x f e => with_src cf st e (fun src s1 => assign_with st s1 x (fun cs sink => k_field cf cs sink f src))
  | STix x k e => with_src cf st e (fun src s1 => assign_with st s1 x (fun cs sink => k_tix cs sink k src))
  end.

(* every refused statement returns the store it was given (allocations of the right-hand side are dropped:
   nothing can reach them); only a failing destructure and an over-long table column leave something behind *)
Definition exec_st (cf : cfg) (st : store) (s : stmt) : store * bool :=
  let '(s1, ok, _) := exec cf st s in (s1, ok).

(* the trace the model predicts for a history *)
Fixpoint impl_trace (cf : cfg) (st : store) (h : list stmt) : list tstep :=
  match h with
  | [] => []
  | s :: r => let '(s1, ok) := exec_st cf st s in (s, ok, snap_tab s1) :: impl_trace cf s1 r
  end.

(* did the statement fail AFTER writing (the over-long table column, an integer op-assignment that panics midway)? *)
Definition is_partial (r : store * bool * option nat) : bool :=
  match r with (_, false, Some _) => true | _ => false end.
Fixpoint no_partial (cf : cfg) (st : store) (h : list stmt) : bool :=
  match h with
  | [] => true
  | s :: r => andb (negb (is_partial (exec cf st s))) (no_partial cf (fst (exec_st cf st s)) r)
  end.

(* ------------------------------------------------------------------ *)
(* classes of known findings                                           *)
(* ------------------------------------------------------------------ *)
Definition holders (st : store) (c : nat) : list (string * birth) :=
  flat_map (fun p => match p with (y, (_, v, b)) => if memn c (cells_of v) then [(y, b)] else [] end) (names st).

Definition birth_is (b : birth) (k : nat) : bool :=
  match b, k with BDefVar, 1 => true | BDestr, 2 => true | BLitVar, 3 => true | _, _ => false end.

(* the element kind of what x holds ("" when it is not a scalar or matrix of a kind other than f64) *)
Definition sink_kind (st : store) (x : string) : string :=
  match find x (names st) with
  | Some (_, v, _) => match deref1 v with VC a => match get a (cells st) with DK k _ _ => k | _ => "" end | _ => "" end
  | None => ""
  end.

(* a failing step of the model, classified from the state BEFORE it *)
Definition classify (cf : cfg) (st : store) (s : stmt) : option string :=
  let '(s1, ok, w) := exec cf st s in
  match s with
  | SDestr _ _ => if c_destr_fixed cf then None else if ok then Some "destructure-mutable" else Some "destructure-partial"
  | SDef _ _ _ => None
  | _ =>
      match w with
      | None => None
      | Some c =>
          if negb ok then
            (match s with
             | SOp x _ _ => if String.eqb (sink_kind st x) "r64" then Some "r64-div-zero-partial" else Some "int-op-partial"
             | _ => Some "table-column-partial"
             end) else
          match assign_target s with
          | None => None
          | Some x =>
              let hs := holders st c in
              if existsb (fun p => negb (String.eqb (fst p) x)) hs then
                if existsb (fun p => birth_is (snd p) 1) hs then Some "alias-define"
                else if existsb (fun p => birth_is (snd p) 2) hs then Some "alias-destructure"
                else if existsb (fun p => birth_is (snd p) 3) hs then Some "alias-literal"
                else None
              else None
          end
      end
  end.

(* ------------------------------------------------------------------ *)
(* decoding the case and the observation                               *)
(* ------------------------------------------------------------------ *)
Definition dec_num (x : sx) : option dy := match x with Zx b => dy_of_bits b | _ => None end.
Definition dec_nums (x : sx) : option (list dy) := match x with Lx l => map_opt dec_num l | _ => None end.
Definition dec_nat (x : sx) : option nat := match x with Zx z => if Z.leb 0 z then Some (Z.to_nat z) else None | _ => None end.

Definition dec_mat (r c d : sx) : option (nat * nat * list dy) :=
  match dec_nat r, dec_nat c, dec_nums d with
  | Some r', Some c', Some d' =>
      if andb (andb (Nat.leb 1 r') (Nat.leb 1 c')) (Nat.eqb (List.length d') (r' * c')) then Some (r', c', d') else None
  | _, _, _ => None
  end.

Definition dec_shape (r c : sx) : option (nat * nat) :=
  match dec_nat r, dec_nat c with
  | Some r', Some c' => if andb (Nat.leb 1 r') (Nat.leb 1 c') then Some (r', c') else None
  | _, _ => None
  end.
(* -0.0 and +0.0 of f32 are identified, as the dyadic decoding does for f64 *)
Definition canon_payload (k : string) (p : sx) : sx :=
  let z64 := fun b => if Z.eqb b (2 ^ 63) then 0%Z else b in
  match p with
  | Zx b => if andb (String.eqb k "f32") (Z.eqb b (2 ^ 31)) then Zx 0 else p
  | Lx [Zx a; Zx b] => if String.eqb k "c64" then Lx [Zx (z64 a); Zx (z64 b)] else p
  | _ => p
  end.
Definition is_f64 (k : string) : bool := String.eqb k "f64".

Definition dec_atom (x : sx) : option atom :=
  match x with
  | Lx [Ax "ks"; Ax k; p] => if is_f64 k then None else Some (AK k None [canon_payload k p])
  | Lx [Ax "km"; Ax k; r; c; Lx l] =>
      if is_f64 k then None else
      match dec_shape r c with
      | Some (r', c') => if Nat.eqb (List.length l) (r' * c') then Some (AK k (Some (r', c')) (map (canon_payload k) l)) else None
      | None => None
      end
  | Lx [Ax "num"; b] => option_map ANum (dec_num b)
  | Lx [Ax "mat"; r; c; d] => option_map (fun t => match t with (r', c', d') => AMat r' c' d' end) (dec_mat r c d)
  | Lx [Ax "var"; n] => option_map AVar (sx_str n)
  | _ => None
  end.

Definition dec_col (x : sx) : option (string * list dy) :=
  match x with
  | Lx [n; d] => match sx_str n, dec_nums d with Some n', Some d' => Some (n', d') | _, _ => None end
  | _ => None
  end.

Definition dec_fld (x : sx) : option (string * atom) :=
  match x with
  | Lx [n; a] => match sx_str n, dec_atom a with Some n', Some a' => Some (n', a') | _, _ => None end
  | _ => None
  end.

Definition dec_expr (x : sx) : option expr :=
  match x with
  | Lx [Ax "ks"; Ax k; p] => if is_f64 k then None else Some (EK k None [canon_payload k p])
  | Lx [Ax "km"; Ax k; r; c; Lx l] =>
      if is_f64 k then None else
      match dec_shape r c with
      | Some (r', c') => if Nat.eqb (List.length l) (r' * c') then Some (EK k (Some (r', c')) (map (canon_payload k) l)) else None
      | None => None
      end
  | Lx [Ax "opq"; v] => Some (EOpq v)
  | Lx [Ax "num"; b] => option_map ENum (dec_num b)
  | Lx [Ax "mat"; r; c; d] => option_map (fun t => match t with (r', c', d') => EMat r' c' d' end) (dec_mat r c d)
  | Lx [Ax "set"; d] => option_map ESet (dec_nums d)
  | Lx [Ax "tab"; Lx cols] => option_map ETab (map_opt dec_col cols)
  | Lx (Ax "tup" :: l) => option_map ETup (map_opt dec_atom l)
  | Lx (Ax "rec" :: l) => option_map ERec (map_opt dec_fld l)
  | Lx [Ax "var"; n] => option_map EVar (sx_str n)
  (* an expression whose evaluation fails without naming a variable of the session (a call of a user-defined function
     whose body raises an error or panics): modelled as a reference to the name "", which no statement can define *)
  | Lx [Ax "fails"] => Some (EVar "")
  | _ => None
  end.

Definition dec_op (x : sx) : option aop :=
  match x with
  | Ax "add" => Some OAdd | Ax "sub" => Some OSub | Ax "mul" => Some OMul | Ax "div" => Some ODiv
  | _ => None
  end.

Definition dec_scal (x : sx) : option scal :=
  match x with
  | Lx [Ax "ks"; Ax k; p] => if is_f64 k then None else Some (SK k (canon_payload k p))
  | _ => option_map SF (dec_num x)
  end.

Definition dec_stmt (x : sx) : option stmt :=
  match x with
  | Lx [Ax "def"; Zx mu; n; e] =>
      match sx_str n, dec_expr e with Some n', Some e' => Some (SDef (Z.eqb mu 1) n' e') | _, _ => None end
  | Lx [Ax "asg"; n; e] =>
      match sx_str n, dec_expr e with Some n', Some e' => Some (SAssign n' e') | _, _ => None end
  | Lx [Ax "ix1"; n; Zx i; s] =>
      match sx_str n, dec_scal s with Some n', Some s' => Some (SIdx1 n' i s') | _, _ => None end
  | Lx [Ax "ix2"; n; Zx i; Zx j; s] =>
      match sx_str n, dec_scal s with Some n', Some s' => Some (SIdx2 n' i j s') | _, _ => None end
  | Lx [Ax "op"; n; o; e] =>
      match sx_str n, dec_op o, dec_expr e with
      | Some n', Some ODiv, Some (ENum y) => if dy_pow2 y then Some (SOp n' ODiv (ENum y)) else None
      | Some n', Some ODiv, Some (EK k sh l) => Some (SOp n' ODiv (EK k sh l))
      | Some _, Some ODiv, _ => None
      | Some n', Some o', Some e' => Some (SOp n' o' e')
      | _, _, _ => None
      end
  | Lx [Ax "fld"; n; f; e] =>
      match sx_str n, sx_str f, dec_expr e with Some n', Some f', Some e' => Some (SField n' f' e') | _, _, _ => None end
  | Lx [Ax "tix"; n; Zx k; e] =>
      match sx_str n, dec_expr e with Some n', Some e' => Some (STix n' k e') | _, _ => None end
  | Lx [Ax "des"; Lx ns; e] =>
      match map_opt sx_str ns, dec_expr e with Some ns', Some e' => Some (SDestr ns' e') | _, _ => None end
  | _ => None
  end.

(* observed values (grammar of harness/src/canon.rs): f64 scalars, matrices, sets and tables structurally,
   scalars and matrices of the other kinds by their payloads, everything else by its canonical form *)
Definition f64_elems (l : list sx) : option (list dy) :=
  map_opt (fun y => match y with Lx [Ax "s"; Ax "f64"; b] => dec_num b | _ => None end) l.
Definition f64_cols (cols : list sx) : option (list (string * list dy)) :=
  map_opt (fun y =>
    match y with
    | Lx [n; _; Lx l] => match sx_str n, f64_elems l with Some n', Some d => Some (n', d) | _, _ => None end
    | _ => None
    end) cols.
Definition all_f64 (l : list sx) : bool :=
  forallb (fun y => match y with Lx [Ax "s"; Ax "f64"; _] => true | _ => false end) l.
Definition cols_f64 (cols : list sx) : bool :=
  forallb (fun y => match y with Lx [_; _; Lx l] => all_f64 l | _ => false end) cols.
Fixpoint dec_dv (fuel : nat) (x : sx) : option dv :=
  match fuel with
  | O => None
  | S fu =>
      match x with
      | Lx [Ax "s"; Ax "f64"; b] => option_map DNum (dec_num b)
      | Lx [Ax "m"; Ax "f64"; r; c; d] =>
          match dec_nat r, dec_nat c, dec_nums d with
          | Some r', Some c', Some d' => Some (DMat r' c' d')
          | _, _, _ => None
          end
      | Lx [Ax "s"; Ax k; p] => Some (DK k None [canon_payload k p])
      | Lx [Ax "m"; Ax k; r; c; Lx l] =>
          match dec_nat r, dec_nat c with
          | Some r', Some c' => Some (DK k (Some (r', c')) (map (canon_payload k) l))
          | _, _ => None
          end
      | Lx [Ax "set"; _; _; Lx l] => if all_f64 l then option_map DSet (f64_elems l) else Some (DOpq x)
      | Lx (Ax "table" :: _ :: cols) => if cols_f64 cols then option_map DTab (f64_cols cols) else Some (DOpq x)
      | Lx (Ax "tuple" :: l) => option_map DTup (map_opt (dec_dv fu) l)
      | Lx (Ax "record" :: l) =>
          option_map DRec (map_opt (fun y =>
            match y with
            | Lx [n; v] => match sx_str n, dec_dv fu v with Some n', Some v' => Some (n', v') | _, _ => None end
            | _ => None
            end) l)
      | _ => None
      end
  end.

(* one observed step: outcome, table (without the interpreter's own `ans`), alias class of every name *)
Record ostep := { o_ok : bool; o_tab : tab; o_cls : list (string * Z) }.

Definition dec_sym (x : sx) : option (string * (row * Z)) :=
  match x with
  | Lx [n; Zx mu; Zx cls; v] =>
      match sx_str n, dec_dv 6 v with
      | Some n', Some v' => Some (n', ((Z.eqb mu 1, v'), cls))
      | _, _ => None
      end
  | _ => None
  end.

Definition is_ans (x : sx) : bool :=
  match x with Lx (n :: _) => match sx_str n with Some s => String.eqb s "ans" | None => false end | _ => false end.

Definition dec_step (x : sx) : option ostep :=
  match x with
  | Lx [Ax "step"; r; Lx (Ax "syms" :: syms)] =>
      match r with
      | Lx (Ax "panic" :: _) | Lx (Ax "perr" :: _) | Lx (Ax "abort" :: _) | Lx (Ax "hang" :: _) => None
      | _ =>
          match map_opt dec_sym (filter (fun s => negb (is_ans s)) syms) with
          | Some rows =>
              Some {| o_ok := match r with Lx (Ax "err" :: _) => false | _ => true end;
                      o_tab := map (fun p => (fst p, fst (snd p))) rows;
                      o_cls := map (fun p => (fst p, snd (snd p))) rows |}
          | None => None
          end
      end
  | _ => None
  end.

(* ------------------------------------------------------------------ *)
(* the judge                                                           *)
(* ------------------------------------------------------------------ *)
Fixpoint obs_trace (h : list stmt) (os : list ostep) : list tstep :=
  match h, os with
  | s :: hr, o :: orest => (s, o_ok o, o_tab o) :: obs_trace hr orest
  | _, _ => []
  end.

Definition tab_sameb (A B : tab) : bool := frameb [] A B.

(* does the model (configuration cf) predict every observed outcome and table? *)
Fixpoint syncb (cf : cfg) (st : store) (h : list stmt) (os : list ostep) : bool :=
  match h, os with
  | s :: hr, o :: orest =>
      let '(s1, ok) := exec_st cf st s in
      andb (andb (Bool.eqb ok (o_ok o)) (tab_sameb (snap_tab s1) (o_tab o))) (syncb cf s1 hr orest)
  | _, _ => true
  end.

(* the partition of the names by the address of their storage, model against harness *)
Definition alias_stepb (st : store) (cls : list (string * Z)) : bool :=
  forallb (fun p => forallb (fun q =>
     match find (fst p) (names st), find (fst q) (names st) with
     | Some (_, v, _), Some (_, w, _) => Bool.eqb (Z.eqb (snd p) (snd q)) (Nat.eqb (top_id v) (top_id w))
     | _, _ => false
     end) cls) cls.

Fixpoint aliasb (cf : cfg) (st : store) (h : list stmt) (os : list ostep) : bool :=
  match h, os with
  | s :: hr, o :: orest =>
      let '(s1, _) := exec_st cf st s in andb (alias_stepb s1 (o_cls o)) (aliasb cf s1 hr orest)
  | _, _ => true
  end.

(* every step on which the observation breaks the property must be in a class; the first class is reported *)
Fixpoint classes (cf : cfg) (st : store) (T : tab) (h : list stmt) (os : list ostep) : option (list string) :=
  match h, os with
  | s :: hr, o :: orest =>
      let '(s1, _) := exec_st cf st s in
      match classes cf s1 (o_tab o) hr orest with
      | None => None
      | Some r =>
          if step_okb T s (o_ok o) (o_tab o) then Some r
          else match classify cf st s with Some id => Some (id :: r) | None => None end
      end
  | _, _ => Some []
  end.

Definition all_cfgs : list cfg :=
  flat_map (fun a => flat_map (fun b => flat_map (fun c => map (fun d =>
    {| c_def_copy := a; c_atom_copy := b; c_destr_fixed := c; c_col_checked := d |}) [false; true]) [false; true]) [false; true]) [false; true].

Fixpoint first_bad (n : Z) (T : tab) (tr : list tstep) : Z :=
  match tr with
  | [] => (-1)%Z
  | (s, ok, T') :: r => if step_okb T s ok T' then first_bad (n + 1) T' r else n
  end.

(* the model's own prediction in the shape of an observation (alias classes left out) *)
Definition model_obs (cf : cfg) (h : list stmt) : list ostep :=
  map (fun t => match t with (_, ok, T) => {| o_ok := ok; o_tab := T; o_cls := [] |} end) (impl_trace cf store0 h).

(* the number of steps up to and including the last one on which the observation breaks the property *)
Fixpoint last_bad (n : nat) (T : tab) (tr : list tstep) : nat :=
  match tr with
  | [] => O
  | (s, ok, T') :: r =>
      let m := last_bad (S n) T' r in
      if Nat.eqb m O then (if step_okb T s ok T' then O else S n) else m
  end.

(* a configuration of the model that predicts every outcome and table up to and including the last violating
   step (what comes after it satisfies the property by itself and needs no explanation) *)
Definition find_cfg (h : list stmt) (os : list ostep) : option cfg :=
  let n := last_bad O [] (obs_trace h os) in
  List.find (fun cf => syncb cf store0 (firstn n h) (firstn n os)) all_cfgs.

Definition judge_hist (h : list stmt) (os : list ostep) : sx :=
  if negb (Nat.eqb (List.length h) (List.length os)) then v_bad "step-count" (Lx [])
  else if trace_okb [] (obs_trace h os) then
    v_ok (if existsb (fun cf => andb (syncb cf store0 h os) (aliasb cf store0 h os)) all_cfgs then "exact"
          else if existsb (fun cf => syncb cf store0 h os) all_cfgs then "values" else "unpredicted")
  else
    match find_cfg h os with
    | Some cf =>
        match classes cf store0 [] h os with
        | Some (id :: _) => v_kf id
        | _ => v_bad "unclassified" (Zx (first_bad 1 [] (obs_trace h os)))
        end
    | None => v_bad "violation" (Zx (first_bad 1 [] (obs_trace h os)))
    end.

Definition judge_store (x : sx) : sx :=
  match x with
  | Lx [Lx (Ax "hist" :: stmts); o] =>
      match map_opt dec_stmt stmts with
      | None => v_malformed
      | Some h =>
          match o with
          | Lx (Ax "session" :: steps) =>
              match map_opt dec_step steps with
              | Some os => judge_hist h os
              | None => v_bad "unreadable-step" (Lx [])
              end
          | _ => v_bad "no-session" (Lx [])
          end
      end
  | _ => v_malformed
  end.

Definition run_line (s : string) : string := run_with judge_store s.
