(* C12 — kind annotations: value conversion, reshape, matrix -> set.
   Executable definitions only.

   Anchors: src/interpreter/src/stdlib/convert/{scalar,mat_to_mat,scalar_to_mat}.rs,
   src/interpreter/src/statements.rs::variable_define, src/core/src/value.rs
   (Value::convert_to / ValueKind::is_convertible_to).

   Three layers:
   1. exact numbers: every numeric value denotes a rational (integers, floats
      decoded from their IEEE bit pattern as (-1)^s * m * 2^e, r64 n/d, c64 with
      zero imaginary part); [repr k q] decides whether kind k can represent q.
   2. [demand_of k1 v k2]: what the property text fixes for converting v : k1 to k2.
   3. [conv_impl ...]: what the Rust conversion tables do (Rust `as` casts per
      ordered kind pair, the pairs that exist per storage form), used to predict
      the known-finding classes and for the model-level theorems.
   The judge checks the implementation's observation against layer 2. *)
From Coq Require Import List Arith ZArith QArith Qabs String Bool.
From MechV Require Import Base.Sexp Base.Obs.
Import ListNotations.
Local Open Scope Z_scope.

(* ------------------------------------------------------------------ kinds *)
Inductive kind := U8 | U16 | U32 | U64 | U128 | I8 | I16 | I32 | I64 | I128
                | F32 | F64 | R64 | C64 | KBool | KStr.

Definition kind_ix (k : kind) : nat :=
  match k with
  | U8 => 0 | U16 => 1 | U32 => 2 | U64 => 3 | U128 => 4
  | I8 => 5 | I16 => 6 | I32 => 7 | I64 => 8 | I128 => 9
  | F32 => 10 | F64 => 11 | R64 => 12 | C64 => 13 | KBool => 14 | KStr => 15
  end%nat.
Definition kind_eqb (a b : kind) : bool := Nat.eqb (kind_ix a) (kind_ix b).

Open Scope string_scope.
Local Open Scope Z_scope.
Definition kind_name (k : kind) : string :=
  match k with
  | U8 => "u8" | U16 => "u16" | U32 => "u32" | U64 => "u64" | U128 => "u128"
  | I8 => "i8" | I16 => "i16" | I32 => "i32" | I64 => "i64" | I128 => "i128"
  | F32 => "f32" | F64 => "f64" | R64 => "r64" | C64 => "c64" | KBool => "bool" | KStr => "string"
  end.
Definition all_kinds : list kind :=
  [U8; U16; U32; U64; U128; I8; I16; I32; I64; I128; F32; F64; R64; C64; KBool; KStr].
Definition kind_of_string (s : string) : option kind :=
  find (fun k => String.eqb (kind_name k) s) all_kinds.

(* signedness and width of the integer kinds *)
Definition int_sw (k : kind) : option (bool * Z) :=
  match k with
  | U8 => Some (false, 8) | U16 => Some (false, 16) | U32 => Some (false, 32)
  | U64 => Some (false, 64) | U128 => Some (false, 128)
  | I8 => Some (true, 8) | I16 => Some (true, 16) | I32 => Some (true, 32)
  | I64 => Some (true, 64) | I128 => Some (true, 128)
  | _ => None
  end.
Definition lo_of (s : bool) (w : Z) : Z := if s then - 2 ^ (w - 1) else 0.
Definition hi_of (s : bool) (w : Z) : Z := if s then 2 ^ (w - 1) - 1 else 2 ^ w - 1.
Definition in_range (s : bool) (w : Z) (z : Z) : bool := (lo_of s w <=? z) && (z <=? hi_of s w).
Definition clamp (lo hi z : Z) : Z := if z <? lo then lo else if hi <? z then hi else z.
(* Rust `as` between integer types: reduce modulo 2^w, reinterpret *)
Definition wrap (s : bool) (w : Z) (z : Z) : Z :=
  let m := z mod 2 ^ w in if s && (2 ^ (w - 1) <=? m) then m - 2 ^ w else m.

Definition is_int (k : kind) : bool := match int_sw k with Some _ => true | None => false end.
Definition is_float (k : kind) : bool := match k with F32 | F64 => true | _ => false end.
Definition is_numeric (k : kind) : bool := match k with KBool | KStr => false | _ => true end.

(* ------------------------------------------------------------------ floats *)
Record fmt := Fmt { mb : Z; eb : Z }.          (* stored mantissa bits, exponent bits *)
Definition f32fmt := Fmt 23 8.
Definition f64fmt := Fmt 52 11.
Definition bias (f : fmt) : Z := 2 ^ (eb f - 1) - 1.
Definition emin (f : fmt) : Z := 1 - bias f - mb f.   (* exponent of the last mantissa bit of subnormals *)
Definition fwidth (f : fmt) : Z := mb f + eb f + 1.
Definition fmt_of (k : kind) : fmt := match k with F32 => f32fmt | _ => f64fmt end.

(* a decoded float: value (-1)^neg * m * 2^e with m >= 0 *)
Inductive fval := FNaN | FInf (neg : bool) | FFin (neg : bool) (m e : Z).

Definition fdecode (f : fmt) (bits : Z) : fval :=
  let neg := Z.odd (bits / 2 ^ (mb f + eb f)) in
  let E := (bits / 2 ^ mb f) mod 2 ^ eb f in
  let M := bits mod 2 ^ mb f in
  if E =? 2 ^ eb f - 1 then (if M =? 0 then FInf neg else FNaN)
  else if E =? 0 then FFin neg M (emin f)
  else FFin neg (M + 2 ^ mb f) (E - bias f - mb f).

(* the exact rational (-1)^neg * m * 2^e *)
Definition fq (neg : bool) (m e : Z) : Q :=
  let sm := if neg then - m else m in
  if 0 <=? e then inject_Z (sm * 2 ^ e) else sm # Z.to_pos (2 ^ (- e)).

(* odd part and 2-adic valuation of a positive *)
Fixpoint pos_tz (p : positive) : Z := match p with xO p' => 1 + pos_tz p' | _ => 0 end.
Fixpoint pos_odd (p : positive) : positive := match p with xO p' => pos_odd p' | _ => p end.

(* the bit pattern of (-1)^neg * m * 2^e (m >= 0) if the format holds it exactly *)
Definition fencode (f : fmt) (neg : bool) (m e : Z) : option Z :=
  let sb := if neg then 2 ^ (mb f + eb f) else 0 in
  match m with
  | Z0 => Some sb
  | Zpos p =>
      let n := Zpos (pos_odd p) in
      let e0 := e + pos_tz p in
      let d := Z.log2 n + 1 in                       (* number of bits of the odd part *)
      if (d <=? mb f + 1) && (emin f <=? e0) && (d + e0 <=? bias f + 1) then
        if 2 - bias f <=? d + e0
        then Some (sb + (d + e0 - 1 + bias f) * 2 ^ mb f + (n * 2 ^ (mb f + 1 - d) - 2 ^ mb f))
        else Some (sb + n * 2 ^ (e0 - emin f))
      else None
  | Zneg _ => None
  end.

(* a reduced rational as sign, magnitude, exponent when its denominator is a power of two *)
Definition q_dyad (q : Q) : option (bool * Z * Z) :=
  let r := Qred q in
  match pos_odd (Qden r) with
  | xH => Some (Qnum r <? 0, Z.abs (Qnum r), - pos_tz (Qden r))
  | _ => None
  end.

Definition fenc_q (f : fmt) (q : Q) : option Z :=
  match q_dyad q with
  | Some (s, m, e) => fencode f s m e
  | None => None
  end.

Definition inf_bits (f : fmt) (neg : bool) : Z :=
  (if neg then 2 ^ (mb f + eb f) else 0) + (2 ^ eb f - 1) * 2 ^ mb f.

(* ------------------------------------------------------------------ values *)
Inductive sval :=
| VInt (z : Z)
| VFlt (bits : Z)
| VRat (n d : Z)
| VCx (re im : Z)          (* two f64 bit patterns *)
| VBool (b : bool)
| VStr (s : string).

Definition i64lo : Z := - 2 ^ 63.
Definition i64hi : Z := 2 ^ 63 - 1.

Definition wf_val (k : kind) (v : sval) : bool :=
  match int_sw k, k, v with
  | Some (s, w), _, VInt z => in_range s w z
  | None, F32, VFlt b => (0 <=? b) && (b <? 2 ^ 32)
  | None, F64, VFlt b => (0 <=? b) && (b <? 2 ^ 64)
  | None, R64, VRat n d => (0 <? d) && (Z.gcd n d =? 1) && (i64lo <=? n) && (n <=? i64hi) && (d <=? i64hi)
  | None, C64, VCx a b => (0 <=? a) && (a <? 2 ^ 64) && (0 <=? b) && (b <? 2 ^ 64)
  | None, KBool, VBool _ => true
  | None, KStr, VStr _ => true
  | _, _, _ => false
  end.

Definition sval_eqb (a b : sval) : bool :=
  match a, b with
  | VInt x, VInt y => x =? y
  | VFlt x, VFlt y => x =? y
  | VRat n d, VRat n' d' => (n =? n') && (d =? d')
  | VCx x y, VCx x' y' => (x =? x') && (y =? y')
  | VBool x, VBool y => Bool.eqb x y
  | VStr x, VStr y => String.eqb x y
  | _, _ => false
  end.

(* the number a value denotes; None: NaN, infinities, non-real complex, non-numbers *)
Definition denote (k : kind) (v : sval) : option Q :=
  match v with
  | VInt z => Some (inject_Z z)
  | VFlt b => match fdecode (fmt_of k) b with FFin s m e => Some (fq s m e) | _ => None end
  | VRat n d => if 0 <? d then Some (n # Z.to_pos d) else None
  | VCx a b =>
      match fdecode f64fmt a, fdecode f64fmt b with
      | FFin s m e, FFin _ 0 _ => Some (fq s m e)
      | _, _ => None
      end
  | _ => None
  end.

(* truncation toward zero *)
Definition q_trunc (q : Q) : Z := Z.quot (Qnum q) (Zpos (Qden q)).

(* can kind k represent the rational q exactly? *)
Definition repr (k : kind) (q : Q) : bool :=
  let r := Qred q in
  match int_sw k, k with
  | Some (s, w), _ => Pos.eqb (Qden r) 1 && in_range s w (Qnum r)
  | None, F32 => match fenc_q f32fmt q with Some _ => true | None => false end
  | None, F64 | None, C64 => match fenc_q f64fmt q with Some _ => true | None => false end
  | None, R64 => (- i64hi <=? Qnum r) && (Qnum r <=? i64hi) && (Zpos (Qden r) <=? i64hi)
  | None, _ => false
  end.

(* ------------------------------------------------- what the property fixes *)
Inductive demand :=
| DSame (v : sval)         (* same kind: exactly this value *)
| DExact (q : Q)           (* a well-formed value of the target kind denoting q *)
| DInf (neg : bool)        (* float infinity of this sign *)
| DErr                     (* the annotation is an error *)
| DFree (why : string).    (* the property does not fix the outcome *)

Definition clampk (k : kind) (z : Z) : Z :=
  match int_sw k with Some (s, w) => clamp (lo_of s w) (hi_of s w) z | None => z end.

Definition float_special (k : kind) (v : sval) : option fval :=
  match v with
  | VFlt b => if is_float k then Some (fdecode (fmt_of k) b) else None
  | _ => None
  end.

Definition demand_of (k1 : kind) (v : sval) (k2 : kind) : demand :=
  if kind_eqb k1 k2 then DSame v
  else if is_numeric k1 && is_numeric k2 then
    match denote k1 v with
    | Some q =>
        if is_float k1 && is_int k2 then DExact (inject_Z (clampk k2 (q_trunc q)))
        else if repr k2 q then DExact q
        else DFree "unrepresentable"
    | None =>
        match float_special k1 v with
        | Some (FInf neg) =>
            match int_sw k2 with
            | Some (s, w) => DExact (inject_Z (if neg then lo_of s w else hi_of s w))
            | None => if is_float k2 then DInf neg else DFree "infinity"
            end
        | Some FNaN => DFree "nan"
        | _ => DFree "not-real"
        end
    end
  else match k2 with KStr => DFree "to-string" | _ => DErr end.

Definition val_meets (k2 : kind) (d : demand) (v' : sval) : bool :=
  wf_val k2 v' &&
  match d with
  | DSame v => sval_eqb v' v
  | DExact q => match denote k2 v' with Some q' => Qeq_bool q' q | None => false end
  | DInf neg => match v' with
                | VFlt b => match fdecode (fmt_of k2) b with FInf n => Bool.eqb n neg | _ => false end
                | _ => false
                end
  | _ => false
  end.

(* --------------------------------------------- what the Rust tables contain *)
Inductive form := FScalar | FRef | FOpt | FMat | FSet.

Definition is_prim (k : kind) : bool := is_int k || is_float k.

(* stdlib/convert/scalar.rs: impl_conversion_match_arms! rows *)
Definition impl_scalar_pair (k1 k2 : kind) : bool :=
  match k2 with
  | KStr => negb (kind_eqb k1 C64)
  | _ => (is_prim k1 && is_prim k2)
         || (kind_eqb k1 F64 && kind_eqb k2 R64) || (kind_eqb k1 R64 && kind_eqb k2 F64)
         || (kind_eqb k1 KBool && kind_eqb k2 KBool)
  end.

(* stdlib/convert/mat_to_mat.rs: impl_conversion_mat_to_mat_fxn! rows (with explicit dims) *)
Definition impl_mat_pair (k1 k2 : kind) : bool :=
  match k2 with
  | KStr => true
  | _ => (is_prim k1 && is_prim k2)
         || (is_float k1 && kind_eqb k2 R64)
         || (kind_eqb k1 KBool && (is_prim k2 || kind_eqb k2 KBool))
  end.

(* core/value.rs: ValueKind::is_convertible_to on scalar kinds (gate of Value::convert_to) *)
Definition is_conv (k1 k2 : kind) : bool :=
  match int_sw k1, int_sw k2 with
  | Some (_, w1), Some (_, w2) => w1 <? w2
  | Some _, None => is_float k2
  | None, Some _ => is_float k1
  | None, None => is_float k1 && is_float k2 && negb (kind_eqb k1 k2)
  end.

Definition impl_supported (fm : form) (has_dims : bool) (k1 k2 : kind) : bool :=
  match fm with
  | FScalar | FRef => impl_scalar_pair k1 k2
  | FOpt | FSet => kind_eqb k1 k2 || is_conv k1 k2
  | FMat => (negb has_dims && kind_eqb k1 k2) || impl_mat_pair k1 k2
  end.

(* result of the model of the implementation *)
Inductive cres := CVal (v : sval) | CErr | CUnk.   (* CUnk: a value this model does not pin down *)

Definition f_trunc (neg : bool) (m e : Z) : Z :=
  let a := if 0 <=? e then m * 2 ^ e else m / 2 ^ (- e) in if neg then - a else a.

(* Rust `float as int`: truncate, saturate, NaN -> 0 *)
Definition f2i (f : fmt) (s : bool) (w : Z) (bits : Z) : Z :=
  match fdecode f bits with
  | FNaN => 0
  | FInf neg => if neg then lo_of s w else hi_of s w
  | FFin neg m e => clamp (lo_of s w) (hi_of s w) (f_trunc neg m e)
  end.

Definition enc_or_unk (o : option Z) : cres := match o with Some b => CVal (VFlt b) | None => CUnk end.

(* one element through Rust `as` (LossyFrom / LosslessInto in convert/mod.rs) *)
Definition as_cast (k1 k2 : kind) (v : sval) : cres :=
  if kind_eqb k1 k2 then CVal v else
  match v, int_sw k2 with
  | VInt z, Some (s, w) => CVal (VInt (wrap s w z))
  | VInt z, None =>
      if is_float k2 then enc_or_unk (fencode (fmt_of k2) (z <? 0) (Z.abs z) 0) else CErr
  | VFlt b, Some (s, w) => CVal (VInt (f2i (fmt_of k1) s w b))
  | VFlt b, None =>
      if is_float k2 then
        match fdecode (fmt_of k1) b with
        | FNaN => CUnk
        | FInf neg => CVal (VFlt (inf_bits (fmt_of k2) neg))
        | FFin neg m e => enc_or_unk (fencode (fmt_of k2) neg m e)
        end
      else CErr
  | _, _ => CErr
  end.

Definition bool_to_num (k2 : kind) (b : bool) : cres :=
  match int_sw k2 with
  | Some _ => CVal (VInt (if b then 1 else 0))
  | None => if is_float k2 then (if b then enc_or_unk (fencode (fmt_of k2) false 1 0) else CVal (VFlt 0)) else CErr
  end.

(* element conversion when the pair exists in the table of the form *)
Definition conv_elem (k1 k2 : kind) (v : sval) : cres :=
  if kind_eqb k1 k2 then CVal v
  else match k2 with
  | KStr => CUnk
  | _ =>
    if is_prim k1 && is_prim k2 then as_cast k1 k2 v
    else if kind_eqb k1 R64 && kind_eqb k2 F64 then
      match denote R64 v with
      | Some q => enc_or_unk (fenc_q f64fmt q)      (* Ratio::to_f64: exact when representable *)
      | None => CUnk
      end
    else if kind_eqb k1 KBool then match v with VBool b => bool_to_num k2 b | _ => CErr end
    else CUnk                                         (* float -> r64: continued-fraction approximation *)
  end.

Definition conv_impl (fm : form) (has_dims : bool) (k1 k2 : kind) (v : sval) : cres :=
  if impl_supported fm has_dims k1 k2 then conv_elem k1 k2 v else CErr.

(* ------------------------------------------------------- matrices, reshape *)
Section Shape.
  Context {A : Type}.
  Definition msize (m : mat A) : nat := (mrows m * mcols m)%nat.
  (* k-th element in column-major linear order *)
  Definition mlin (m : mat A) (k : nat) : option A :=
    if Nat.eqb (mrows m) 0 then None else mget m (k mod mrows m) (k / mrows m).
  Definition reshape (m : mat A) (r c : nat) : option (mat A) :=
    if Nat.eqb (r * c) (msize m) then Some (Mat r c (mdata m)) else None.
  Definition target_shape (m : mat A) (dims : option (nat * nat)) : nat * nat :=
    match dims with Some rc => rc | None => (mrows m, mcols m) end.
End Shape.

Definition mat_map_res {A B} (f : A -> option B) (m : mat A) : option (mat B) :=
  match map_opt f (mdata m) with Some d => Some (Mat (mrows m) (mcols m) d) | None => None end.

(* distinct elements, first occurrences kept (insertion into an IndexSet) *)
Fixpoint dedup_from {A} (eqb : A -> A -> bool) (seen l : list A) : list A :=
  match l with
  | [] => []
  | a :: r => if existsb (eqb a) seen then dedup_from eqb seen r else a :: dedup_from eqb (a :: seen) r
  end.
Definition dedup {A} (eqb : A -> A -> bool) (l : list A) : list A := dedup_from eqb [] l.

(* model of the whole matrix conversion of the implementation *)
Definition cres_val (c : cres) : option sval := match c with CVal v => Some v | _ => None end.
Definition conv_mat_impl (k1 k2 : kind) (dims : option (nat * nat)) (m : mat sval) : option (mat sval) :=
  let '(r, c) := target_shape m dims in
  if negb (Nat.eqb (r * c) (msize m)) then None
  else if impl_supported FMat (match dims with Some _ => true | None => false end) k1 k2 then
    match map_opt (fun v => cres_val (conv_elem k1 k2 v)) (mdata m) with
    | Some d => Some (Mat r c d)
    | None => None
    end
  else None.

(* model of `y<{k2}> := m`: convert every element (Value::convert_to), insert into an IndexSet *)
Definition to_set_impl (k1 k2 : kind) (m : mat sval) : option (list sval) :=
  if impl_supported FSet false k1 k2 then
    match map_opt (fun v => cres_val (conv_elem k1 k2 v)) (mdata m) with
    | Some l => Some (dedup sval_eqb l)
    | None => None
    end
  else None.

(* ------------------------------------------------------------ wire decoding *)
Definition decode_payload (k : kind) (e : sx) : option sval :=
  match k, e with
  | KStr, Qx s => Some (VStr s)
  | KStr, _ => None
  | KBool, Zx z => if z =? 0 then Some (VBool false) else if z =? 1 then Some (VBool true) else None
  | KBool, _ => None
  | R64, Lx [Zx n; Zx d] => Some (VRat n d)
  | R64, _ => None
  | C64, Lx [Zx a; Zx b] => Some (VCx a b)
  | C64, _ => None
  | F32, Zx b | F64, Zx b => Some (VFlt b)
  | F32, _ | F64, _ => None
  | _, Zx z => Some (VInt z)
  | _, _ => None
  end.

Definition encode_payload (v : sval) : sx :=
  match v with
  | VInt z => Zx z
  | VFlt b => Zx b
  | VRat n d => Lx [Zx n; Zx d]
  | VCx a b => Lx [Zx a; Zx b]
  | VBool b => Zx (if b then 1 else 0)
  | VStr s => Qx s
  end.

Definition q_sx (q : Q) : sx := let r := Qred q in Lx [Zx (Qnum r); Zx (Zpos (Qden r))].
Definition demand_sx (d : demand) : sx :=
  match d with
  | DSame v => Lx [Ax "same"; encode_payload v]
  | DExact q => Lx [Ax "exactly"; q_sx q]
  | DInf neg => Lx [Ax (if neg then "-inf" else "+inf")]
  | DErr => Ax "err"
  | DFree w => Lx [Ax "free"; Ax w]
  end.

Definition form_of_string (s : string) : option form :=
  if String.eqb s "scalar" then Some FScalar
  else if String.eqb s "ref" then Some FRef
  else if String.eqb s "opt" then Some FOpt
  else if String.eqb s "mat" then Some FMat
  else if String.eqb s "set" then Some FSet
  else None.

Definition decode_dims (x : sx) : option (option (nat * nat)) :=
  match x with
  | Lx [] => Some None
  | Lx [Zx r; Zx c] => if (0 <=? r) && (0 <=? c) then Some (Some (Z.to_nat r, Z.to_nat c)) else None
  | _ => None
  end.

(* ------------------------------------------------------- known-finding classes *)
Definition is_rc (k : kind) : bool := match k with R64 | C64 => true | _ => false end.
Definition is_value_demand (d : demand) : bool :=
  match d with DSame _ | DExact _ | DInf _ => true | _ => false end.

(* the implementation has no conversion although the property demands a value:
   the finding class this case belongs to (None: not a known class) *)
Definition kf_missing (fm : form) (has_dims : bool) (k1 k2 : kind) : option string :=
  if impl_supported fm has_dims k1 k2 then None
  else if is_rc k1 && kind_eqb k1 k2 then Some "rc-identity"
  else if is_numeric k1 && is_numeric k2 && (is_rc k1 || is_rc k2) then Some "rc-cross"
  else match fm with
       | FOpt | FSet => if is_int k1 && is_int k2 then Some "gate-narrowing" else None
       | _ => None
       end.

(* float -> r64 goes through a continued-fraction approximation in f64 arithmetic
   (num-rational approximate_float): its model needs IEEE arithmetic and lives in
   Model/ConvertJ.v.  The judges below take the recogniser of that known wrong answer
   as a parameter [kfa : source kind -> source value -> target kind -> observed value -> bool]. *)
Definition kfa_t : Type := kind -> sval -> kind -> sval -> bool.

(* ------------------------------------------------------------------ judges *)
Definition judge_value (kfa : kfa_t) (fm : form) (has_dims : bool) (k1 : kind) (v : sval) (k2 : kind) (o : obs) : sx :=
  let d := demand_of k1 v k2 in
  match d with
  | DFree why => v_adv why
  | DErr => match o with
            | OErr => v_ok "error"
            | _ => v_bad "expected-error" (demand_sx d)
            end
  | _ =>
      match o with
      | OVal (KS kn e) =>
          if String.eqb kn (kind_name k2) then
            match decode_payload k2 e with
            | Some v' =>
                if val_meets k2 d v' then
                  v_ok (match d with DSame _ => "same" | DInf _ => "infinity" | _ =>
                          if is_float k1 && is_int k2 then "trunc-clamp" else "exact" end)
                else if kfa k1 v k2 v' then v_kf "float-r64-approx"
                else v_bad "wrong-value" (demand_sx d)
            | None => v_bad "unreadable-value" (demand_sx d)
            end
          else v_bad "wrong-kind" (demand_sx d)
      | OErr => match kf_missing fm has_dims k1 k2 with
                | Some id => v_kf id
                | None => v_bad "unexpected-error" (demand_sx d)
                end
      | _ => v_bad "unexpected-observation" (demand_sx d)
      end
  end.

(* element-wise verdict summary for matrices *)
Inductive everdict := EOk | EFree | EApprox | EBad.

Definition elem_verdict (kfa : kfa_t) (k1 k2 : kind) (v : sval) (e : sx) : everdict :=
  match demand_of k1 v k2 with
  | DFree _ => EFree
  | DErr => EBad
  | d => match decode_payload k2 e with
         | Some v' => if val_meets k2 d v' then EOk else if kfa k1 v k2 v' then EApprox else EBad
         | None => EBad
         end
  end.

Fixpoint elems_verdicts (kfa : kfa_t) (k1 k2 : kind) (vs : list sval) (es : list sx) : option (list everdict) :=
  match vs, es with
  | [], [] => Some []
  | v :: vs', e :: es' =>
      match elems_verdicts kfa k1 k2 vs' es' with
      | Some r => Some (elem_verdict kfa k1 k2 v e :: r)
      | None => None
      end
  | _, _ => None
  end.

Definition ev_is (a : everdict) (b : everdict) : bool :=
  match a, b with EOk, EOk | EFree, EFree | EApprox, EApprox | EBad, EBad => true | _, _ => false end.

(* predicted defective behaviour: bool matrix -> numeric matrix gives 1/0 *)
Definition bool_matrix_prediction (k2 : kind) (vs : list sval) (es : list sx) : bool :=
  match map_opt (fun v => match v with VBool b => cres_val (bool_to_num k2 b) | _ => None end) vs with
  | Some exp => sxs_eqb (map encode_payload exp) es
  | None => false
  end.

Definition judge_mat (kfa : kfa_t) (k1 : kind) (m : mat sx) (k2 : kind) (dims : option (nat * nat)) (o : obs) : sx :=
  match map_opt (decode_payload k1) (mdata m) with
  | None => v_malformed
  | Some vs =>
    if negb (wf_matb m && forallb (wf_val k1) vs) then v_adv "ill-formed-source"
    else
    let '(r, c) := target_shape m dims in
    let has_dims := match dims with Some _ => true | None => false end in
    if negb (Nat.eqb (r * c) (msize m)) then
      match o with OErr => v_ok "count-error" | _ => v_bad "expected-count-error" (Ax "err") end
    else
    let ds := map (fun v => demand_of k1 v k2) vs in
    if existsb (fun d => match d with DErr => true | _ => false end) ds then
      match o with
      | OErr => v_ok "error"
      | OVal (KM kn m') =>
          if kind_eqb k1 KBool && String.eqb kn (kind_name k2) && Nat.eqb (mrows m') r && Nat.eqb (mcols m') c
             && bool_matrix_prediction k2 vs (mdata m')
          then v_kf "bool-matrix" else v_bad "expected-error" (Ax "err")
      | _ => v_bad "expected-error" (Ax "err")
      end
    else
    let any_bound := existsb is_value_demand ds in
    match o with
    | OVal (KM kn m') =>
        if negb (String.eqb kn (kind_name k2)) then
          (if any_bound then v_bad "wrong-kind" (Ax (kind_name k2)) else v_adv "unfixed")
        else if negb (Nat.eqb (mrows m') r && Nat.eqb (mcols m') c) then
          v_bad "wrong-shape" (Lx [Zx (Z.of_nat r); Zx (Z.of_nat c)])
        else
          match elems_verdicts kfa k1 k2 vs (mdata m') with
          | None => v_bad "wrong-element-count" (Zx (Z.of_nat (List.length vs)))
          | Some evs =>
              if existsb (ev_is EBad) evs then v_bad "wrong-element" (Lx (map demand_sx ds))
              else if existsb (ev_is EApprox) evs then v_kf "float-r64-approx"
              else if existsb (ev_is EFree) evs then v_adv "partly-unfixed"
              else v_ok (match dims with
                         | Some _ => if Nat.eqb (mrows m) r && Nat.eqb (mcols m) c then "mat-same-shape" else "reshape"
                         | None => "mat"
                         end)
          end
    | OErr =>
        if existsb (fun d => negb (is_value_demand d)) ds then v_adv "partly-unfixed"
        else if any_bound then
          match kf_missing FMat has_dims k1 k2 with
          | Some id => v_kf id
          | None => v_bad "unexpected-error" (Lx (map demand_sx ds))
          end
        else v_adv "unfixed"
    | _ => if any_bound then v_bad "unexpected-observation" (Lx (map demand_sx ds)) else v_adv "unfixed"
    end
  end.

(* sets: (set "kind" n (value...)) *)
Definition decode_set (x : sx) : option (string * Z * list sx) :=
  match x with
  | Lx [Ax "set"; kn; Zx n; Lx es] =>
      match sx_str kn with Some s => Some (s, n, es) | None => None end
  | _ => None
  end.

Definition set_elem_payload (k2 : kind) (x : sx) : option sval :=
  match x with
  | Lx [Ax "s"; Ax kn; e] => if String.eqb kn (kind_name k2) then decode_payload k2 e else None
  | _ => None
  end.

(* two results are the same element of the target kind *)
Definition same_elem (k2 : kind) (a b : sval) : bool :=
  match denote k2 a, denote k2 b with
  | Some x, Some y => Qeq_bool x y
  | _, _ => sval_eqb a b
  end.

Fixpoint nodupb {A} (eqb : A -> A -> bool) (l : list A) : bool :=
  match l with
  | [] => true
  | a :: r => negb (existsb (eqb a) r) && nodupb eqb r
  end.

(* floats whose membership in a set is a matter of C14 (NaN, negative zero) *)
Definition set_awkward (k1 : kind) (v : sval) : bool :=
  match v with
  | VFlt b => match fdecode (fmt_of k1) b with FFin true 0 _ => true | FFin _ _ _ => false | _ => true end
  | VCx a b => true
  | _ => false
  end.

Definition judge_set (k1 : kind) (m : mat sx) (k2 : kind) (o2 : sx) : sx :=
  match map_opt (decode_payload k1) (mdata m) with
  | None => v_malformed
  | Some vs =>
    if negb (wf_matb m && forallb (wf_val k1) vs) then v_adv "ill-formed-source"
    else if existsb (set_awkward k1) vs then v_adv "set-float-special"
    else
    let ds := map (fun v => demand_of k1 v k2) vs in
    if existsb (fun d => match d with DErr => true | _ => false end) ds then
      match decode_obs o2 with OErr => v_ok "error" | _ => v_bad "expected-error" (Ax "err") end
    else if negb (forallb is_value_demand ds) then v_adv "partly-unfixed"
    else
    match decode_obs o2 with
    | OErr => match kf_missing FSet false k1 k2 with
              | Some id => v_kf id
              | None => v_bad "unexpected-error" (Lx (map demand_sx ds))
              end
    | _ =>
      match decode_set o2 with
      | None => v_bad "not-a-set" (Lx (map demand_sx ds))
      | Some (kn, n, es) =>
          match map_opt (set_elem_payload k2) es with
          | None => v_bad "wrong-element-kind" (Ax (kind_name k2))
          | Some ws =>
              if negb (String.eqb kn (kind_name k2)) then v_bad "wrong-kind" (Ax (kind_name k2))
              else if negb (n =? Z.of_nat (List.length ws)) then v_bad "wrong-count" (Zx n)
              else if negb (nodupb (same_elem k2) ws) then v_bad "duplicate-element" (Lx (map demand_sx ds))
              else if negb (forallb (fun d => existsb (val_meets k2 d) ws) ds) then v_bad "missing-element" (Lx (map demand_sx ds))
              else if negb (forallb (fun w => existsb (fun d => val_meets k2 d w) ds) ws) then v_bad "extra-element" (Lx (map demand_sx ds))
              else v_ok "set"
          end
      end
    end
  end.

(* case: ((conv <form> <target kind> <dims> <source text, for humans>) (session (step <source obs> syms) (step <result obs> syms)))
   one interpreter: first the statements that build x (value of the step = x), then the
   annotated definition under test *)
Definition judge_convert (kfa : kfa_t) (x : sx) : sx :=
  match x with
  | Lx [Lx [Ax "conv"; Ax fs; Ax ks; dx; _]; Lx [Ax "session"; Lx [Ax "step"; o1; _]; Lx [Ax "step"; o2; _]]] =>
      match form_of_string fs, kind_of_string ks, decode_dims dx with
      | Some fm, Some k2, Some dims =>
          match decode_obs o1 with
          | OVal (KS kn e) =>
              match kind_of_string kn with
              | Some k1 =>
                  match fm, decode_payload k1 e with
                  | (FScalar | FRef | FOpt), Some v =>
                      if wf_val k1 v then judge_value kfa fm false k1 v k2 (decode_obs o2)
                      else v_adv "ill-formed-source"
                  | _, _ => v_adv "no-source"
                  end
              | None => v_adv "no-source"
              end
          | OVal (KM kn m) =>
              match kind_of_string kn with
              | Some k1 =>
                  match fm with
                  | FMat => judge_mat kfa k1 m k2 dims (decode_obs o2)
                  | FSet => judge_set k1 m k2 o2
                  | _ => v_adv "no-source"
                  end
              | None => v_adv "no-source"
              end
          | _ => v_adv "no-source"
          end
      | _, _, _ => v_malformed
      end
  | _ => v_malformed
  end.

