(* C03 — reading x[...] : 1-based, column-major indexing.  Executable definitions only.

   Two models live here.
   * [read1]/[read2]: the REFERENCE the property talks about (1-based, column-major,
     explicit range guards, a logical mask must have exactly the length of the
     indexed dimension).
   * [readI1]/[readI2]: a faithful model of what the access kernels in
     src/interpreter/src/stdlib/access/matrix.rs really do.  They agree with the
     reference except around logical masks (macros access_1d_slice_bool_v,
     access_2d_row_slice_bool, access_2d_col_slice_bool, access_2d_slice_all_bool,
     assign_2d_all_range_vb, access_2d_range_range_v{bb,bu,ub}):
       - no kernel compares the mask length with the dimension; the 1-D kernel and
         x[:,mask] loop over the SOURCE length (short mask -> panic, long mask ->
         the result is padded with default elements), the others loop over the MASK
         (only a [true] beyond the dimension panics);
       - out-of-range checks happen only when an element is actually fetched, so an
         all-false mask hides an out-of-range index in the other position;
       - x[mask,:] fills its column-major output in row-major order.
     The judge uses the second model only to recognise these known findings. *)
From Coq Require Import List Arith ZArith String Bool.
From MechV Require Import Base.Sexp Base.Obs.
Import ListNotations.

(* index forms after conversion (Value::as_index / subscript_range) *)
Inductive ix : Type :=
| IScalar (z : Z)
| IVec (l : list Z)
| IRange (lo hi : Z) (incl : bool)      (* lo..hi  /  lo..=hi *)
| IAll
| IMask (l : list bool).

Inductive rval (A : Type) : Type := RS (a : A) | RM (m : mat A).
Arguments RS {A} _.
Arguments RM {A} _.
Inductive res (A : Type) : Type := Ok (v : rval A) | Err.
Arguments Ok {A} _.
Arguments Err {A}.

(* ---------- index resolution (independent of the element type) ---------- *)
(* 1-based z addresses 0-based position z-1 of a dimension of size n, if 1 <= z <= n *)
Definition pos1 (n : nat) (z : Z) : option nat :=
  if andb (Z.leb 1 z) (Z.leb z (Z.of_nat n)) then Some (Z.to_nat (z - 1)) else None.

Fixpoint mask_from (p : nat) (l : list bool) : list nat :=
  match l with
  | [] => []
  | b :: r => if b then p :: mask_from (S p) r else mask_from (S p) r
  end.
Definition mask_positions (l : list bool) : list nat := mask_from 0 l.

Definition range_len (lo hi : Z) (incl : bool) : nat :=
  Z.to_nat (hi - lo + (if incl then 1 else 0)).
Definition range_list (lo hi : Z) (incl : bool) : list Z :=
  map (fun k => (lo + Z.of_nat k)%Z) (seq 0 (range_len lo hi incl)).

(* positions (0-based) selected in a dimension of size n; None = the index
   addresses no element / mask of the wrong length *)
Definition resolve (n : nat) (i : ix) : option (list nat) :=
  match i with
  | IScalar z => option_map (fun p => [p]) (pos1 n z)
  | IVec l => map_opt (pos1 n) l
  | IRange lo hi incl => map_opt (pos1 n) (range_list lo hi incl)
  | IAll => Some (seq 0 n)
  | IMask l => if Nat.eqb (List.length l) n then Some (mask_positions l) else None
  end.

(* number of positions an index selects in a dimension of size n (the documented result sizes:
   x[:] -> N*M x 1, x[1,:] -> 1 x M, x[:,2] -> N x 1, x[[1 1 2 2],:] -> 4 x M, x[rows,cols] -> #true x #true) *)
Definition sel_len (n : nat) (i : ix) : nat :=
  match i with
  | IScalar _ => 1
  | IVec l => List.length l
  | IRange lo hi incl => range_len lo hi incl
  | IAll => n
  | IMask l => List.length (mask_positions l)
  end.

Definition is_scalar (i : ix) : bool := match i with IScalar _ => true | _ => false end.
Definition is_mask (i : ix) : bool := match i with IMask _ => true | _ => false end.
Definition is_veclike (i : ix) : bool := match i with IVec _ | IRange _ _ _ => true | _ => false end.

(* column-major enumeration of the selected (row, col) pairs *)
Definition pairs {R C} (rs : list R) (cs : list C) : list (R * C) :=
  flat_map (fun c => map (fun r => (r, c)) rs) cs.
Definition pairs_rowmajor {R C} (rs : list R) (cs : list C) : list (R * C) :=
  flat_map (fun r => map (fun c => (r, c)) cs) rs.

Section Index.
  Context {A : Type}.

  (* ---------- the reference model ---------- *)
  Definition gather1 (d : list A) (ps : list nat) : option (list A) := map_opt (nth_error d) ps.

  Definition read1 (m : mat A) (i : ix) : res A :=
    match resolve (mrows m * mcols m) i with
    | None => Err
    | Some ps =>
        match gather1 (mdata m) ps with
        | None => Err
        | Some es =>
            if is_scalar i then match es with [e] => Ok (RS e) | _ => Err end
            else Ok (RM (Mat (List.length ps) 1 es))
        end
    end.

  Definition gather2 (m : mat A) (rs cs : list nat) : option (list A) :=
    map_opt (fun rc => mget m (fst rc) (snd rc)) (pairs rs cs).

  Definition read2 (m : mat A) (i j : ix) : res A :=
    match resolve (mrows m) i, resolve (mcols m) j with
    | Some rs, Some cs =>
        match gather2 m rs cs with
        | None => Err
        | Some es =>
            if andb (is_scalar i) (is_scalar j) then match es with [e] => Ok (RS e) | _ => Err end
            else Ok (RM (Mat (List.length rs) (List.length cs) es))
        end
    | _, _ => Err
    end.

  (* ---------- what the kernels do (differs only when a mask is involved) ---------- *)
  Definition count_true (l : list bool) : nat := List.length (mask_positions l).

  (* the raw 1-based indices a kernel visits; masks are NOT length-checked *)
  Definition rawI (n : nat) (i : ix) : list Z :=
    match i with
    | IScalar z => [z]
    | IVec l => l
    | IRange lo hi incl => range_list lo hi incl
    | IAll => map (fun k => Z.of_nat (S k)) (seq 0 n)
    | IMask l => map (fun p => Z.of_nat (S p)) (mask_positions l)
    end.

  (* fetching source[(r-1, c-1)]: `r - 1` panics for r = 0 (dev profile), nalgebra panics out of bounds *)
  Definition cellI (m : mat A) (rc : Z * Z) : option A :=
    if andb (Z.leb 1 (fst rc)) (Z.leb 1 (snd rc))
    then mget m (Z.to_nat (fst rc - 1)) (Z.to_nat (snd rc - 1)) else None.

  (* d = the element kind's default value (used by the kernels to pre-fill their output) *)
  Definition readI1 (d : A) (m : mat A) (i : ix) : res A :=
    match i with
    | IMask l =>
        let n := mrows m * mcols m in
        if Nat.ltb (List.length l) n then Err           (* ix[i] out of bounds while i < source.len() *)
        else match gather1 (mdata m) (mask_positions (firstn n l)) with
             | Some es => Ok (RM (Mat (count_true l) 1 (es ++ repeat d (count_true (skipn n l)))))
             | None => Err
             end
    | _ => read1 m i
    end.

  (* kernels that loop over the mask / fetch lazily (access_2d_row_slice_bool, access_2d_col_slice_bool,
     access_2d_range_range_v{bb,bu,ub}): only fetched elements are bounds-checked *)
  Definition lazy_read2 (m : mat A) (i j : ix) : res A :=
    let rs := rawI (mrows m) i in
    let cs := rawI (mcols m) j in
    (* access_2d_range_range_vub evaluates `ix1[r] - 1` before looking at the mask *)
    if andb (is_veclike i) (negb (forallb (Z.leb 1) rs)) then Err
    else match map_opt (cellI m) (pairs rs cs) with
         | Some es => Ok (RM (Mat (List.length rs) (List.length cs) es))
         | None => Err
         end.

  (* x[:,mask]  (assign_2d_all_range_vb: loops over source.ncols(); output pre-filled with defaults) *)
  Definition all_mask_read2 (d : A) (m : mat A) (l : list bool) : res A :=
    let n := mcols m in
    if Nat.ltb (List.length l) n then Err
    else match gather2 m (seq 0 (mrows m)) (mask_positions (firstn n l)) with
         | Some es => Ok (RM (Mat (mrows m) (count_true l)
                                  (es ++ repeat d (mrows m * count_true (skipn n l)))))
         | None => Err
         end.

  (* x[mask,:]  (access_2d_slice_all_bool: row-major fill of the column-major output) *)
  Definition mask_all_read2 (m : mat A) (l : list bool) : res A :=
    let rs := rawI (mrows m) (IMask l) in
    let cs := rawI (mcols m) IAll in
    match map_opt (cellI m) (pairs_rowmajor rs cs) with
    | Some es => Ok (RM (Mat (List.length rs) (List.length cs) es))
    | None => Err
    end.

  Definition readI2 (d : A) (m : mat A) (i j : ix) : res A :=
    match i, j with
    | IAll, IMask l => all_mask_read2 d m l
    | IMask l, IAll => mask_all_read2 m l
    | _, _ => if orb (is_mask i) (is_mask j) then lazy_read2 m i j else read2 m i j
    end.
End Index.

(* ---------- which combinations the interpreter implements at all ----------
   (expressions.rs::subscript + the match arms of access/matrix.rs in the buildable
   configuration: only RowDVector / DVector / DMatrix storage exists; index vectors,
   ranges and masks become DVector<usize>/DVector<bool> only when they have >= 2
   elements; [:,:] is todo!()) *)
Inductive stor : Type := SRow | SCol | SMat.
Definition stor_of (r c : nat) : stor :=
  if andb (Nat.eqb r 1) (Nat.eqb c 1) then SMat
  else if Nat.eqb r 1 then SRow else if Nat.eqb c 1 then SCol else SMat.

Inductive icls : Type := CS | CV | CB | CA | CU.
Definition cls_of (i : ix) : icls :=
  match i with
  | IScalar _ => CS
  | IVec l => if Nat.leb 2 (List.length l) then CV else CU
  | IRange lo hi incl => if Nat.leb 2 (range_len lo hi incl) then CV else CU
  | IAll => CA
  | IMask l => if Nat.leb 2 (List.length l) then CB else CU
  end.
Definition is_smat (s : stor) : bool := match s with SMat => true | _ => false end.

Definition supported1 (s : stor) (c : icls) : bool :=
  match c with
  | CS | CV | CB => true
  | CA => is_smat s
  | CU => false
  end.
Definition supported2 (s : stor) (c1 c2 : icls) : bool :=
  match c1, c2 with
  | CU, _ | _, CU => false
  | CS, CS => true
  | CA, CA => false
  | (CV | CB), (CV | CB) => true
  | CA, (CV | CB) => true
  | _, _ => is_smat s
  end.

(* ---------- the suite ----------
   case  = (c03 (m kind r c (payload...)) (<ix> [<ix>]) pre)
     ix  = (s z) | (v z...) | (r lo hi incl) | (a) | (b 0/1...)
     pre = number of statements before the read (definition of x, index variables)
   obs   = (session (step o (syms ...))...) for [pre statements; the read; `x`]  *)
Open Scope string_scope.

Definition decode_bool (x : sx) : option bool :=
  match x with Zx 0 => Some false | Zx 1 => Some true | _ => None end.

Definition decode_ix (x : sx) : option ix :=
  match x with
  | Lx [Ax "s"; Zx z] => Some (IScalar z)
  | Lx (Ax "v" :: l) => option_map IVec (map_opt sx_Z l)
  | Lx [Ax "r"; Zx lo; Zx hi; b] => option_map (IRange lo hi) (decode_bool b)
  | Lx [Ax "a"] => Some IAll
  | Lx (Ax "b" :: l) => option_map IMask (map_opt decode_bool l)
  | _ => None
  end.

(* T::default() of the element kinds, as canon.rs prints it *)
Definition default_payload (k : string) : sx :=
  if String.eqb k "string" then Qx ""
  else if String.eqb k "r64" then Lx [Zx 0; Zx 1]
  else if String.eqb k "c64" then Lx [Zx 0; Zx 0]
  else Zx 0.

Inductive idx : Type := I1 (i : ix) | I2 (i j : ix).

Definition decode_idx (x : sx) : option idx :=
  match x with
  | Lx [a] => option_map I1 (decode_ix a)
  | Lx [a; b] => match decode_ix a, decode_ix b with Some i, Some j => Some (I2 i j) | _, _ => None end
  | _ => None
  end.

Definition spec_read (m : mat sx) (q : idx) : res sx :=
  match q with I1 i => read1 m i | I2 i j => read2 m i j end.
Definition impl_read (k : string) (m : mat sx) (q : idx) : res sx :=
  match q with I1 i => readI1 (default_payload k) m i | I2 i j => readI2 (default_payload k) m i j end.
Definition supported (m : mat sx) (q : idx) : bool :=
  match q with
  | I1 i => supported1 (stor_of (mrows m) (mcols m)) (cls_of i)
  | I2 i j => supported2 (stor_of (mrows m) (mcols m)) (cls_of i) (cls_of j)
  end.

Definition mask_len_bad (n : nat) (i : ix) : bool :=
  match i with IMask l => negb (Nat.eqb (List.length l) n) | _ => false end.
Definition has_bad_mask (m : mat sx) (q : idx) : bool :=
  match q with
  | I1 i => mask_len_bad (mrows m * mcols m) i
  | I2 i j => orb (mask_len_bad (mrows m) i) (mask_len_bad (mcols m) j)
  end.

Definition kval_of (k : string) (v : rval sx) : kval :=
  match v with RS e => KS k e | RM m => KM k m end.

Definition is_ok {A} (r : res A) : bool := match r with Ok _ => true | Err => false end.

(* known-finding classes: exactly the inputs on which the kernel model departs from the reference *)
Definition kf_mask_length (k : string) (m : mat sx) (q : idx) : bool :=
  andb (has_bad_mask m q) (andb (negb (is_ok (spec_read m q))) (is_ok (impl_read k m q))).
Definition kf_empty_mask_oob (k : string) (m : mat sx) (q : idx) : bool :=
  andb (negb (has_bad_mask m q)) (andb (negb (is_ok (spec_read m q))) (is_ok (impl_read k m q))).
Definition kf_mask_rows_order (k : string) (m : mat sx) (q : idx) : bool :=
  match spec_read m q, impl_read k m q with
  | Ok v, Ok v' => negb (kval_eqb (kval_of k v) (kval_of k v'))
  | _, _ => false
  end.

Definition obs_is_impl (k : string) (m : mat sx) (q : idx) (o : obs) : bool :=
  match impl_read k m q, o with
  | Ok v, OVal v' => kval_eqb (kval_of k v) v'
  | _, _ => false
  end.

Definition err_or_nothing : sx := Ax "err".

(* verdict for the read itself *)
Definition judge_read (k : string) (m : mat sx) (q : idx) (o : obs) : sx :=
  match spec_read m q, o with
  | Ok v, OVal v' =>
      if kval_eqb (kval_of k v) v'
      then v_ok (match v with RS _ => "scalar" | RM r => if Nat.eqb (List.length (mdata r)) 0 then "empty" else "value" end)
      else if andb (kf_mask_rows_order k m q) (obs_is_impl k m q o) then v_kf "mask-rows-all-order"
      else v_bad "wrong-value" (encode_kval (kval_of k v))
  | Ok v, OErr =>
      if supported m q then v_bad "expected-value" (encode_kval (kval_of k v))
      else v_adv "unsupported-combination"
  | Ok v, _ => v_bad "expected-value" (encode_kval (kval_of k v))
  | Err, OErr => v_ok "error"
  | Err, _ =>
      if andb (kf_mask_length k m q) (obs_is_impl k m q o) then v_kf "mask-length"
      else if andb (kf_empty_mask_oob k m q) (obs_is_impl k m q o) then v_kf "empty-mask-hides-oob"
      else v_bad "expected-error" err_or_nothing
  end.

(* ---- session observation ---- *)
Definition decode_step (x : sx) : option (sx * list sx) :=
  match x with
  | Lx [Ax "step"; o; Lx (Ax "syms" :: syms)] => Some (o, syms)
  | _ => None
  end.

Fixpoint lookup_sym (name : string) (syms : list sx) : option sx :=
  match syms with
  | [] => None
  | Lx [Qx n; _; _; v] :: r => if String.eqb n name then Some v else lookup_sym name r
  | _ :: r => lookup_sym name r
  end.

Definition sym_val (syms : list sx) : option kval :=
  match lookup_sym "x" syms with Some v => decode_kval v | None => None end.

Definition sym_is (xv : kval) (syms : list sx) : bool :=
  match sym_val syms with Some v' => kval_eqb xv v' | None => false end.

Definition obs_is (xv : kval) (o : sx) : bool :=
  match decode_obs o with OVal v' => kval_eqb xv v' | _ => false end.

(* steps = the observed steps; def = step of `x := ...`, rd = step of the read, fin = step of `x` *)
Definition judge_session (k : string) (m : mat sx) (q : idx) (def rd fin : sx * list sx) : sx :=
  let xv := KM k m in
  if negb (andb (obs_is xv (fst def)) (sym_is xv (snd def))) then v_bad "setup" (encode_kval xv)
  else if negb (andb (sym_is xv (snd rd)) (andb (obs_is xv (fst fin)) (sym_is xv (snd fin))))
  then v_bad "x-modified" (encode_kval xv)
  else judge_read k m q (decode_obs (fst rd)).

Definition parse_case (x : sx) : option (string * mat sx * idx * nat * list (sx * list sx)) :=
  match x with
  | Lx [Lx [Ax "c03"; xm; qs; Zx pre]; Lx (Ax "session" :: steps)] =>
      match decode_kval xm, decode_idx qs, map_opt decode_step steps with
      | Some (KM k m), Some q, Some sts => Some (k, m, q, Z.to_nat pre, sts)
      | _, _, _ => None
      end
  | _ => None
  end.

(* a well-formed case whose observation is not a session: the harness process hung or aborted *)
Definition crash_verdict (x : sx) : sx :=
  match x with
  | Lx [Lx [Ax "c03"; xm; qs; Zx _]; Lx [Ax "hang"]] => v_bad "interpreter-hung" (Ax "session")
  | Lx [Lx [Ax "c03"; xm; qs; Zx _]; Lx [Ax "abort"; _]] => v_bad "interpreter-aborted" (Ax "session")
  | _ => v_malformed
  end.

Definition judge_index (x : sx) : sx :=
  match parse_case x with
  | Some (k, m, q, pre, sts) =>
      if andb (wf_matb m) (andb (Nat.leb 1 pre) (Nat.eqb (List.length sts) (pre + 2))) then
        match nth_error sts 0, nth_error sts pre, nth_error sts (pre + 1) with
        | Some def, Some rd, Some fin => judge_session k m q def rd fin
        | _, _, _ => v_malformed
        end
      else v_malformed
  | None => crash_verdict x
  end.

Definition run_line (s : string) : string := run_with judge_index s.
