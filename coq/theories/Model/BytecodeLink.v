(* C06 — the LINK between the abstract compiled program of Model/Bytecode.v and the bytes of the file
   (Model/Container.v, Model/ConstCodec.v, the container of C07):

     plan + final store --ncompile--> abstract program (const loads carry VALUES, operations carry function ids)
                        --lower-----> Container.program (type section, constant table, blob, instruction list, header)
                        --encode_program--> bytes --load_program--> Container.program --crun--> registers, plan, out

   [lower] says what src/core/src/stdlib.rs compile_register_brrw! / compile_nullop!..compile_varop! and
   CompileCtx (src/core/src/program/compiler/context.rs) lay out:
     * alloc_register_for_ptr: one register per cell address, numbered in order of first use (out first, then the
       operands in order);
     * compile_const, once per const LOAD (constants are never shared): intern the value's kind in the type section
       (TypeSection::get_or_intern; a matrix kind interns its element kind FIRST, then its own entry
       [elem_id; 2; rows; cols]), pad the blob with zero bytes up to the kind's alignment (ValueKind::align), append
       the payload (ConstElem::write_le = ConstCodec.encode_const), push the ConstEntry
       {type_id, Inline, align, 0, 0, offset, length}; const_id = index of the entry;
     * emit ConstLoad{dst, const_id}; after the loads of a step the operation instruction of its arity (NullOp, UnOp,
       BinOp, TernOp, QuadOp; VarArg for the functions compiled with compile_varop!) over the SAME registers;
     * CompileCtx::compile: header {version 1, mech_ver, flags 0, reg_count = next_reg, counts, offsets}, sections in
       order, no symbols and no dictionary (Interpreter::compile never calls define_symbol), CRC trailer.
   Explicitly abstracted (parameters of [lower]): the feature section (a HashSet: its order is not determined; the
   loader and the runner do not interpret it) and the crate version stored in mech_ver.
   [crun] is Interpreter::run_program on a loaded program: decode every constant, then per instruction a ConstLoad
   copies constants[const_id] into registers[dst]; an operation looks the function id up (unknown: error), reads its
   registers (out of range: panic), asks the factory for the function object (refusal: error), sets self.out to the
   function's output register value and appends the step to the plan — it does NOT solve it.
   Executable definitions only (plus the hypothesis predicate [runnable]). *)
From Coq Require Import List NArith ZArith Arith Bool String.
From MechV Require Import Base.Sexp Base.Obs Model.Plan Model.Bytecode Model.Crc32 Model.Loader Model.Container Model.ConstCodec.
Import ListNotations.

(* ---------- plans whose steps name their function ---------- *)
(* n_var: the function is compiled with compile_varop! (VarArg instruction whatever the operand count) *)
Record nstep := { n_out : nat; n_args : list nat; n_fid : N; n_var : bool }.

Inductive ninstr : Type :=
| NCL (c : nat) (v : cval)
| NOP (fid : N) (var : bool) (dst : nat) (args : list nat).

(* Bytecode.compile with the function ids kept *)
Definition ncompile_step (final : nat -> cval) (s : nstep) : list ninstr :=
  NCL (n_out s) (final (n_out s)) :: map (fun a => NCL a (final a)) (n_args s)
  ++ [NOP (n_fid s) (n_var s) (n_out s) (n_args s)].
Definition ncompile (p : list nstep) (final : nat -> cval) : list ninstr := flat_map (ncompile_step final) p.
Definition ncells (p : list nstep) : list nat := flat_map (fun s => n_out s :: n_args s) p.

(* erasure into Model/Bytecode.v: [sem] resolves a function id to its kernel (abstract) *)
Definition to_pstep (sem : N -> list cval -> cval) (s : nstep) : @pstep cval :=
  {| s_out := n_out s; s_args := n_args s; s_fn := sem (n_fid s) |}.
Definition erase (sem : N -> list cval -> cval) (i : ninstr) : @binstr cval :=
  match i with NCL c v => CL c v | NOP f _ d a => OP (sem f) d a end.

(* the abstract machine of Bytecode.exec with names and the `out` of run_program made explicit *)
Record astate := { a_regs : nat -> cval; a_plan : list nstep; a_out : option cval }.
Definition astep (st : astate) (i : ninstr) : astate :=
  match i with
  | NCL c v => {| a_regs := upd (a_regs st) c v; a_plan := a_plan st; a_out := a_out st |}
  | NOP f var d a =>
      {| a_regs := a_regs st; a_plan := (a_plan st ++ [{| n_out := d; n_args := a; n_fid := f; n_var := var |}])%list;
         a_out := Some (a_regs st d) |}
  end.
Definition arun (P : list ninstr) (st : astate) : astate := fold_left astep P st.
Definition astate0 (rs : nat -> cval) : astate := {| a_regs := rs; a_plan := []; a_out := None |}.

(* ---------- lowering ---------- *)
Section Find.
  Context {A : Type} (eqb : A -> A -> bool).
  Fixpoint find_idx (x : A) (l : list A) : option nat :=
    match l with
    | [] => None
    | y :: r => if eqb x y then Some O else match find_idx x r with Some i => Some (S i) | None => None end
    end.
  (* HashMap lookup, else push: (index, extended list) *)
  Definition intern (x : A) (l : list A) : nat * list A :=
    match find_idx x l with Some i => (i, l) | None => (List.length l, (l ++ [x])%list) end.
End Find.

Definition tentry_eqb (a b : tentry) : bool := (fst a =? fst b)%N && N_list_eqb (snd a) (snd b).

Definition scalar_tag (k : skind) : N := tag_of_kind (CScalar k (VB false)).

(* TypeSection::get_or_intern on the kind of a constant (compiler/mod.rs encode_value_kind) *)
Definition intern_kind (v : cval) (ts : list tentry) : nat * list tentry :=
  match v with
  | CScalar k _ => intern tentry_eqb (scalar_tag k, []) ts
  | CMatrix k r c _ =>
      let '(eid, ts1) := intern tentry_eqb (scalar_tag k, []) ts in
      intern tentry_eqb (tag_of_kind v, le 4 (N.of_nat eid) ++ le 4 2 ++ le 4 r ++ le 4 c)%list ts1
  end.

(* ValueKind::align (value.rs; String = pointer alignment = 8 on the 64-bit targets the harness is built for;
   a matrix has the alignment of its element kind) *)
Definition kalign (k : skind) : N :=
  match k with
  | KU8 | KI8 | KBool => 1 | KU16 | KI16 => 2 | KU32 | KI32 | KF32 => 4
  | KU64 | KI64 | KF64 | KC64 | KR64 | KIndex | KString => 8 | KU128 | KI128 => 16
  end%N.
Definition calign (v : cval) : N := match v with CScalar k _ => kalign k | CMatrix k _ _ _ => kalign k end.

(* context.rs align_up *)
Definition pad_to (n a : N) : N := if (a =? 0)%N then n else ((n + a - 1) / a * a)%N.

(* CompileCtx while the plan is compiled: reg_map (cells in order of allocation: the register of a cell is its
   index), type section, constant table, the values of the constants (ghost: what each entry encodes), blob *)
Record lstate := { ls_cells : list nat; ls_types : list tentry; ls_consts : list (list N); ls_vals : list cval; ls_blob : bytes }.
Definition ls0 : lstate := {| ls_cells := []; ls_types := []; ls_consts := []; ls_vals := []; ls_blob := [] |}.

Definition reg_of (cells : list nat) (c : nat) : N :=
  match find_idx Nat.eqb c cells with Some i => N.of_nat i | None => 0%N end.

Definition op_instr (f : N) (var : bool) (d : N) (rs : list N) : instr :=
  if var then IVarArg f d rs
  else match rs with
       | [] => INullOp f d
       | [a] => IUnOp f d a
       | [a; b] => IBinOp f d a b
       | [a; b; c] => ITernOp f d a b c
       | [a; b; c; e] => IQuadOp f d a b c e
       | _ => IVarArg f d rs
       end.

Definition lstep (st : lstate) (i : ninstr) : lstate * instr :=
  match i with
  | NCL c v =>
      let '(r, cells) := intern Nat.eqb c (ls_cells st) in
      let '(tid, ts) := intern_kind v (ls_types st) in
      let n := N.of_nat (List.length (ls_blob st)) in
      let off := pad_to n (calign v) in
      let enc := encode_const v in
      ({| ls_cells := cells; ls_types := ts;
          ls_consts := (ls_consts st ++ [[N.of_nat tid; 1; calign v; 0; 0; off; N.of_nat (List.length enc)]%N])%list;
          ls_vals := (ls_vals st ++ [v])%list;
          ls_blob := (ls_blob st ++ repeat 0%N (N.to_nat (off - n)) ++ enc)%list |},
       IConstLoad (N.of_nat r) (N.of_nat (List.length (ls_consts st))))
  | NOP f var d args => (st, op_instr f var (reg_of (ls_cells st) d) (map (reg_of (ls_cells st)) args))
  end.

Fixpoint lower_go (st : lstate) (P : list ninstr) : lstate * list instr :=
  match P with
  | [] => (st, [])
  | i :: r => let '(st1, ci) := lstep st i in let '(st2, cis) := lower_go st1 r in (st2, ci :: cis)
  end.

(* what the model leaves open: the feature words (any order) and the crate version *)
Record lenv := { e_feats : list N; e_mech_ver : N }.
Definition wf_lenv (e : lenv) : bool := forallb u64b (e_feats e) && (e_mech_ver e <? 2 ^ 16)%N.

Definition lower (e : lenv) (P : list ninstr) : program :=
  let '(st, is) := lower_go ls0 P in
  relayout {| p_header := [MAGIC; 1; e_mech_ver e; 0; N.of_nat (List.length (ls_cells st)); 0; 0; 0; 0; 0; 0; 0; 0; 0; 0; 0; 0; 0; 0; 0; 0; 0]%N;
              p_features := e_feats e; p_types := ls_types st; p_consts := ls_consts st; p_blob := ls_blob st;
              p_symbols := []; p_instrs := is; p_dict := [] |}.

(* the register map and the constants of a lowered program *)
Definition lower_cells (P : list ninstr) : list nat := ls_cells (fst (lower_go ls0 P)).
Definition cl_vals (P : list ninstr) : list cval := flat_map (fun i => match i with NCL _ v => [v] | NOP _ _ _ _ => [] end) P.
Definition cl_cells (P : list ninstr) : list nat := flat_map (fun i => match i with NCL c _ => [c] | NOP _ _ _ _ => [] end) P.
Definition alloc_all (cs cells : list nat) : list nat := fold_left (fun acc c => snd (intern Nat.eqb c acc)) cs cells.

(* side conditions of the byte format on an abstract program *)
Definition wf_ninstr (i : ninstr) : bool :=
  match i with
  | NCL _ v => wf_cval v
  | NOP f _ _ args => (f <? 2 ^ 64)%N && (N.of_nat (List.length args) <? 2 ^ 32)%N
  end.
Definition wf_nstep (s : nstep) : bool := (n_fid s <? 2 ^ 64)%N && (N.of_nat (List.length (n_args s)) <? 2 ^ 32)%N.
(* every count, offset and length of the computed header fits its field (u32 counts, u64 offsets) *)
Definition size_ok (e : lenv) (P : list ninstr) : bool := wf_fields header_widths (p_header (lower e P)).
(* the payload length CompileCtx::compile computes (file_len_before_trailer = dict_off + dict_len): header + sections *)
Definition payload_len (e : lenv) (P : list ninstr) : N :=
  (hfield (p_header (lower e P)) 19 + hfield (p_header (lower e P)) 20)%N.

(* ---------- Interpreter::run_program on a loaded program ---------- *)
Inductive cend := CEok | CEerr | CEpanic.
(* a register / constant: Some v for a value of a modelled kind, None for Value::Empty or an opaque kind *)
Record cstate := { c_regs : N -> option cval; c_plan : list (N * N * list N); c_out : option cval }.
Definition cupd (rs : N -> option cval) (r : N) (v : option cval) : N -> option cval :=
  fun r' => if (r' =? r)%N then v else rs r'.
Definition cs0 : cstate := {| c_regs := fun _ => None; c_plan := []; c_out := None |}.

(* function id, destination, operands of an operation instruction *)
Definition op_parts (i : instr) : option (N * N * list N) :=
  match i with
  | INullOp f d => Some (f, d, [])
  | IUnOp f d s => Some (f, d, [s])
  | IBinOp f d l r => Some (f, d, [l; r])
  | ITernOp f d a b c => Some (f, d, [a; b; c])
  | IQuadOp f d a b c e => Some (f, d, [a; b; c; e])
  | IVarArg f d args => Some (f, d, args)
  | _ => None
  end.

(* the function registry of the running interpreter, abstract: which ids have a factory, and whether the factory
   accepts (out, operands) *)
Record registry := { known : N -> bool; factory_ok : N -> option cval -> list (option cval) -> bool }.

Section CRun.
  Variable R : registry.
  Variable nreg : N.                        (* header.reg_count: registers = vec![Empty; reg_count] *)
  Variable K : list (option cval).          (* decode_const_entries *)

  Definition cstep (st : cstate) (i : instr) : cstate * cend :=
    match i with
    | IConstLoad d c =>
        match nth_error K (N.to_nat c) with
        | None => (st, CEpanic)                                   (* self.constants[const_id] *)
        | Some v =>
            if (d <? nreg)%N then ({| c_regs := cupd (c_regs st) d v; c_plan := c_plan st; c_out := c_out st |}, CEok)
            else (st, CEpanic)                                    (* self.registers[dst] *)
        end
    | IRet _ => (st, CEpanic)                                     (* todo!() *)
    | _ =>
        match op_parts i with
        | Some (f, d, args) =>
            if negb (known R f) then (st, CEerr)                  (* Unknown<Arity>Function *)
            else if negb (forallb (fun r => (r <? nreg)%N) (d :: args)) then (st, CEpanic)
            else if negb (factory_ok R f (c_regs st d) (map (c_regs st) args)) then (st, CEerr)
            else ({| c_regs := c_regs st; c_plan := (c_plan st ++ [(f, d, args)])%list; c_out := c_regs st d |}, CEok)
        | None => (st, CEpanic)
        end
    end.

  Fixpoint crun_instrs (is : list instr) (st : cstate) : cstate * cend :=
    match is with
    | [] => (st, CEok)
    | i :: r => match cstep st i with (st', CEok) => crun_instrs r st' | e => e end
    end.

  (* the symbol loop before the instructions: self.out = constants[reg] *)
  Fixpoint crun_syms (ss : list sym) (st : cstate) : cstate * cend :=
    match ss with
    | [] => (st, CEok)
    | (_, _, r) :: rest =>
        match nth_error K (N.to_nat r) with
        | Some v => crun_syms rest {| c_regs := c_regs st; c_plan := c_plan st; c_out := v |}
        | None => (st, CEpanic)
        end
    end.
End CRun.

Definition crun (R : registry) (p : program) : cstate * cend :=
  match decode_consts p with
  | (K, REnd) =>
      match crun_syms K (p_symbols p) cs0 with
      | (st, CEok) => crun_instrs R (hfield (p_header p) 4) K (p_instrs p) st
      | e => e
      end
  | (_, RErr) => (cs0, CEerr)
  | (_, RPanic) => (cs0, CEpanic)
  end.

(* the rebuilt plan step of a named step under a register map *)
Definition lower_nstep (cells : list nat) (s : nstep) : N * N * list N :=
  (n_fid s, reg_of cells (n_out s), map (reg_of cells) (n_args s)).

(* ---------- hypothesis of the refinement: along the abstract run every operation reads registers that were
   const-loaded before it, its function id is registered and its factory accepts the register values ---------- *)
Fixpoint runnable (R : registry) (loaded : list nat) (P : list ninstr) (rs : nat -> cval) : Prop :=
  match P with
  | [] => True
  | NCL c v :: r => runnable R (c :: loaded) r (upd rs c v)
  | NOP f _ d a :: r =>
      (forall x, In x (d :: a) -> In x loaded) /\ known R f = true /\
      factory_ok R f (Some (rs d)) (map (fun x => Some (rs x)) a) = true /\ runnable R loaded r rs
  end.

(* for a plan: every function of the plan is registered and accepts the interpreter's final values *)
Definition plan_accepted (R : registry) (p : list nstep) (final : nat -> cval) : Prop :=
  forall s, In s p -> known R (n_fid s) = true /\
                      factory_ok R (n_fid s) (Some (final (n_out s))) (map (fun x => Some (final x)) (n_args s)) = true.
