(* C07 — the judge of the `loader` suite.  Executable definitions only. *)
From Coq Require Import List NArith ZArith Arith Bool String Ascii.
From MechV Require Import Base.Sexp Base.Obs Model.Crc32 Model.Loader.
Import ListNotations.
Open Scope string_scope.

Fixpoint unhex (s : string) : option (list N) :=
  match s with
  | EmptyString => Some []
  | String a (String b r) =>
      match hexval a, hexval b, unhex r with
      | Some x, Some y, Some l => Some (N.of_nat (16 * x + y) :: l)
      | _, _, _ => None
      end
  | _ => None
  end.

(* ---- burst recognition: mask bits = zeros a ++ w ++ zeros z, hd w = true, |w| <= 32 ---- *)
Fixpoint drop_zeros (l : list bool) : list bool :=
  match l with
  | false :: r => drop_zeros r
  | _ => l
  end.

Definition burst_window (l : list bool) : list bool := List.rev (drop_zeros (List.rev (drop_zeros l))).

Definition is_burst (maskbits : list bool) : bool :=
  let w := burst_window maskbits in
  andb (Nat.leb 1 (List.length w)) (Nat.leb (List.length w) 32).

(* ---- decoding the observation ---- *)
Inductive lobs :=
| LOk (hdr : list N) (consts : list (list N)) (instrs : list sx) (dec : sx) (re : sx)
| LErr (kind : string)
| LPanic      (* a panic of the loader caught by the harness *)
| LDecPanic   (* the container loaded, then decode_const_entries panicked (caught) *)
| LDead       (* the process aborted or hung on this input *)
| LOther.

Definition sx_N (x : sx) : option N := match x with Zx z => if Z.leb 0 z then Some (Z.to_N z) else None | _ => None end.
Definition sx_Ns (x : sx) : option (list N) := match x with Lx l => map_opt sx_N l | _ => None end.

Definition decode_lobs (o : sx) : lobs :=
  match o with
  | Lx [Ax "load"; Lx [Ax "err"; Qx k]] => LErr k
  | Lx [Ax "load"; Lx (Ax "panic" :: _)] => LPanic
  | Lx (Ax "abort" :: _) => LDead
  | Lx [Ax "hang"] => LDead
  | Lx (Ax "load" :: Lx [Ax "ok"] :: Lx (Ax "header" :: hf) :: Lx (Ax "consts" :: cs) :: Lx (Ax "instrs" :: is) :: dec :: re :: _) =>
      match map_opt sx_N hf, map_opt sx_Ns cs with
      | Some h, Some c => match dec with Lx (Ax "panic" :: _) => LDecPanic | _ => LOk h c is dec re end
      | _, _ => LOther
      end
  | _ => LOther
  end.

Definition instr_sx (i : instr) : sx :=
  let z n := Zx (Z.of_N n) in
  match i with
  | IConstLoad d c => Lx [Ax "cl"; z d; z c]
  | INullOp f d => Lx [Ax "nul"; z f; z d]
  | IUnOp f d s => Lx [Ax "un"; z f; z d; z s]
  | IBinOp f d a b => Lx [Ax "bin"; z f; z d; z a; z b]
  | ITernOp f d a b c => Lx [Ax "tern"; z f; z d; z a; z b; z c]
  | IQuadOp f d a b c e => Lx [Ax "quad"; z f; z d; z a; z b; z c; z e]
  | IVarArg f d args => Lx [Ax "var"; z f; z d; Lx (map z args)]
  | IRet s => Lx [Ax "ret"; z s]
  end.

Fixpoint Ns_eqb (a b : list N) : bool :=
  match a, b with
  | [], [] => true
  | x :: a', y :: b' => andb (N.eqb x y) (Ns_eqb a' b')
  | _, _ => false
  end.

Fixpoint Nss_eqb (a b : list (list N)) : bool :=
  match a, b with
  | [], [] => true
  | x :: a', y :: b' => andb (Ns_eqb x y) (Nss_eqb a' b')
  | _, _ => false
  end.

Definition is_crc_error (k : string) : bool := orb (String.eqb k "CrcMismatch") (String.eqb k "FileTooShort").

(* an emitted file: must load, decode to what the model decodes, and re-encode to the same bytes *)
Definition judge_emitted (file : list N) (o : lobs) : sx :=
  if negb (verify file) then v_bad "model-crc-rejects-emitted-file" (Ax "crc")
  else
    match o, fst (load file) with
    | LOk h cs is dec re, Ok m =>
        if negb (Ns_eqb h (l_header m)) then v_bad "header-differs" (Lx (map (fun n => Zx (Z.of_N n)) (l_header m)))
        else if negb (Nss_eqb cs (l_consts m)) then v_bad "const-entries-differ" (Ax "consts")
        else if negb (sxs_eqb is (map instr_sx (l_instrs m))) then v_bad "instructions-differ" (Lx (map instr_sx (l_instrs m)))
        else if negb (sx_eqb re (Lx [Ax "same"])) then v_bad "reencode-differs" (Ax "same")
        else match dec with
             | Lx (Ax "ok" :: _) => v_ok "roundtrip"
             (* known finding: the compiler writes constants of kinds (tuples) for which the constant decoder has no arm *)
             | Lx [Ax "err"; Qx "UnsupportedConstantType"] => v_kf "emitted-constant-undecodable"
             | _ => v_bad "constants-do-not-decode" (Ax "ok")
             end
    | LOk _ _ _ _ _, _ => v_bad "model-rejects-emitted-file" (Ax "model")
    | _, _ => v_bad "emitted-file-not-loaded" (Ax "ok")
    end.

(* a corrupted file that must be rejected *)
Definition judge_reject (tag : string) (o : lobs) : sx :=
  match o with
  | LErr _ => v_ok tag
  | _ => v_bad "corrupted-file-not-rejected" (Ax "err")
  end.

(* arbitrary bytes: any outcome but a panic, abort or hang; the model's verdict is compared for the record *)
Definition judge_any (file : list N) (o : lobs) : sx :=
  match o with
  | LPanic => v_bad "panic" (Ax "ok-or-err")
  | LDecPanic =>
      (* known finding: the constant payload decoders (ConstElem::from_le) are infallible-by-signature and
         panic on malformed payload bytes of a file whose CRC and container bounds are valid *)
      if verify file then v_kf "const-decoder-panic" else v_bad "accepted-with-bad-crc" (Ax "err")
  | LDead => v_bad "abort-or-hang" (Ax "ok-or-err")
  | LOther => v_bad "unreadable-observation" (Ax "ok-or-err")
  | LErr k =>
      if verify file
      then (if String.eqb k "CrcMismatch" then v_bad "crc-disagrees-with-model" (Ax "crc-ok") else v_ok "rejected-after-crc")
      else (if is_crc_error k then v_ok "rejected-by-crc" else v_bad "crc-disagrees-with-model" (Ax "crc-bad"))
  | LOk _ _ _ _ _ =>
      if verify file then (match fst (load file) with Ok _ => v_ok "accepted-agree" | _ => v_ok "accepted-model-stricter" end)
      else v_bad "accepted-with-bad-crc" (Ax "err")
  end.

Definition judge_loader (x : sx) : sx :=
  match x with
  | Lx [Lx [Ax "emitted"; Qx h]; o] =>
      match unhex h with Some f => judge_emitted f (decode_lobs o) | None => v_malformed end
  | Lx [Lx [Ax "burst"; Qx h; Qx h']; o] =>
      match unhex h, unhex h' with
      | Some f, Some f' =>
          if andb (verify f) (andb (Nat.eqb (List.length f) (List.length f')) (is_burst (bits_of_bytes (xor_bytes f f'))))
          then (if verify f' then v_bad "model-accepts-burst" (Ax "impossible") else judge_reject "burst-rejected" (decode_lobs o))
          else v_malformed
      | _, _ => v_malformed
      end
  | Lx [Lx [Ax "trunc"; Qx h; Zx n]; o] =>
      match unhex h with
      | Some f =>
          let f' := firstn (Z.to_nat n) f in
          if andb (verify f) (Nat.ltb (List.length f') (List.length f))
          then (if verify f' then v_adv "truncation-crc-coincidence" else judge_reject "truncation-rejected" (decode_lobs o))
          else v_malformed
      | None => v_malformed
      end
  | Lx [Lx [Ax "any"; Qx h]; o] =>
      match unhex h with Some f => judge_any f (decode_lobs o) | None => v_malformed end
  | Lx [Lx [Ax "crc"; Qx h]; Lx [Ax "crc"; Zx c]] =>      (* crc32fast value computed by the harness *)
      match unhex h with Some f => if N.eqb (crc32 f) (Z.to_N c) then v_ok "crc-agrees" else v_bad "crc-differs" (Zx (Z.of_N (crc32 f))) | None => v_malformed end
  | _ => v_malformed
  end.

Definition run_line (s : string) : string := run_with judge_loader s.
