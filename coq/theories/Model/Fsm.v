(* C17 — state machines run their declared transitions to the terminal state.
   Executable definitions only (proofs: Proofs/FsmP.v, statements: Props/C17.v).

   Model of src/interpreter/src/state_machines.rs + patterns.rs for the language
   family the generator (gen/c17.py) produces:

   * values: u64 scalars and u64 row vectors (the only vectors the array-pattern
     reconstruction `build_row_matrix_from_values` keeps typed);
   * a declaration = optional specification (`#M(in<k>..) => <out>` + declared
     states with payload kinds) and an implementation (start state, arms).  An arm is
     `:State(pattern..)` followed by ONE plain transition (`-> :Next(e..)` / `=> e`)
     or by guarded branches (`guard -> :Next(e..)` / `guard => e`);
   * [run]: the loop of execute_fsm_pipe_impl: at most [max_steps] iterations; in each
     one the arms are tried in order, an arm applies when its pattern matches the current
     state (after clearing the pattern's variables from the environment, which otherwise
     PERSISTS from iteration to iteration exactly as `*call_env = arm_env` does); a plain
     arm fires at once, a guard arm fires its first guard that evaluates to true and
     falls through to the following arms when none does; `=>` ends the run with a value,
     no applicable arm halts ("stuck": the interpreter returns the state tuple), running
     out of iterations is the FsmExceededTransitionLimit error;
   * [run_fsm]: execute_fsm_pipe: argument count and kinds (fsm_argument_kind_matches),
     start state evaluation, validate_fsm_state_coverage / validate_transition_target_state
     (which look ONLY at the states that have an arm - the specification's state list and
     output kind are never consulted by the code), then [run].
   * arithmetic is u64 in the dev profile: a result outside 0..2^64-1 is an error. *)
From Coq Require Import List ZArith String Bool Arith.
From MechV Require Import Base.Sexp Base.Obs.
Import ListNotations.
Open Scope string_scope.
Open Scope list_scope.

(* ------------------------------------------------------------------ values *)
Inductive value : Type := VNum (z : Z) | VVec (l : list Z).

Definition U64MAX : Z := 18446744073709551615%Z.
Definition in_u64 (z : Z) : bool := andb (0 <=? z)%Z (z <=? U64MAX)%Z.

Fixpoint zs_eqb (a b : list Z) : bool :=
  match a, b with
  | [], [] => true
  | x :: a', y :: b' => andb (Z.eqb x y) (zs_eqb a' b')
  | _, _ => false
  end.

Definition value_eqb (a b : value) : bool :=
  match a, b with
  | VNum x, VNum y => Z.eqb x y
  | VVec x, VVec y => zs_eqb x y
  | _, _ => false
  end.

Inductive res (A : Type) : Type := Ok (a : A) | Err.
Arguments Ok {A} _.
Arguments Err {A}.

Definition env := list (string * value).

Fixpoint lookup {A} (e : list (string * A)) (x : string) : option A :=
  match e with
  | [] => None
  | (y, v) :: r => if String.eqb x y then Some v else lookup r x
  end.

Fixpoint memb (x : string) (l : list string) : bool :=
  match l with [] => false | y :: r => orb (String.eqb x y) (memb x r) end.

(* HashMap::remove for every name of a list (clear_pattern_bindings) *)
Definition remove_all (xs : list string) (e : env) : env :=
  filter (fun p => negb (memb (fst p) xs)) e.

(* HashMap::insert *)
Definition set_var (e : env) (x : string) (v : value) : env := (x, v) :: remove_all [x] e.

(* ------------------------------------------------------------- expressions *)
Inductive atom : Type := AVar (x : string) | ALit (z : Z).

Inductive expr : Type :=
| EAtom (a : atom)
| EAdd (a b : expr)
| ESub (a b : expr)
| EMul (a b : expr)
| EArr (items : list atom).          (* [a b c]: scalars and vectors, flattened into one row *)

Definition eval_atom (e : env) (a : atom) : res value :=
  match a with
  | AVar x => match lookup e x with Some v => Ok v | None => Err end
  | ALit z => if in_u64 z then Ok (VNum z) else Err
  end.

Fixpoint eval_items (e : env) (l : list atom) : res (list Z) :=
  match l with
  | [] => Ok []
  | a :: r =>
      match eval_atom e a, eval_items e r with
      | Ok (VNum z), Ok zs => Ok (z :: zs)
      | Ok (VVec l'), Ok zs => Ok (l' ++ zs)
      | _, _ => Err
      end
  end.

Definition arith (f : Z -> Z -> Z) (a b : res value) : res value :=
  match a, b with
  | Ok (VNum x), Ok (VNum y) => if in_u64 (f x y) then Ok (VNum (f x y)) else Err
  | _, _ => Err
  end.

Fixpoint eval (e : env) (x : expr) : res value :=
  match x with
  | EAtom a => eval_atom e a
  | EAdd a b => arith Z.add (eval e a) (eval e b)
  | ESub a b => arith Z.sub (eval e a) (eval e b)
  | EMul a b => arith Z.mul (eval e a) (eval e b)
  | EArr items => match eval_items e items with Ok l => Ok (VVec l) | Err => Err end
  end.

Fixpoint eval_list (e : env) (xs : list expr) : res (list value) :=
  match xs with
  | [] => Ok []
  | x :: r => match eval e x, eval_list e r with Ok v, Ok vs => Ok (v :: vs) | _, _ => Err end
  end.

(* ------------------------------------------------------------------ guards *)
Inductive cmp : Type := CGt | CLt | CGe | CLe | CEq | CNe.

Definition cmp_eval (c : cmp) (x y : Z) : bool :=
  match c with
  | CGt => (y <? x)%Z | CLt => (x <? y)%Z | CGe => (y <=? x)%Z | CLe => (x <=? y)%Z
  | CEq => (x =? y)%Z | CNe => negb (x =? y)%Z
  end.

Inductive guard : Type :=
| GWild
| GCmp (c : cmp) (a b : expr)
| GAnd (g h : guard)
| GOr (g h : guard)
| GNot (g : guard).

Fixpoint eval_guard (e : env) (g : guard) : res bool :=
  match g with
  | GWild => Ok true
  | GCmp c a b =>
      match eval e a, eval e b with
      | Ok (VNum x), Ok (VNum y) => Ok (cmp_eval c x y)
      | _, _ => Err
      end
  | GAnd g h => match eval_guard e g, eval_guard e h with Ok x, Ok y => Ok (andb x y) | _, _ => Err end
  | GOr g h => match eval_guard e g, eval_guard e h with Ok x, Ok y => Ok (orb x y) | _, _ => Err end
  | GNot g => match eval_guard e g with Ok x => Ok (negb x) | Err => Err end
  end.

(* ---------------------------------------------------------------- patterns *)
Inductive ipat : Type := IVar (x : string) | ILit (z : Z).
Inductive spread : Type := SNone | SAnon | SRest (x : string).
Inductive pat : Type :=
| PVar (x : string)
| PLit (z : Z)
| PWild
| PArr (pre : list ipat) (sp : spread) (suf : list ipat).

(* Pattern::Expression(Var): bound already -> compare, otherwise bind *)
Definition bind_var (e : env) (x : string) (v : value) : option env :=
  match lookup e x with
  | Some v' => if value_eqb v' v then Some e else None
  | None => Some ((x, v) :: e)
  end.

Definition match_ipat (e : env) (p : ipat) (z : Z) : option env :=
  match p with
  | IVar x => bind_var e x (VNum z)
  | ILit n => if Z.eqb n z then Some e else None
  end.

Fixpoint match_ipats (e : env) (ps : list ipat) (zs : list Z) : option env :=
  match ps, zs with
  | [], _ => Some e
  | p :: ps', z :: zs' => match match_ipat e p z with Some e' => match_ipats e' ps' zs' | None => None end
  | _ :: _, [] => None
  end.

Definition match_pat (e : env) (p : pat) (v : value) : option env :=
  match p, v with
  | PWild, _ => Some e
  | PVar x, _ => bind_var e x v
  | PLit n, VNum z => if Z.eqb n z then Some e else None
  | PLit _, VVec _ => None
  | PArr _ _ _, VNum _ => None
  | PArr pre sp suf, VVec l =>
      let np := List.length pre in
      let ns := List.length suf in
      let n := List.length l in
      if Nat.ltb n (np + ns) then None
      else match match_ipats e pre l with
           | None => None
           | Some e1 =>
               match match_ipats e1 suf (skipn (n - ns) l) with
               | None => None
               | Some e2 =>
                   match sp with
                   | SNone => if Nat.eqb n (np + ns) then Some e2 else None
                   | SAnon => Some e2
                   | SRest x => bind_var e2 x (VVec (firstn (n - ns - np) (skipn np l)))
                   end
               end
           end
  end.

Fixpoint match_pats (e : env) (ps : list pat) (vs : list value) : option env :=
  match ps, vs with
  | [], [] => Some e
  | p :: ps', v :: vs' => match match_pat e p v with Some e' => match_pats e' ps' vs' | None => None end
  | _, _ => None
  end.

Definition ipat_vars (p : ipat) : list string := match p with IVar x => [x] | ILit _ => [] end.
Definition pat_vars (p : pat) : list string :=
  match p with
  | PVar x => [x]
  | PLit _ | PWild => []
  | PArr pre sp suf =>
      flat_map ipat_vars pre ++ (match sp with SRest x => [x] | _ => [] end) ++ flat_map ipat_vars suf
  end.

(* -------------------------------------------------------------- declaration *)
Inductive target : Type := TNext (s : string) (args : list expr) | TOut (e : expr).
Inductive body : Type := BT (t : target) | BG (gs : list (guard * target)).
Record arm : Type := Arm { a_state : string; a_pats : list pat; a_body : body }.

Inductive kind : Type :=
| KS (name : string)                         (* <u64> *)
| KV (elem : string)                         (* <[u64]> *)
| KVN (elem : string) (r c : nat).           (* <[u64]:r,c> *)

Record decl : Type := Decl {
  d_inputs : list (string * option kind);
  d_out : option kind;
  d_spec : option (list (string * list kind));   (* declared states and payload kinds *)
  d_start : string * list expr;
  d_arms : list arm }.

Definition state : Type := (string * list value)%type.

Definition match_arm (e : env) (st : state) (a : arm) : option env :=
  if andb (String.eqb (a_state a) (fst st)) (Nat.eqb (List.length (a_pats a)) (List.length (snd st)))
  then match_pats (remove_all (flat_map pat_vars (a_pats a)) e) (a_pats a) (snd st)
  else None.

(* first guard of a guard arm that evaluates to true (index, target) *)
Fixpoint first_guard (e : env) (gs : list (guard * target)) (j : nat) : res (option (nat * target)) :=
  match gs with
  | [] => Ok None
  | (g, t) :: r =>
      match eval_guard e g with
      | Err => Err
      | Ok true => Ok (Some (j, t))
      | Ok false => first_guard e r (S j)
      end
  end.

Inductive sel : Type :=
| SelNone                                                     (* no arm applies: halt *)
| SelErr                                                      (* a guard failed to evaluate *)
| Sel (ai : nat) (gi : option nat) (e' : env) (t : target).   (* arm ai (guard gi) fires *)

Fixpoint select (e : env) (st : state) (arms : list arm) (i : nat) : sel :=
  match arms with
  | [] => SelNone
  | a :: r =>
      match match_arm e st a with
      | None => select e st r (S i)
      | Some e' =>
          match a_body a with
          | BT t => Sel i None e' t
          | BG gs =>
              match first_guard e' gs 0 with
              | Err => SelErr
              | Ok (Some (j, t)) => Sel i (Some j) e' t
              | Ok None => select e st r (S i)
              end
          end
      end
  end.

Record visit : Type := Visit { v_state : state; v_arm : option (nat * option nat) }.

Inductive outcome : Type :=
| ODone (v : value)          (* an output arm fired *)
| OStuck                     (* no arm applies (the interpreter returns the state tuple) *)
| OLimit (st : state)        (* max_steps iterations used up; st = state not examined any more *)
| OErr.                      (* an expression failed to evaluate *)

Fixpoint run (arms : list arm) (fuel : nat) (e : env) (st : state) : list visit * outcome :=
  match fuel with
  | O => ([], OLimit st)
  | S f =>
      match select e st arms 0 with
      | SelNone => ([Visit st None], OStuck)
      | SelErr => ([Visit st None], OErr)
      | Sel i g e' (TOut x) =>
          match eval e' x with
          | Ok v => ([Visit st (Some (i, g))], ODone v)
          | Err => ([Visit st (Some (i, g))], OErr)
          end
      | Sel i g e' (TNext s xs) =>
          match eval_list e' xs with
          | Ok vs => let (tr, o) := run arms f e' (s, vs) in (Visit st (Some (i, g)) :: tr, o)
          | Err => ([Visit st (Some (i, g))], OErr)
          end
      end
  end.

(* ------------------------------------------------------------------ scoping *)
(* The interpreter keeps ONE environment for the whole run (`*call_env = arm_env`): variables bound by
   the pattern of one arm stay visible in later iterations.  [run_lex] is the lexically scoped reading
   (every iteration starts from the environment of the machine's inputs); [well_scoped] is the
   condition under which the two coincide (Proofs/FsmP.v, lexical_scoping): every arm uses only the
   variables of its own pattern and machine inputs that no pattern anywhere rebinds. *)
Fixpoint run_lex (arms : list arm) (fuel : nat) (e0 : env) (st : state) : list visit * outcome :=
  match fuel with
  | O => ([], OLimit st)
  | S f =>
      match select e0 st arms 0 with
      | SelNone => ([Visit st None], OStuck)
      | SelErr => ([Visit st None], OErr)
      | Sel i g e' (TOut x) =>
          match eval e' x with
          | Ok v => ([Visit st (Some (i, g))], ODone v)
          | Err => ([Visit st (Some (i, g))], OErr)
          end
      | Sel i g e' (TNext s xs) =>
          match eval_list e' xs with
          | Ok vs => let (tr, o) := run_lex arms f e0 (s, vs) in (Visit st (Some (i, g)) :: tr, o)
          | Err => ([Visit st (Some (i, g))], OErr)
          end
      end
  end.

Definition atom_fv (a : atom) : list string := match a with AVar x => [x] | ALit _ => [] end.

Fixpoint expr_fv (x : expr) : list string :=
  match x with
  | EAtom a => atom_fv a
  | EAdd a b | ESub a b | EMul a b => expr_fv a ++ expr_fv b
  | EArr items => flat_map atom_fv items
  end.

Fixpoint guard_fv (g : guard) : list string :=
  match g with
  | GWild => []
  | GCmp _ a b => expr_fv a ++ expr_fv b
  | GAnd g h | GOr g h => guard_fv g ++ guard_fv h
  | GNot g => guard_fv g
  end.

Definition target_fv (t : target) : list string :=
  match t with TNext _ xs => flat_map expr_fv xs | TOut x => expr_fv x end.

Definition arm_pat_vars (a : arm) : list string := flat_map pat_vars (a_pats a).

(* machine inputs that no pattern of the declaration rebinds *)
Definition free_inputs (inputs : list string) (arms : list arm) : list string :=
  filter (fun x => negb (memb x (flat_map arm_pat_vars arms))) inputs.

Definition fv_ok (a : arm) (u : list string) (fv : list string) : bool :=
  forallb (fun x => orb (memb x (arm_pat_vars a)) (memb x u)) fv.

Definition arm_scoped (u : list string) (a : arm) : bool :=
  match a_body a with
  | BT t => fv_ok a u (target_fv t)
  | BG gs => forallb (fun gt => andb (fv_ok a u (guard_fv (fst gt))) (fv_ok a u (target_fv (snd gt)))) gs
  end.

Definition well_scoped (d : decl) : bool :=
  forallb (arm_scoped (free_inputs (map fst (d_inputs d)) (d_arms d))) (d_arms d).

(* ------------------------------------------------------- invocation arguments *)
Inductive arg : Type :=
| AS (k : string) (z : Z)                         (* scalar of kind k (payload as canon prints it) *)
| AM (elem : string) (r c : nat) (d : list Z).    (* matrix, row-major = column-major for vectors *)

Definition kind_eqb (a b : kind) : bool :=
  match a, b with
  | KS x, KS y => String.eqb x y
  | KV x, KV y => String.eqb x y
  | KVN x r c, KVN y r' c' => andb (String.eqb x y) (andb (Nat.eqb r r') (Nat.eqb c c'))
  | _, _ => false
  end.

Definition kind_of_arg (a : arg) : kind :=
  match a with AS k _ => KS k | AM el r c _ => KVN el r c end.

(* fsm_argument_kind_matches: an unsized matrix kind accepts every shape of the same element kind *)
Definition kind_matches (expected actual : kind) : bool :=
  match expected, actual with
  | KV el, KVN el' _ _ => String.eqb el el'
  | _, _ => kind_eqb expected actual
  end.

(* the values this model can compute with: u64 scalars and u64 row vectors *)
Definition arg_value (a : arg) : option value :=
  match a with
  | AS k z => if andb (String.eqb k "u64") (in_u64 z) then Some (VNum z) else None
  | AM el r c d =>
      if andb (andb (String.eqb el "u64") (Nat.eqb r 1))
              (andb (Nat.eqb (List.length d) c) (forallb in_u64 d))
      then Some (VVec d) else None
  end.

Fixpoint args_kinds_ok (ins : list (string * option kind)) (args : list arg) : bool :=
  match ins, args with
  | [], [] => true
  | (_, None) :: ins', _ :: args' => args_kinds_ok ins' args'
  | (_, Some k) :: ins', a :: args' => andb (kind_matches k (kind_of_arg a)) (args_kinds_ok ins' args')
  | _, _ => false
  end.

Fixpoint bind_inputs (e : env) (names : list string) (vs : list value) : env :=
  match names, vs with
  | x :: ns, v :: vs' => bind_inputs (set_var e x v) ns vs'
  | _, _ => e
  end.

(* ------------------------------------------------------------------ validation *)
Definition arm_names (d : decl) : list string := map a_state (d_arms d).
Definition body_targets (b : body) : list target :=
  match b with BT t => [t] | BG gs => map snd gs end.
Definition target_names (t : target) : list string :=
  match t with TNext s _ => [s] | TOut _ => [] end.
Definition arm_target_names (a : arm) : list string := flat_map target_names (body_targets (a_body a)).

(* validate_fsm_state_coverage + validate_transition_target_state: start state and every
   transition target must be a state that has an arm *)
Definition validate (d : decl) : bool :=
  match arm_names d with
  | [] => true
  | names =>
      andb (memb (fst (d_start d)) names)
           (forallb (fun a => forallb (fun s => memb s names) (arm_target_names a)) (d_arms d))
  end.

(* what the PROPERTY calls ill-formed: the declared states are those of the specification
   (when there is none, the states the implementation gives an arm to) *)
Definition declared (d : decl) : list string :=
  match d_spec d with Some sts => map fst sts | None => arm_names d end.
Definition all_targets (d : decl) : list string :=
  fst (d_start d) :: flat_map arm_target_names (d_arms d).
Definition undeclared_target (d : decl) : bool :=
  existsb (fun s => negb (memb s (declared d))) (all_targets d).
Definition armless_declared (d : decl) : bool :=
  existsb (fun s => negb (memb s (arm_names d))) (declared d).
Definition ill_formed (d : decl) : bool := orb (undeclared_target d) (armless_declared d).

(* known findings: ill-formed declarations the code accepts *)
Definition kf_undeclared_with_arm (d : decl) : bool := andb (validate d) (undeclared_target d).
Definition kf_armless_unreferenced (d : decl) : bool :=
  andb (validate d) (andb (negb (undeclared_target d)) (armless_declared d)).

(* ------------------------------------------------------------------- invocation *)
Inductive reject : Type := RjArgCount | RjArgKind | RjState.

Inductive result : Type :=
| RReject (why : reject)                 (* error before any state is visited *)
| RUnmodelled                            (* accepted arguments this model has no values for *)
| RStartErr                              (* the start state's payload failed to evaluate *)
| RRun (tr : list visit) (o : outcome).

Definition args_wrong (d : decl) (args : list arg) : bool :=
  orb (negb (Nat.eqb (List.length (d_inputs d)) (List.length args)))
      (negb (args_kinds_ok (d_inputs d) args)).

Definition run_fsm (max_steps : nat) (d : decl) (args : list arg) : result :=
  if negb (Nat.eqb (List.length (d_inputs d)) (List.length args)) then RReject RjArgCount
  else if negb (args_kinds_ok (d_inputs d) args) then RReject RjArgKind
  else match map_opt arg_value args with
       | None => RUnmodelled
       | Some vals =>
           let e0 := bind_inputs [] (map fst (d_inputs d)) vals in
           match eval_list e0 (snd (d_start d)) with
           | Err => RStartErr
           | Ok vs =>
               if negb (validate d) then RReject RjState
               else let (tr, o) := run (d_arms d) max_steps e0 (fst (d_start d), vs) in RRun tr o
           end
       end.

(* -------------------------------------------------------------------- typing *)
(* a simple kind discipline under which the output kind is guaranteed *)
Inductive ty : Type := TyNum | TyVec.
Definition ty_eqb (a b : ty) : bool := match a, b with TyNum, TyNum | TyVec, TyVec => true | _, _ => false end.

Definition ty_of_kind (k : kind) : option ty :=
  match k with
  | KS n => if String.eqb n "u64" then Some TyNum else None
  | KV el => if String.eqb el "u64" then Some TyVec else None
  | KVN el r _ => if andb (String.eqb el "u64") (Nat.eqb r 1) then Some TyVec else None
  end.

Definition has_ty (v : value) (t : ty) : bool :=
  match v, t with
  | VNum z, TyNum => in_u64 z
  | VVec l, TyVec => forallb in_u64 l
  | _, _ => false
  end.

Definition ctx := list (string * ty).

Definition ty_atom (c : ctx) (a : atom) : option ty :=
  match a with AVar x => lookup c x | ALit z => if in_u64 z then Some TyNum else None end.

Definition is_num (o : option ty) : bool := match o with Some TyNum => true | _ => false end.

Fixpoint ty_expr (c : ctx) (x : expr) : option ty :=
  match x with
  | EAtom a => ty_atom c a
  | EAdd a b | ESub a b | EMul a b => if andb (is_num (ty_expr c a)) (is_num (ty_expr c b)) then Some TyNum else None
  | EArr items => if forallb (fun a => match ty_atom c a with Some _ => true | None => false end) items
                  then Some TyVec else None
  end.

Fixpoint wt_guard (c : ctx) (g : guard) : bool :=
  match g with
  | GWild => true
  | GCmp _ a b => andb (is_num (ty_expr c a)) (is_num (ty_expr c b))
  | GAnd g h | GOr g h => andb (wt_guard c g) (wt_guard c h)
  | GNot g => wt_guard c g
  end.

Definition ipat_ctx (p : ipat) : ctx := match p with IVar x => [(x, TyNum)] | ILit _ => [] end.

Definition pat_ctx (p : pat) (t : ty) : option ctx :=
  match p, t with
  | PVar x, _ => Some [(x, t)]
  | PWild, _ => Some []
  | PLit z, TyNum => Some []
  | PLit _, TyVec => None
  | PArr pre sp suf, TyVec =>
      Some (flat_map ipat_ctx pre ++ (match sp with SRest x => [(x, TyVec)] | _ => [] end) ++ flat_map ipat_ctx suf)
  | PArr _ _ _, TyNum => None
  end.

Fixpoint pats_ctx (ps : list pat) (ts : list ty) : option ctx :=
  match ps, ts with
  | [], [] => Some []
  | p :: ps', t :: ts' =>
      match pat_ctx p t, pats_ctx ps' ts' with Some c1, Some c2 => Some (c1 ++ c2) | _, _ => None end
  | _, _ => None
  end.

Fixpoint nodupb (l : list string) : bool :=
  match l with [] => true | x :: r => andb (negb (memb x r)) (nodupb r) end.

Definition sig := list (string * list ty).

Fixpoint tys_exprs (c : ctx) (xs : list expr) (ts : list ty) : bool :=
  match xs, ts with
  | [], [] => true
  | x :: xs', t :: ts' =>
      andb (match ty_expr c x with Some t' => ty_eqb t' t | None => false end) (tys_exprs c xs' ts')
  | _, _ => false
  end.

Definition wt_target (sg : sig) (out : ty) (c : ctx) (t : target) : bool :=
  match t with
  | TNext s xs => match lookup sg s with Some ts => tys_exprs c xs ts | None => false end
  | TOut x => match ty_expr c x with Some t' => ty_eqb t' out | None => false end
  end.

Definition wt_body (sg : sig) (out : ty) (c : ctx) (b : body) : bool :=
  match b with
  | BT t => wt_target sg out c t
  | BG gs => forallb (fun gt => andb (wt_guard c (fst gt)) (wt_target sg out c (snd gt))) gs
  end.

Definition wt_arm (sg : sig) (out : ty) (a : arm) : bool :=
  match lookup sg (a_state a) with
  | None => false
  | Some ts =>
      match pats_ctx (a_pats a) ts with
      | None => false
      | Some c => andb (nodupb (map fst c)) (wt_body sg out c (a_body a))
      end
  end.

Definition sig_of_spec (sts : list (string * list kind)) : option sig :=
  map_opt (fun st => match map_opt ty_of_kind (snd st) with Some ts => Some (fst st, ts) | None => None end) sts.

Definition inputs_ctx (ins : list (string * option kind)) : option ctx :=
  map_opt (fun i => match snd i with
                    | Some k => match ty_of_kind k with Some t => Some (fst i, t) | None => None end
                    | None => None end) ins.

(* the declared output type *)
Definition out_ty (d : decl) : option ty :=
  match d_out d with Some k => ty_of_kind k | None => None end.

Definition wt_decl (d : decl) : bool :=
  match d_spec d, out_ty d, inputs_ctx (d_inputs d) with
  | Some sts, Some out, Some ic =>
      match sig_of_spec sts with
      | None => false
      | Some sg =>
          andb (andb (nodupb (map fst ic))
                     (wt_target sg out ic (TNext (fst (d_start d)) (snd (d_start d)))))
               (forallb (wt_arm sg out) (d_arms d))
      end
  | _, _, _ => false
  end.

(* ------------------------------------------------------------------ S-expressions *)
(* case ::= (case <decl> (args <arg> ...) <max_steps>)   -- grammar documented in gen/c17.py *)
Definition tagged (x : sx) : option (string * list sx) :=
  match x with Lx (Ax t :: r) => Some (t, r) | _ => None end.

Definition dec_atom (x : sx) : option atom :=
  match tagged x with
  | Some (t, [a]) =>
      if String.eqb t "var" then option_map AVar (sx_str a)
      else if String.eqb t "lit" then option_map ALit (sx_Z a)
      else None
  | _ => None
  end.

Fixpoint dec_expr (x : sx) : option expr :=
  match x with
  | Lx (Ax t :: r) =>
      if String.eqb t "arr" then option_map EArr (map_opt dec_atom r)
      else match r with
           | [a] => option_map EAtom (dec_atom x)
           | [a; b] =>
               match dec_expr a, dec_expr b with
               | Some ea, Some eb =>
                   if String.eqb t "add" then Some (EAdd ea eb)
                   else if String.eqb t "sub" then Some (ESub ea eb)
                   else if String.eqb t "mul" then Some (EMul ea eb)
                   else None
               | _, _ => None
               end
           | _ => None
           end
  | _ => None
  end.

Definition dec_cmp (x : sx) : option cmp :=
  match x with
  | Ax t =>
      if String.eqb t "gt" then Some CGt else if String.eqb t "lt" then Some CLt
      else if String.eqb t "ge" then Some CGe else if String.eqb t "le" then Some CLe
      else if String.eqb t "eq" then Some CEq else if String.eqb t "ne" then Some CNe else None
  | _ => None
  end.

Fixpoint dec_guard (x : sx) : option guard :=
  match x with
  | Lx (Ax t :: r) =>
      match r with
      | [] => if String.eqb t "wild" then Some GWild else None
      | [g] => if String.eqb t "not" then option_map GNot (dec_guard g) else None
      | [g; h] =>
          if String.eqb t "and" then
            match dec_guard g, dec_guard h with Some a, Some b => Some (GAnd a b) | _, _ => None end
          else if String.eqb t "or" then
            match dec_guard g, dec_guard h with Some a, Some b => Some (GOr a b) | _, _ => None end
          else None
      | [c; a; b] =>
          if String.eqb t "cmp" then
            match dec_cmp c, dec_expr a, dec_expr b with
            | Some c', Some ea, Some eb => Some (GCmp c' ea eb)
            | _, _, _ => None
            end
          else None
      | _ => None
      end
  | _ => None
  end.

Definition dec_ipat (x : sx) : option ipat :=
  match tagged x with
  | Some (t, [a]) =>
      if String.eqb t "pv" then option_map IVar (sx_str a)
      else if String.eqb t "pl" then option_map ILit (sx_Z a)
      else None
  | _ => None
  end.

Definition dec_spread (x : sx) : option spread :=
  match tagged x with
  | Some (t, []) => if String.eqb t "snone" then Some SNone else if String.eqb t "sanon" then Some SAnon else None
  | Some (t, [a]) => if String.eqb t "srest" then option_map SRest (sx_str a) else None
  | _ => None
  end.

Definition dec_pat (x : sx) : option pat :=
  match tagged x with
  | Some (t, []) => if String.eqb t "pw" then Some PWild else None
  | Some (t, [a]) =>
      if String.eqb t "pv" then option_map PVar (sx_str a)
      else if String.eqb t "pl" then option_map PLit (sx_Z a)
      else None
  | Some (t, [Lx pre; sp; Lx suf]) =>
      if String.eqb t "pa" then
        match map_opt dec_ipat pre, dec_spread sp, map_opt dec_ipat suf with
        | Some p, Some s, Some q => Some (PArr p s q)
        | _, _, _ => None
        end
      else None
  | _ => None
  end.

Definition dec_target (x : sx) : option target :=
  match tagged x with
  | Some (t, [a]) => if String.eqb t "out" then option_map TOut (dec_expr a) else None
  | Some (t, [s; Lx xs]) =>
      if String.eqb t "next" then
        match sx_str s, map_opt dec_expr xs with Some n, Some es => Some (TNext n es) | _, _ => None end
      else None
  | _ => None
  end.

Definition dec_gt (x : sx) : option (guard * target) :=
  match x with
  | Lx [g; t] => match dec_guard g, dec_target t with Some a, Some b => Some (a, b) | _, _ => None end
  | _ => None
  end.

Definition dec_body (x : sx) : option body :=
  match tagged x with
  | Some (t, r) =>
      if String.eqb t "t" then match r with [a] => option_map BT (dec_target a) | _ => None end
      else if String.eqb t "g" then option_map BG (map_opt dec_gt r)
      else None
  | None => None
  end.

Definition dec_arm (x : sx) : option arm :=
  match tagged x with
  | Some (t, [s; Lx ps; b]) =>
      if String.eqb t "arm" then
        match sx_str s, map_opt dec_pat ps, dec_body b with
        | Some n, Some p, Some bb => Some (Arm n p bb)
        | _, _, _ => None
        end
      else None
  | _ => None
  end.

Definition sx_nat (x : sx) : option nat :=
  match x with Zx z => if (0 <=? z)%Z then Some (Z.to_nat z) else None | _ => None end.

Definition dec_kind (x : sx) : option kind :=
  match tagged x with
  | Some (t, [a]) =>
      if String.eqb t "ks" then option_map KS (sx_str a)
      else if String.eqb t "kv" then option_map KV (sx_str a)
      else None
  | Some (t, [a; r; c]) =>
      if String.eqb t "kvn" then
        match sx_str a, sx_nat r, sx_nat c with Some el, Some r', Some c' => Some (KVN el r' c') | _, _, _ => None end
      else None
  | _ => None
  end.

Definition dec_okind (x : sx) : option (option kind) :=
  match x with
  | Lx [Ax t] => if String.eqb t "none" then Some None else None
  | _ => option_map Some (dec_kind x)
  end.

Definition dec_input (x : sx) : option (string * option kind) :=
  match x with
  | Lx [Ax _; n; k] => match sx_str n, dec_okind k with Some a, Some b => Some (a, b) | _, _ => None end
  | _ => None
  end.

Definition dec_state_decl (x : sx) : option (string * list kind) :=
  match x with
  | Lx [Ax _; n; Lx ks] => match sx_str n, map_opt dec_kind ks with Some a, Some b => Some (a, b) | _, _ => None end
  | _ => None
  end.

Definition dec_spec (x : sx) : option (option (list (string * list kind))) :=
  match tagged x with
  | Some (t, r) =>
      if String.eqb t "nospec" then Some None
      else if String.eqb t "spec" then option_map Some (map_opt dec_state_decl r)
      else None
  | None => None
  end.

Definition dec_decl (x : sx) : option decl :=
  match x with
  | Lx [Ax _; _name; Lx (Ax _ :: ins); out; spec; Lx [Ax _; s0; Lx xs0]; Lx (Ax _ :: arms)] =>
      match map_opt dec_input ins, dec_okind out, dec_spec spec, sx_str s0, map_opt dec_expr xs0, map_opt dec_arm arms with
      | Some i, Some o, Some sp, Some s, Some xs, Some a => Some (Decl i o sp (s, xs) a)
      | _, _, _, _, _, _ => None
      end
  | _ => None
  end.

Definition dec_arg (x : sx) : option arg :=
  match tagged x with
  | Some (t, [k; z]) =>
      if String.eqb t "as" then match sx_str k, sx_Z z with Some a, Some b => Some (AS a b) | _, _ => None end else None
  | Some (t, [k; r; c; d]) =>
      if String.eqb t "am" then
        match sx_str k, sx_nat r, sx_nat c, sx_Zs d with
        | Some a, Some r', Some c', Some l => Some (AM a r' c' l)
        | _, _, _, _ => None
        end
      else None
  | _ => None
  end.

Record case : Type := Case { c_decl : decl; c_args : list arg; c_max : nat }.

Definition dec_case (x : sx) : option case :=
  match x with
  | Lx [Ax _; d; Lx (Ax _ :: args); m] =>
      match dec_decl d, map_opt dec_arg args, sx_nat m with
      | Some dd, Some aa, Some mm => Some (Case dd aa mm)
      | _, _, _ => None
      end
  | _ => None
  end.

(* ---- observation: (fsm <res> (trace (visit "A" (<pl> ...) arm guard) ...) (last "A" (<pl> ...)) or (last) *)
Inductive opl : Type := ONum (z : Z) | OVec (r c : nat) | ORaw.

Definition dec_opl (x : sx) : opl :=
  match x with
  | Lx [Ax t; k; Zx z] =>
      if andb (String.eqb t "n") (match sx_str k with Some s => String.eqb s "u64" | None => false end)
      then ONum z else ORaw
  | Lx [Ax t; k; Zx r; Zx c] =>
      if andb (String.eqb t "vec") (match sx_str k with Some s => String.eqb s "u64" | None => false end)
      then (if andb (0 <=? r)%Z (0 <=? c)%Z then OVec (Z.to_nat r) (Z.to_nat c) else ORaw) else ORaw
  | _ => ORaw
  end.

Record ovisit : Type := OVisit { ov_name : string; ov_payload : list opl; ov_arm : Z; ov_guard : Z }.

Definition dec_ovisit (x : sx) : option ovisit :=
  match x with
  | Lx [Ax _; n; Lx ps; Zx a; Zx g] =>
      match sx_str n with Some s => Some (OVisit s (map dec_opl ps) a g) | None => None end
  | _ => None
  end.

Definition dec_last (x : sx) : option (option (string * list opl)) :=
  match x with
  | Lx [Ax _] => Some None
  | Lx [Ax _; n; Lx ps] => match sx_str n with Some s => Some (Some (s, map dec_opl ps)) | None => None end
  | _ => None
  end.

Record fobs : Type := FObs { o_res : sx; o_trace : list ovisit; o_last : option (string * list opl) }.

Definition dec_fobs (x : sx) : option fobs :=
  match x with
  | Lx [Ax _; r; Lx (Ax _ :: vs); l] =>
      match map_opt dec_ovisit vs, dec_last l with
      | Some t, Some la => Some (FObs r t la)
      | _, _ => None
      end
  | _ => None
  end.

(* ---- comparing the model's run with the observation *)
Definition enc_value (v : value) : sx :=
  match v with
  | VNum z => Lx [Ax "s"; Ax "u64"; Zx z]
  | VVec l => Lx [Ax "m"; Ax "u64"; Zx 1; Zx (Z.of_nat (List.length l)); Lx (map Zx l)]
  end.

(* the trace prints scalars exactly and vectors as kind + shape *)
Definition opl_matchb (v : value) (o : opl) : bool :=
  match v, o with
  | VNum z, ONum z' => Z.eqb z z'
  | VVec l, OVec r c => andb (Nat.eqb r 1) (Nat.eqb c (List.length l))
  | _, _ => false
  end.

Fixpoint opls_matchb (vs : list value) (os : list opl) : bool :=
  match vs, os with
  | [], [] => true
  | v :: vs', o :: os' => andb (opl_matchb v o) (opls_matchb vs' os')
  | _, _ => false
  end.

Definition arm_code (a : option (nat * option nat)) : Z * Z :=
  match a with
  | None => (-1, -1)%Z
  | Some (i, None) => (Z.of_nat i, -1)%Z
  | Some (i, Some j) => (Z.of_nat i, Z.of_nat j)
  end.

Definition state_matchb (st : state) (n : string) (ps : list opl) : bool :=
  andb (String.eqb (fst st) n) (opls_matchb (snd st) ps).

Definition visit_matchb (v : visit) (o : ovisit) : bool :=
  andb (state_matchb (v_state v) (ov_name o) (ov_payload o))
       (andb (Z.eqb (fst (arm_code (v_arm v))) (ov_arm o)) (Z.eqb (snd (arm_code (v_arm v))) (ov_guard o))).

Fixpoint trace_matchb (tr : list visit) (os : list ovisit) : bool :=
  match tr, os with
  | [], [] => true
  | v :: tr', o :: os' => andb (visit_matchb v o) (trace_matchb tr' os')
  | _, _ => false
  end.

Definition err_name (r : sx) : option string :=
  match r with Lx [Ax t; n] => if String.eqb t "err" then sx_str n else None | _ => None end.

Definition is_err (r : sx) : bool := match err_name r with Some _ => true | None => false end.

Definition err_is (r : sx) (n : string) : bool :=
  match err_name r with Some s => String.eqb s n | None => false end.

Definition reject_name (w : reject) : string :=
  match w with
  | RjArgCount => "IncorrectNumberOfArguments"
  | RjArgKind => "FsmArgumentKindMismatch"
  | RjState => "FsmUndefinedState"
  end.

Definition reject_tag (w : reject) : string :=
  match w with
  | RjArgCount => "rejected-argcount"
  | RjArgKind => "rejected-argkind"
  | RjState => "rejected-state"
  end.

(* a halted machine returns its state: (tuple (atom "A") <payload>...) *)
Definition stuck_res_matchb (st : state) (r : sx) : bool :=
  match r with
  | Lx (Ax t :: Lx [Ax a; n] :: ps) =>
      andb (andb (String.eqb t "tuple") (String.eqb a "atom"))
           (andb (match sx_str n with Some s => String.eqb s (fst st) | None => false end)
                 (sxs_eqb (map enc_value (snd st)) ps))
  | _ => false
  end.

Definition last_matchb (tr : list visit) (st : state) (l : option (string * list opl)) : bool :=
  match tr, l with
  | [], None => true
  | _ :: _, Some (n, ps) => state_matchb st n ps
  | _, _ => false
  end.

Definition last_state (tr : list visit) : option state :=
  match List.rev tr with v :: _ => Some (v_state v) | [] => None end.

(* does the observation equal the model's prediction of an accepted run? *)
Definition run_matchb (tr : list visit) (o : outcome) (ob : fobs) : bool :=
  andb (trace_matchb tr (o_trace ob))
       (match o with
        | ODone v => sx_eqb (enc_value v) (o_res ob)
        | OLimit st => andb (err_is (o_res ob) "FsmExceededTransitionLimit") (last_matchb tr st (o_last ob))
        | OStuck => match last_state tr with Some st => stuck_res_matchb st (o_res ob) | None => false end
        | OErr => is_err (o_res ob)
        end).

Definition value_has_out (d : decl) (v : value) : bool :=
  match d_out d with
  | None => true
  | Some k => match ty_of_kind k with Some t => has_ty v t | None => false end
  end.

Definition expected_sx (tr : list visit) (o : outcome) : sx :=
  Lx [Ax "expected";
      (match o with
       | ODone v => enc_value v
       | OLimit _ => Ax "limit-error"
       | OStuck => Ax "stuck"
       | OErr => Ax "eval-error"
       end);
      Lx (map (fun v => Lx [Qx (fst (v_state v)); Lx (map enc_value (snd (v_state v)));
                            Zx (fst (arm_code (v_arm v))); Zx (snd (arm_code (v_arm v)))]) tr)].

(* the observation is a rejection: the expected error, and no state was visited *)
Definition rejected_obs (ob : fobs) (w : reject) : bool :=
  andb (err_is (o_res ob) (reject_name w)) (match o_trace ob with [] => true | _ => false end).

Definition kf_id (d : decl) : string :=
  if kf_undeclared_with_arm d then "undeclared-state-with-arm" else "declared-state-without-arm".

Definition judge_case (c : case) (ob : fobs) : sx :=
  match run_fsm (c_max c) (c_decl c) (c_args c) with
  | RReject w =>
      if rejected_obs ob w then v_ok (reject_tag w) else v_bad "expected-rejection" (Ax (reject_name w))
  | RUnmodelled => v_adv "unmodelled-argument"
  | RStartErr => v_adv "start-eval-error"
  | RRun tr o =>
      if ill_formed (c_decl c) then
        (* ill-formed for the property but accepted by the code (a known-finding class): a rejection is
           what the property demands; the modelled defective run is the known finding; anything else is bad *)
        (if rejected_obs ob RjState then v_ok "rejected-state"
         else if run_matchb tr o ob then v_kf (kf_id (c_decl c))
         else v_bad "kf-mismatch" (expected_sx tr o))
      else
        match o with
        | OErr => v_adv "eval-error"
        | OStuck => if run_matchb tr o ob then v_adv "stuck" else v_bad "stuck-mismatch" (expected_sx tr o)
        | ODone v =>
            if run_matchb tr o ob
            then (if negb (well_scoped (c_decl c)) then v_adv "ill-scoped"
                  else if value_has_out (c_decl c) v then v_ok "value" else v_adv "output-kind-undeclared")
            else v_bad "run-mismatch" (expected_sx tr o)
        | OLimit _ =>
            if run_matchb tr o ob
            then (if negb (well_scoped (c_decl c)) then v_adv "ill-scoped" else v_ok "limit")
            else v_bad "limit-mismatch" (expected_sx tr o)
        end
  end.

(* the driver reports an invocation that produced no answer within its stall limit as (hang):
   for this property that is a violation ("stopped with an error ... instead of hanging") *)
Definition is_hang (o : sx) : bool :=
  match o with Lx [Ax t] => String.eqb t "hang" | _ => false end.

Definition judge_fsm (x : sx) : sx :=
  match x with
  | Lx [c; o] =>
      match dec_case c with
      | Some cc =>
          if is_hang o then v_bad "hang" (Ax "answer-within-the-transition-limit")
          else match dec_fobs o with Some oo => judge_case cc oo | None => v_malformed end
      | None => v_malformed
      end
  | _ => v_malformed
  end.

Definition run_line (s : string) : string := run_with judge_fsm s.
