(* C07 — the judge of the `loader` suite, whole-container version: every decoded section and the decoded
   constant values of the implementation are compared with the model's decoding of the same file.
   Executable definitions only. *)
From Coq Require Import List NArith ZArith Arith Bool String Ascii.
From MechV Require Import Base.Sexp Base.Obs Model.Crc32 Model.Loader Model.LoaderJ Model.Container Model.ConstCodec.
Import ListNotations.
Open Scope string_scope.

(* ---- the extended observation: (features ..) (types ..) (syms ..) (dict ..) (blob "hex") (vals ..) ---- *)
Record lext := {
  x_features : list N;
  x_types : list (N * list N);
  x_syms : list (N * N * N);          (* id, mutable 0/1, register — sorted by the harness *)
  x_dict : list (N * list N);         (* id, name bytes — sorted by id by the harness *)
  x_blob : list N;
  x_vals : option (list sx) }.        (* Some: decode_const_entries returned Ok and every value printed *)

Definition sx_tagged_bytes (x : sx) : option (N * list N) :=
  match x with
  | Lx [Zx t; Qx h] => match unhex h with Some b => if Z.leb 0 t then Some (Z.to_N t, b) else None | None => None end
  | _ => None
  end.

Definition sx_sym (x : sx) : option (N * N * N) :=
  match x with
  | Lx [a; b; c] => match sx_N a, sx_N b, sx_N c with Some i, Some m, Some r => Some (i, m, r) | _, _, _ => None end
  | _ => None
  end.

Definition decode_ext (o : sx) : option lext :=
  match o with
  | Lx (Ax "load" :: Lx [Ax "ok"] :: _ :: _ :: _ :: _ :: _ :: _ :: _ ::
        Lx (Ax "features" :: fs) :: Lx (Ax "types" :: ts) :: Lx (Ax "syms" :: ss) :: Lx (Ax "dict" :: ds)
        :: Lx [Ax "blob"; Qx b] :: Lx (Ax "vals" :: vs) :: _) =>
      match map_opt sx_N fs, map_opt sx_tagged_bytes ts, map_opt sx_sym ss, map_opt sx_tagged_bytes ds, unhex b with
      | Some f, Some t, Some s, Some d, Some bl =>
          Some {| x_features := f; x_types := t; x_syms := s; x_dict := d; x_blob := bl;
                  x_vals := match vs with Ax "ok" :: l => Some l | _ => None end |}
      | _, _, _, _, _ => None
      end
  | _ => None
  end.

(* the re-encoded file when it differs: (differs <len> "hex") *)
Definition reencoded (re : sx) : option (list N) :=
  match re with Lx [Ax "differs"; _; Qx h] => unhex h | _ => None end.

(* ---- canonical printing of model constants (harness/src/canon.rs) ---- *)
Definition kname (k : skind) : string :=
  match k with
  | KU8 => "u8" | KU16 => "u16" | KU32 => "u32" | KU64 => "u64" | KU128 => "u128"
  | KI8 => "i8" | KI16 => "i16" | KI32 => "i32" | KI64 => "i64" | KI128 => "i128"
  | KF32 => "f32" | KF64 => "f64" | KC64 => "c64" | KR64 => "r64" | KString => "string" | KBool => "bool"
  | KIndex => "ix"
  end.

Fixpoint string_of_bytes (l : list N) : string :=
  match l with [] => EmptyString | b :: r => String (ascii_of_N b) (string_of_bytes r) end.

Definition sval_sx (v : sval) : sx :=
  match v with
  | VZ z => Zx z
  | VB b => Zx (if b then 1 else 0)
  | VS s => Qx (string_of_bytes s)
  | VP a b => Lx [Zx a; Zx b]
  end.

Definition cval_sx (v : cval) : sx :=
  match v with
  | CScalar k x => Lx [Ax "s"; Ax (kname k); sval_sx x]
  | CMatrix k r c es => Lx [Ax "m"; Ax (kname k); Zx (Z.of_N r); Zx (Z.of_N c); Lx (map sval_sx es)]
  end.

(* ---- comparisons ---- *)
Fixpoint tagged_eqb (a b : list (N * list N)) : bool :=
  match a, b with
  | [], [] => true
  | (x, l) :: a', (y, m) :: b' => (N.eqb x y && Ns_eqb l m && tagged_eqb a' b')%bool
  | _, _ => false
  end.

Definition sym3 (s : sym) : N * N * N := let '(id, m, r) := s in (id, if m then 1%N else 0%N, r).

Definition sym_leb (a b : N * N * N) : bool :=
  let '(i, m, r) := a in let '(j, k, q) := b in
  (N.ltb i j || (N.eqb i j && (N.ltb m k || (N.eqb m k && N.leb r q))))%bool.

Fixpoint insert_by {A} (leb : A -> A -> bool) (x : A) (l : list A) : list A :=
  match l with
  | [] => [x]
  | y :: r => if leb x y then x :: l else y :: insert_by leb x r
  end.
Definition sort_by {A} (leb : A -> A -> bool) (l : list A) : list A := fold_right (insert_by leb) [] l.

Fixpoint sym3s_eqb (a b : list (N * N * N)) : bool :=
  match a, b with
  | [], [] => true
  | (i, m, r) :: a', (j, k, q) :: b' => (N.eqb i j && N.eqb m k && N.eqb r q && sym3s_eqb a' b')%bool
  | _, _ => false
  end.

Fixpoint nodupN (l : list N) : bool :=
  match l with [] => true | x :: r => (negb (existsb (N.eqb x) r) && nodupN r)%bool end.

Definition dent_leb (a b : N * list N) : bool := N.leb (fst a) (fst b).

(* every decoded section of the implementation against the model's; None = all agree.
   symbols and dictionary are HashMaps in the implementation: compared as sorted lists, and only when the
   ids in the file are pairwise distinct (a map cannot hold the duplicates an ordered list does) *)
Definition sections_differ (p : program) (h : list N) (cs : list (list N)) (is : list sx) (x : lext) : option string :=
  if negb (Ns_eqb h (p_header p)) then Some "header-differs"
  else if negb (Nss_eqb cs (p_consts p)) then Some "const-entries-differ"
  else if negb (sxs_eqb is (map instr_sx (p_instrs p))) then Some "instructions-differ"
  else if negb (Ns_eqb (x_features x) (p_features p)) then Some "features-differ"
  else if negb (tagged_eqb (x_types x) (p_types p)) then Some "types-differ"
  else if negb (Ns_eqb (x_blob x) (p_blob p)) then Some "blob-differs"
  else if (nodupN (map (fun s : sym => fst (fst s)) (p_symbols p))
           && negb (sym3s_eqb (x_syms x) (sort_by sym_leb (map sym3 (p_symbols p)))))%bool then Some "symbols-differ"
  else if (nodupN (map fst (p_dict p))
           && negb (tagged_eqb (x_dict x) (sort_by dent_leb (p_dict p))))%bool then Some "dictionary-differs"
  else None.

(* decoded constant values: every value the model can decode must print the same *)
Fixpoint vals_agree (ms : list (option cval)) (vs : list sx) : bool :=
  match ms, vs with
  | [], [] => true
  | Some m :: ms', v :: vs' => (sx_eqb (cval_sx m) v && vals_agree ms' vs')%bool
  | None :: ms', _ :: vs' => vals_agree ms' vs'
  | _, _ => false
  end.

Definition all_some {A} (l : list (option A)) : bool := forallb (fun o => match o with Some _ => true | None => false end) l.

(* the same program up to the order of symbol and dictionary entries *)
Definition same_mod_order (p q : program) : bool :=
  (Ns_eqb (p_header p) (p_header q) && Ns_eqb (p_features p) (p_features q) && tagged_eqb (p_types p) (p_types q)
   && Nss_eqb (p_consts p) (p_consts q) && Ns_eqb (p_blob p) (p_blob q)
   && sxs_eqb (map instr_sx (p_instrs p)) (map instr_sx (p_instrs q))
   && sym3s_eqb (sort_by sym_leb (map sym3 (p_symbols p))) (sort_by sym_leb (map sym3 (p_symbols q)))
   && tagged_eqb (sort_by dent_leb (p_dict p)) (sort_by dent_leb (p_dict q)))%bool.

(* ---- an emitted file ----
   strict = true : a file the compiler emitted — the property fixes the byte-exact re-encoding.
   strict = false: a file laid out by CompileCtx::compile after symbols were defined through its public API
                   (the compiler itself never defines any): sections and values are binding, the order in which
                   to_bytes walks its HashMaps is not *)
Definition judge_emitted2 (strict : bool) (file : list N) (o : sx) : sx :=
  if negb (verify file) then v_bad "model-crc-rejects-emitted-file" (Ax "crc")
  else
    match decode_lobs o, decode_ext o, fst (load_program file) with
    | LOk h cs is dec re, Some x, Ok p =>
        match sections_differ p h cs is x with
        | Some why => v_bad why (Ax "model")
        | None =>
            if negb (Ns_eqb (to_bytes p) file) then v_bad "model-reencode-differs" (Ax "to_bytes")
            else if negb (Ns_eqb (encode_program p) file) then v_bad "model-layout-differs" (Ax "encode_program")
            else if negb (wf_program p) then v_bad "emitted-file-not-wellformed" (Ax "wf_program")
            else
              let reok :=
                if sx_eqb re (Lx [Ax "same"]) then 0%nat
                else match reencoded re with
                     | Some f' => match fst (load_program f') with
                                  | Ok q => if (same_mod_order p q && Nat.eqb (List.length f') (List.length file))%bool then 1%nat else 2%nat
                                  | _ => 2%nat
                                  end
                     | None => 2%nat
                     end in
              match reok with
              | 2%nat => v_bad "reencode-differs" (Ax "same")
              | _ =>
                  if (strict && Nat.eqb reok 1)%bool then v_bad "reencode-differs" (Ax "same") else
                  let '(ms, e) := decode_consts p in
                  match dec, e with
                  | Lx [Ax "ok"; _], REnd =>
                      match x_vals x with
                      | Some vs =>
                          if vals_agree ms vs
                          then (if Nat.eqb reok 1 then v_adv "reencode-permutes-symbols"
                                else if all_some ms then v_ok "roundtrip" else v_ok "roundtrip-some-constants-opaque")
                          else v_bad "constant-values-differ" (Lx (map (fun m => match m with Some v => cval_sx v | None => Ax "opaque" end) ms))
                      | None => v_bad "constant-values-unreadable" (Ax "vals")
                      end
                  (* known finding: the compiler writes constants of kinds (tuples) for which the decoder has no arm *)
                  | Lx [Ax "err"; Qx "UnsupportedConstantType"], RErr => v_kf "emitted-constant-undecodable"
                  | _, _ => v_bad "constants-do-not-decode" (Ax "ok")
                  end
              end
        end
    | LOk _ _ _ _ _, None, _ => v_bad "unreadable-observation" (Ax "ext")
    | LOk _ _ _ _ _, _, _ => v_bad "model-rejects-emitted-file" (Ax "model")
    | _, _, _ => v_bad "emitted-file-not-loaded" (Ax "ok")
    end.

(* ---- arbitrary bytes: any outcome but a panic, abort or hang (binding); the model's accept/reject, its
   sections and its prediction for the constant decoder are compared for the record (advisory) ---- *)
Definition judge_any2 (file : list N) (o : sx) : sx :=
  let lo := decode_lobs o in
  match lo with
  | LPanic => v_bad "panic" (Ax "ok-or-err")
  | LDead => v_bad "abort-or-hang" (Ax "ok-or-err")
  | LOther => v_bad "unreadable-observation" (Ax "ok-or-err")
  | LErr k =>
      if verify file
      then (if String.eqb k "CrcMismatch" then v_bad "crc-disagrees-with-model" (Ax "crc-ok")
            else match fst (load_program file) with
                 | Ok _ => v_adv "rejected-model-accepts"
                 | _ => v_ok "rejected-after-crc"
                 end)
      else (if is_crc_error k then v_ok "rejected-by-crc" else v_bad "crc-disagrees-with-model" (Ax "crc-bad"))
  | LDecPanic =>
      (* known finding: the constant payload decoders (ConstElem::from_le) are infallible-by-signature and panic on
         malformed payload bytes of a file whose CRC and container bounds are valid.  The model predicts the panic
         (or the constant is of a kind the model does not decode) *)
      if verify file then
        match fst (load_program file) with
        | Ok p => let '(ms, e) := decode_consts p in
                  match e with
                  | RPanic => v_kf "const-decoder-panic"
                  | _ => if all_some ms then v_bad "decoder-panic-not-predicted" (Ax "model") else v_kf "const-decoder-panic"
                  end
        | _ => v_bad "accepted-model-rejects-then-panic" (Ax "model")
        end
      else v_bad "accepted-with-bad-crc" (Ax "err")
  | LOk h cs is dec re =>
      if verify file then
        match fst (load_program file), decode_ext o with
        | Ok p, Some x =>
            match sections_differ p h cs is x with
            | Some why => v_adv ("accepted-" ++ why)
            | None =>
                let '(ms, e) := decode_consts p in
                match dec, e with
                | Lx [Ax "ok"; _], REnd =>
                    match x_vals x with
                    | Some vs => if vals_agree ms vs then v_ok "accepted-agree" else v_adv "accepted-constant-values-differ"
                    | None => v_adv "accepted-values-unreadable"
                    end
                | Lx [Ax "err"; _], RErr => v_ok "accepted-agree-constants-refused"
                | Lx [Ax "err"; _], _ => if all_some ms then v_adv "constants-refused-model-decodes" else v_ok "accepted-agree-opaque-constant-refused"
                | Lx [Ax "ok"; _], _ => v_adv "constants-decoded-model-refuses"
                | _, _ => v_adv "accepted-constants-unreadable"
                end
            end
        | Ok _, None => v_bad "unreadable-observation" (Ax "ext")
        | _, _ => v_adv "accepted-model-rejects"
        end
      else v_bad "accepted-with-bad-crc" (Ax "err")
  end.

Definition judge_loader2 (x : sx) : sx :=
  match x with
  | Lx [Lx [Ax "emitted"; Qx h]; o] =>
      match unhex h with Some f => judge_emitted2 true f o | None => v_malformed end
  | Lx [Lx [Ax "emitted-syms"; Qx h]; o] =>
      match unhex h with Some f => judge_emitted2 false f o | None => v_malformed end
  | Lx [Lx [Ax "any"; Qx h]; o] =>
      match unhex h with Some f => judge_any2 f o | None => v_malformed end
  | _ => judge_loader x      (* burst, trunc, crc: unchanged *)
  end.

Definition run_line (s : string) : string := run_with judge_loader2 s.
