(* C07 — the WHOLE bytecode container: every section ParsedProgram::to_bytes / CompileCtx::compile
   write and load_program_from_reader reads (src/core/src/program/program.rs, compiler/sections.rs,
   compiler/context.rs):  header | features | types | constant table | constant blob | symbols |
   instruction stream | dictionary | CRC-32 trailer.
   Builds on Model/Loader.v (little-endian fields, header, instruction codec).
   Executable definitions only. *)
From Coq Require Import List NArith Arith Bool.
From MechV Require Import Model.Crc32 Model.Loader.
Import ListNotations.
Open Scope N_scope.

(* ---------- decoded sections ---------- *)
Definition tentry := (N * bytes)%type.          (* TypeEntry: tag (u16), payload bytes; reserved/version are not kept *)
Definition sym := (N * bool * N)%type.          (* SymbolEntry: id (u64), mutable, register (u32) — an ORDERED list here *)
Definition dentry := (N * bytes)%type.          (* DictEntry: id (u64), utf-8 name *)

Record program := {
  p_header : header;             (* the 22 header fields as stored in the file *)
  p_features : list N;           (* u64 each *)
  p_types : list tentry;
  p_consts : list (list N);      (* 24-byte entries: type_id enc align flags reserved offset length *)
  p_blob : bytes;
  p_symbols : list sym;
  p_instrs : list instr;
  p_dict : list dentry }.

(* ---------- UTF-8 (what String::from_utf8 accepts: no overlong forms, no surrogates, <= U+10FFFF) ---------- *)
Definition in_rng (lo hi b : N) : bool := (lo <=? b) && (b <=? hi).
Definition cont (b : N) : bool := in_rng 128 191 b.

Fixpoint utf8_valid (l : bytes) : bool :=
  match l with
  | [] => true
  | b0 :: r =>
      if b0 <? 128 then utf8_valid r
      else if in_rng 194 223 b0 then
        match r with b1 :: r' => cont b1 && utf8_valid r' | _ => false end
      else if in_rng 224 239 b0 then
        match r with
        | b1 :: b2 :: r' =>
            (if b0 =? 224 then in_rng 160 191 b1 else if b0 =? 237 then in_rng 128 159 b1 else cont b1)
            && cont b2 && utf8_valid r'
        | _ => false
        end
      else if in_rng 240 244 b0 then
        match r with
        | b1 :: b2 :: b3 :: r' =>
            (if b0 =? 240 then in_rng 144 191 b1 else if b0 =? 244 then in_rng 128 143 b1 else cont b1)
            && cont b2 && cont b3 && utf8_valid r'
        | _ => false
        end
      else false
  end.

(* ---------- section encoders (ParsedProgram::to_bytes, steps 2-8) ---------- *)
Definition enc_features (fs : list N) : bytes := le 4 (N.of_nat (List.length fs)) ++ flat_map (le 8) fs.

(* TypeSection::write_to: tag u16, reserved u16 = 0, version u32 = 1, bytes_len u32, bytes *)
Definition enc_type (t : tentry) : bytes :=
  encode_fields [2; 2; 4; 4]%nat [fst t; 0; 1; N.of_nat (List.length (snd t))] ++ snd t.
Definition enc_types (ts : list tentry) : bytes := le 4 (N.of_nat (List.length ts)) ++ flat_map enc_type ts.

Definition enc_const (e : list N) : bytes := encode_fields const_entry_widths e.
Definition enc_consts (cs : list (list N)) : bytes := flat_map enc_const cs.

Definition enc_sym (s : sym) : bytes :=
  let '(id, m, r) := s in encode_fields [8; 1; 4]%nat [id; if m then 1 else 0; r].
Definition enc_syms (ss : list sym) : bytes := flat_map enc_sym ss.

Definition enc_dent (d : dentry) : bytes :=
  encode_fields [8; 4]%nat [fst d; N.of_nat (List.length (snd d))] ++ snd d.
Definition enc_dict (ds : list dentry) : bytes := flat_map enc_dent ds.

Definition body (p : program) : bytes :=
  enc_features (p_features p) ++ enc_types (p_types p) ++ enc_consts (p_consts p) ++ p_blob p
  ++ enc_syms (p_symbols p) ++ encode_instrs (p_instrs p) ++ enc_dict (p_dict p).

(* ParsedProgram::to_bytes: the STORED header, the sections in the fixed order, the CRC of everything before *)
Definition to_bytes (p : program) : bytes :=
  let payload := encode_header (p_header p) ++ body p in payload ++ trailer payload.

(* ---------- the layout CompileCtx::compile computes ---------- *)
Definition sumN (l : list N) : N := fold_right N.add 0 l.

Definition instr_byte_len (i : instr) : N :=      (* EncodedInstr::byte_len *)
  match i with
  | IConstLoad _ _ => 9 | INullOp _ _ => 13 | IUnOp _ _ _ => 17 | IBinOp _ _ _ _ => 21
  | ITernOp _ _ _ _ _ => 25 | IQuadOp _ _ _ _ _ _ => 29
  | IVarArg _ _ args => 17 + 4 * N.of_nat (List.length args)
  | IRet _ => 5
  end.

Definition feat_len (p : program) : N := 4 + 8 * N.of_nat (List.length (p_features p)).
Definition types_len (p : program) : N := 4 + sumN (map (fun t : tentry => 12 + N.of_nat (List.length (snd t))) (p_types p)).
Definition tbl_len (p : program) : N := 24 * N.of_nat (List.length (p_consts p)).
Definition blob_len (p : program) : N := N.of_nat (List.length (p_blob p)).
Definition syms_len (p : program) : N := 13 * N.of_nat (List.length (p_symbols p)).
Definition instrs_len (p : program) : N := sumN (map instr_byte_len (p_instrs p)).
Definition dict_len (p : program) : N := sumN (map (fun d : dentry => N.of_nat (List.length (snd d)) + 12) (p_dict p)).

(* the header of a compiled file: magic "MECH"; version, mech_ver, flags, reg_count, reserved are inputs
   (compile: 1, the crate version, 0, next_reg, 0); every count, offset and length is computed *)
Definition layout_header (version mech_ver flags reg_count reserved : N) (p : program) : header :=
  let feature_off := N.of_nat HEADER_SIZE in
  let types_off := feature_off + feat_len p in
  let const_tbl_off := types_off + types_len p in
  let const_blob_off := const_tbl_off + tbl_len p in
  let symbols_off := const_blob_off + blob_len p in
  let instr_off := symbols_off + syms_len p in
  let dict_off := instr_off + instrs_len p in
  [ MAGIC; version; mech_ver; flags; reg_count; N.of_nat (List.length (p_instrs p));
    N.of_nat (List.length (p_features p)); feature_off;
    N.of_nat (List.length (p_types p)); types_off;
    N.of_nat (List.length (p_consts p)); const_tbl_off; tbl_len p; const_blob_off; blob_len p;
    syms_len p; symbols_off; instr_off; instrs_len p; dict_off; dict_len p; reserved ].

Definition h_feature_off h := hfield h 7.
Definition h_types_off h := hfield h 9.

Definition relayout (p : program) : program :=
  let h := p_header p in
  {| p_header := layout_header (hfield h 1) (hfield h 2) (hfield h 3) (hfield h 4) (hfield h 21) p;
     p_features := p_features p; p_types := p_types p; p_consts := p_consts p; p_blob := p_blob p;
     p_symbols := p_symbols p; p_instrs := p_instrs p; p_dict := p_dict p |}.

(* CompileCtx::compile: lay the sections out, compute the header, write, append the CRC *)
Definition encode_program (p : program) : bytes := to_bytes (relayout p).

Fixpoint N_list_eqb (a b : list N) : bool :=
  match a, b with
  | [], [] => true
  | x :: a', y :: b' => (x =? y) && N_list_eqb a' b'
  | _, _ => false
  end.

(* ---------- well-formed programs (what the compiler can emit) ---------- *)
Definition valid_tag (t : N) : bool := in_rng 1 48 t.       (* TypeTag::from_u16 *)
Definition u32b (x : N) : bool := x <? 2 ^ 32.
Definition u64b (x : N) : bool := x <? 2 ^ 64.
Definition bytesb (l : bytes) : bool := forallb is_byte l.

Definition wf_tentry (t : tentry) : bool := valid_tag (fst t) && u32b (N.of_nat (List.length (snd t))) && bytesb (snd t).
Definition wf_sym (s : sym) : bool := let '(id, _, r) := s in u64b id && u32b r.
Definition wf_dentry (d : dentry) : bool :=
  u64b (fst d) && u32b (N.of_nat (List.length (snd d))) && bytesb (snd d) && utf8_valid (snd d).

Definition wf_program (p : program) : bool :=
  N_list_eqb (p_header p) (layout_header (hfield (p_header p) 1) (hfield (p_header p) 2) (hfield (p_header p) 3)
                                          (hfield (p_header p) 4) (hfield (p_header p) 21) p)
  && wf_fields header_widths (p_header p)
  && forallb u64b (p_features p)
  && forallb wf_tentry (p_types p)
  && forallb (wf_fields const_entry_widths) (p_consts p)
  && bytesb (p_blob p)
  && forallb wf_sym (p_symbols p)
  && forallb wf_instr (p_instrs p) && forallb (fun i => negb (is_ret i)) (p_instrs p)
  && forallb wf_dentry (p_dict p).

(* ---------- the loader (load_program_from_bytes) ----------
   Every decoder returns its result together with the LEDGER of buffer sizes (in bytes) it allocated from a
   length read from the file; each request is made only after its bounds check, as in the Rust code. *)

(* sections read through an offset/length pair of the header: skipped when off = 0 or len = 0 *)
Definition sect (payload : bytes) (off len : N) : option bytes :=
  if (off =? 0) || (len =? 0) then Some []
  else if off + len <=? N.of_nat (List.length payload)
       then Some (firstn (N.to_nat len) (skipn (N.to_nat off) payload)) else None.
Definition sect_req (off len : N) : nat := if (off =? 0) || (len =? 0) then 0%nat else N.to_nat len.

Fixpoint take_u64s (n : nat) (l : bytes) : option (list N) :=
  match n with
  | O => Some []
  | S n' => match take 8 l with
            | Some (w, r) => match take_u64s n' r with Some ws => Some (unle w :: ws) | None => None end
            | None => None
            end
  end.

(* 2. features: count (u32) read at feature_off, then count u64 values; silently empty when the count
      itself does not fit in the payload *)
Definition load_features (payload : bytes) (foff : N) : option (list N) :=
  let pl := N.of_nat (List.length payload) in
  if (foff =? 0) || negb (foff + 4 <=? pl) then Some []
  else
    let l := skipn (N.to_nat foff) payload in
    match take 4 l with
    | Some (c4, r) =>
        let c := unle c4 in
        if foff + 4 + 8 * c <=? pl then take_u64s (N.to_nat c) r else None
    | None => None
    end.

(* 3. types: count (u32) at types_off, then per entry a 12-byte head and bytes_len bytes (bounds-checked
      against the payload before the buffer is allocated); unknown tags are refused.
      fuel: one unit per entry; S (length l) is always enough because every entry consumes 12 bytes *)
Fixpoint decode_types (fuel : nat) (n : N) (l : bytes) : res (list tentry) * list nat :=
  if n =? 0 then (Ok [], []%list)
  else
    match fuel with
    | O => (Err, []%list)
    | S f =>
        match take_fields [2; 2; 4; 4]%nat l with
        | Some ([tag; _; _; blen], r) =>
            if N.of_nat (List.length r) <? blen then (Err, []%list)
            else
              match take (N.to_nat blen) r with
              | Some (bs, r') =>
                  if valid_tag tag then
                    let '(x, lg) := decode_types f (n - 1) r' in
                    (match x with Ok ts => Ok ((tag, bs) :: ts) | e => e end, (N.to_nat blen :: lg)%list)
                  else (Err, [N.to_nat blen])
              | None => (Err, []%list)
              end
        | _ => (Err, []%list)
        end
    end.

Definition load_types (payload : bytes) (toff : N) : res (list tentry) * list nat :=
  let pl := N.of_nat (List.length payload) in
  if (toff =? 0) || negb (toff + 4 <=? pl) then (Ok [], []%list)
  else
    let l := skipn (N.to_nat toff) payload in
    match take 4 l with
    | Some (c4, r) => decode_types (S (List.length r)) (unle c4) r
    | None => (Err, []%list)
    end.

(* 5. symbols: symbols_len / 13 entries of 13 bytes *)
Fixpoint decode_syms (n : nat) (l : bytes) : option (list sym) :=
  match n with
  | O => Some []
  | S n' =>
      match take_fields [8; 1; 4]%nat l with
      | Some ([id; m; r], rest) =>
          match decode_syms n' rest with Some ss => Some ((id, negb (m =? 0), r) :: ss) | None => None end
      | _ => None
      end
  end.

(* 7. dictionary: entries until the section is exhausted; the name length is checked against what is left
      before the name buffer is allocated; names must be UTF-8 *)
Fixpoint decode_dict (fuel : nat) (l : bytes) : res (list dentry) * list nat :=
  match l with
  | [] => (Ok [], []%list)
  | _ =>
      match fuel with
      | O => (Err, []%list)
      | S f =>
          match take_fields [8; 4]%nat l with
          | Some ([id; len], r) =>
              if N.of_nat (List.length r) <? len then (Err, []%list)
              else
                match take (N.to_nat len) r with
                | Some (name, r') =>
                    if utf8_valid name then
                      let '(x, lg) := decode_dict f r' in
                      (match x with Ok ds => Ok ((id, name) :: ds) | e => e end, (N.to_nat len :: lg)%list)
                    else (Err, [N.to_nat len])
                | None => (Err, []%list)
                end
          | _ => (Err, []%list)
          end
      end
  end.

Definition h_feature_count h := hfield h 6.
Definition h_types_count h := hfield h 8.

(* everything after the CRC check, on the payload (the file without its 4-byte trailer) *)
Definition load_payload (payload : bytes) : res program * list nat :=
    let n4 := List.length payload in
    if Nat.ltb n4 HEADER_SIZE then (Err, [n4])
    else
    match decode_header payload with
    | None => (Err, [n4; HEADER_SIZE])
    | Some h =>
        let lg0 := [n4; HEADER_SIZE] in
        if negb (h_magic h =? MAGIC) then (Err, lg0) else
        match load_features payload (h_feature_off h) with
        | None => (Err, lg0)
        | Some feats =>
            let '(tr, lgt) := load_types payload (h_types_off h) in
            match tr with
            | Ok types =>
                let lg1 := (lg0 ++ lgt)%list in
                (* 4. constant table *)
                match sect payload (h_const_tbl_off h) (h_const_tbl_len h) with
                | None => (Err, lg1)
                | Some tbl =>
                    let skip_tbl := (h_const_tbl_off h =? 0) || (h_const_tbl_len h =? 0) in
                    if negb skip_tbl && (h_const_tbl_len h <? 24 * h_const_count h) then (Err, lg1) else
                    let lg2 := (lg1 ++ [sect_req (h_const_tbl_off h) (h_const_tbl_len h)])%list in
                    match (if skip_tbl then Some [] else decode_const_entries (N.to_nat (h_const_count h)) tbl) with
                    | None => (Err, lg2)
                    | Some consts =>
                        let lg3 := (lg2 ++ [if skip_tbl then 0%nat else (24 * N.to_nat (h_const_count h))%nat])%list in
                        match sect payload (h_const_blob_off h) (h_const_blob_len h) with
                        | None => (Err, lg3)
                        | Some blob =>
                            let lg4 := (lg3 ++ [sect_req (h_const_blob_off h) (h_const_blob_len h)])%list in
                            match sect payload (h_symbols_off h) (h_symbols_len h) with
                            | None => (Err, lg4)
                            | Some sb =>
                                let lg5 := (lg4 ++ [sect_req (h_symbols_off h) (h_symbols_len h)])%list in
                                match decode_syms (List.length sb / 13) sb with
                                | None => (Err, lg5)
                                | Some syms =>
                                    match sect payload (h_instr_off h) (h_instr_len h) with
                                    | None => (Err, lg5)
                                    | Some ib =>
                                        let lg6 := (lg5 ++ [sect_req (h_instr_off h) (h_instr_len h)])%list in
                                        match sect payload (h_dict_off h) (h_dict_len h) with
                                        | None => (Err, lg6)
                                        | Some db =>
                                            let lg7 := (lg6 ++ [sect_req (h_dict_off h) (h_dict_len h)])%list in
                                            let '(dr, lgd) := decode_dict (S (List.length db)) db in
                                            let lg8 := (lg7 ++ lgd)%list in
                                            match dr with
                                            | Ok dict =>
                                                match decode_instrs (S (List.length ib)) ib with
                                                | Ok is =>
                                                    (Ok {| p_header := h; p_features := feats; p_types := types;
                                                           p_consts := consts; p_blob := blob; p_symbols := syms;
                                                           p_instrs := is; p_dict := dict |}, lg8)
                                                | _ => (Err, lg8)
                                                end
                                            | _ => (Err, lg8)
                                            end
                                        end
                                    end
                                end
                            end
                        end
                    end
                end
            | _ => (Err, (lg0 ++ lgt)%list)
            end
        end
    end.

Definition load_program (file : bytes) : res program * list nat :=
  let n := List.length file in
  if negb (verify file) then (Err, [(n - 4)%nat])          (* verify_crc_trailer_seek reads the payload *)
  else load_payload (firstn (n - 4) file).
