(* C15 — ranges are arithmetic progressions.  Executable definitions only.

   Two sides:
   * the SPECIFICATION: [zrange incl a s b] over unbounded Z (the progression
     a, a+s, a+2s, ... of every term before / up to b, in the direction of s),
     lifted to rationals by scaling with the common denominator (r64, and the
     exact dyadic value of IEEE bit patterns for f32/f64);
   * a faithful model of what machines/range/src/*.rs does in the dev profile
     ([impl_int], [impl_flt]): typed `to - from` (overflow = panic = error),
     element count computed through f64 in the increment forms, vector filled by
     repeated typed addition with one extra `current + step` after the last
     element.  It is used ONLY to recognise the known wrong behaviours (kf).

   The judge checks the property on the implementation's observation:
   ok   = the observation is exactly the progression, as a 1 x n row vector of
          the operands' kind (that is what range() returns), or - for a range
          with no terms / that cannot be built - an error or an empty vector;
   adv  = outside the binding region (c64: no order; float grids on which some
          term is not exactly representable; non-finite operands);
   kf   = input in a listed known-finding class AND observation = the modelled
          defective behaviour;   bad = anything else. *)
From Coq Require Import List ZArith QArith Qround String Bool.
From MechV Require Import Base.Sexp Base.Obs.
Import ListNotations.
Open Scope string_scope.
Open Scope Z_scope.

(* ================= specification over Z ================= *)

(* number of terms for a positive step *)
Definition zcount_up (incl : bool) (a s b : Z) : Z :=
  if incl then (if b <? a then 0 else (b - a) / s + 1)
  else (if b <=? a then 0 else (b - a - 1) / s + 1).

Definition zcount (incl : bool) (a s b : Z) : Z :=
  if s =? 0 then 0
  else if 0 <? s then zcount_up incl a s b
  else zcount_up incl (- a) (- s) (- b).

Definition zterm (a s : Z) (i : nat) : Z := a + Z.of_nat i * s.

Definition range_spec (incl : bool) (a s b : Z) : list Z :=
  map (zterm a s) (seq 0 (Z.to_nat (zcount incl a s b))).
Definition zrange := range_spec.

(* an independent, recursive reading of the same thing: walk from a in steps of s
   while the current term is before / up to b (fuel = |b-a|+1 always suffices) *)
Definition beforeb (incl : bool) (s t b : Z) : bool :=
  if 0 <? s then (if incl then t <=? b else t <? b)
  else if s <? 0 then (if incl then b <=? t else b <? t)
  else false.

Fixpoint walk (incl : bool) (s b : Z) (fuel : nat) (cur : Z) : list Z :=
  match fuel with
  | O => []
  | S f => if beforeb incl s cur b then cur :: walk incl s b f (cur + s) else []
  end.

Definition range_walk (incl : bool) (a s b : Z) : list Z :=
  walk incl s b (S (Z.to_nat (Z.abs (b - a)))) a.

(* ================= kinds and exact values ================= *)

Inductive kind : Type :=
| KInt (lo hi : Z)
| KFlt (mbits ebits : Z)      (* IEEE binary: mantissa field width, exponent field width *)
| KRat
| KCpx.

Definition kind_of_name (k : string) : option kind :=
  if String.eqb k "u8" then Some (KInt 0 (2 ^ 8 - 1))
  else if String.eqb k "u16" then Some (KInt 0 (2 ^ 16 - 1))
  else if String.eqb k "u32" then Some (KInt 0 (2 ^ 32 - 1))
  else if String.eqb k "u64" then Some (KInt 0 (2 ^ 64 - 1))
  else if String.eqb k "u128" then Some (KInt 0 (2 ^ 128 - 1))
  else if String.eqb k "i8" then Some (KInt (- 2 ^ 7) (2 ^ 7 - 1))
  else if String.eqb k "i16" then Some (KInt (- 2 ^ 15) (2 ^ 15 - 1))
  else if String.eqb k "i32" then Some (KInt (- 2 ^ 31) (2 ^ 31 - 1))
  else if String.eqb k "i64" then Some (KInt (- 2 ^ 63) (2 ^ 63 - 1))
  else if String.eqb k "i128" then Some (KInt (- 2 ^ 127) (2 ^ 127 - 1))
  else if String.eqb k "f32" then Some (KFlt 23 8)
  else if String.eqb k "f64" then Some (KFlt 52 11)
  else if String.eqb k "r64" then Some KRat
  else if String.eqb k "c64" then Some KCpx
  else None.

Definition inb (lo hi z : Z) : bool := (lo <=? z) && (z <=? hi).

(* exact value of an IEEE bit pattern (None for inf / nan / not a pattern) *)
Definition decode_float (mbits ebits bits : Z) : option Q :=
  if (bits <? 0) || (2 ^ (mbits + ebits + 1) <=? bits) then None else
  let m := bits mod 2 ^ mbits in
  let e := (bits / 2 ^ mbits) mod 2 ^ ebits in
  let sg := bits / 2 ^ (mbits + ebits) in
  let bias := 2 ^ (ebits - 1) - 1 in
  if e =? 2 ^ ebits - 1 then None else
  let M := if e =? 0 then m else 2 ^ mbits + m in
  let ex := if e =? 0 then 1 - bias - mbits else e - bias - mbits in
  let M := if sg =? 1 then - M else M in
  Some (if ex <? 0 then Qred (Qmake M (Z.to_pos (2 ^ (- ex)))) else Qmake (M * 2 ^ ex) 1).

Fixpoint ctz_pos (p : positive) : Z := match p with xO p' => 1 + ctz_pos p' | _ => 0 end.
Definition ctz (z : Z) : Z := match z with Zpos p => ctz_pos p | Zneg p => ctz_pos p | Z0 => 0 end.

(* q is a finite number of the binary format *)
Definition representable (mbits ebits : Z) (q : Q) : bool :=
  let q := Qred q in
  let n := Z.abs (Qnum q) in let d := Zpos (Qden q) in
  if n =? 0 then true else
  let bias := 2 ^ (ebits - 1) - 1 in
  let emin := 1 - bias - mbits in
  let k := Z.log2 d in
  (d =? 2 ^ k) && (- k >=? emin) && (Z.log2 n - ctz n + 1 <=? mbits + 1)
  && (ctz n - k >=? emin) && (Z.log2 n - k <? bias + 1).

(* payload of an element, as canon.rs prints it, to its exact value *)
Definition decode_elem (kd : kind) (e : sx) : option Q :=
  match kd, e with
  | KInt lo hi, Zx z => if inb lo hi z then Some (inject_Z z) else None
  | KFlt mb eb, Zx bits => decode_float mb eb bits
  | KRat, Lx [Zx n; Zx d] => if 0 <? d then Some (Qmake n (Z.to_pos d)) else None
  | KCpx, Lx [Zx _; Zx _] => Some 0%Q
  | _, _ => None
  end.

(* ================= cases ================= *)

Inductive form := FEx | FIn | FExS | FInS.
Definition form_incl (f : form) : bool := match f with FIn | FInS => true | _ => false end.
Definition form_step (f : form) : bool := match f with FExS | FInS => true | _ => false end.
Definition form_of_name (s : string) : option form :=
  if String.eqb s "ex" then Some FEx else if String.eqb s "in" then Some FIn
  else if String.eqb s "exs" then Some FExS else if String.eqb s "ins" then Some FInS else None.

Record rcase : Type := RCase { rk : string; rkind : kind; rform : form; ra : Q; rs : Q; rb : Q }.

(* the step the range denotes: 1 when omitted *)
Definition step_of (c : rcase) : Q := if form_step (rform c) then rs c else 1%Q.

(* scaling to the integer grid: D = product of the denominators *)
Definition scD (c : rcase) : positive := (Qden (ra c) * Qden (step_of c) * Qden (rb c))%positive.
Definition scA (c : rcase) : Z := Qnum (ra c) * Zpos (Qden (step_of c) * Qden (rb c)).
Definition scS (c : rcase) : Z := Qnum (step_of c) * Zpos (Qden (ra c) * Qden (rb c)).
Definition scB (c : rcase) : Z := Qnum (rb c) * Zpos (Qden (ra c) * Qden (step_of c)).

Definition spec_count (c : rcase) : Z := zcount (form_incl (rform c)) (scA c) (scS c) (scB c).
Definition spec_terms (c : rcase) : list Q :=
  map (fun z => Qmake z (scD c)) (range_spec (form_incl (rform c)) (scA c) (scS c) (scB c)).

(* ================= model of the implementation (dev profile) ================= *)

(* round to nearest, ties to even, to [prec] significant bits (no exponent limits) *)
Definition rnd (prec : Z) (q : Q) : Q :=
  let n := Qnum q in let d := Zpos (Qden q) in
  if n =? 0 then 0%Q else
  let mag := Z.abs n in
  let e0 := Z.log2 mag - Z.log2 d - prec in
  let snum (e : Z) := if e <? 0 then mag * 2 ^ (- e) else mag in
  let sden (e : Z) := if e <? 0 then d else d * 2 ^ e in
  let e := if 2 ^ prec <=? snum e0 / sden e0 then e0 + 1 else e0 in
  let m0 := snum e / sden e in
  let r := snum e mod sden e in
  let m := match 2 * r ?= sden e with
           | Gt => m0 + 1
           | Eq => if Z.even m0 then m0 else m0 + 1
           | Lt => m0
           end in
  let v := if n <? 0 then - m else m in
  Qred (if e <? 0 then Qmake v (Z.to_pos (2 ^ (- e))) else Qmake (v * 2 ^ e) 1).

Definition qpos (x : Q) : bool := match (0 ?= x)%Q with Lt => true | _ => false end.
Definition qneg (x : Q) : bool := match (x ?= 0)%Q with Lt => true | _ => false end.

(* the element count of the increment forms, computed in f64; None = EmptyRange error *)
Definition fp_size (incl : bool) (df sf : Q) : option Z :=
  if Qeq_bool sf 0 then None else
  if (qpos df && qpos sf) || (qneg df && qneg sf) then
    let q := rnd 53 (df / sf) in
    Some (if incl then Qfloor q + 1 else Qceiling q)
  else if incl then (if Qeq_bool df 0 then Some 1 else None) else Some 0.

Definition chk (lo hi z : Z) : option Z := if inb lo hi z then Some z else None.

(* for i in 0..n { out[i] = current; current = current + step }  with checked add *)
Fixpoint fill_int (lo hi s : Z) (n : nat) (cur : Z) : option (list Z) :=
  match n with
  | O => Some []
  | S n' => match chk lo hi (cur + s) with
            | None => None
            | Some nx => option_map (cons cur) (fill_int lo hi s n' nx)
            end
  end.

Definition f64z (z : Z) : Q := rnd 53 (inject_Z z).

Definition int_fp_size (incl : bool) (a s b : Z) : option Z :=
  fp_size incl (rnd 53 (f64z b - f64z a)) (f64z s).

(* None = error (EmptyRange / RangeSizeOverflow / caught overflow panic) *)
Definition impl_int (lo hi : Z) (incl stepf : bool) (a s b : Z) : option (list Z) :=
  match chk lo hi (b - a) with
  | None => None
  | Some d =>
      if stepf then
        if d <? 0 then None else
        match int_fp_size incl a s b with
        | None => None
        | Some size => if size <=? 0 then None else fill_int lo hi s (Z.to_nat size) a
        end
      else
        match (if incl then chk lo hi (d + 1) else Some d) with
        | None => None
        | Some d' =>
            if d' <=? 0 then None else if 2 ^ 64 <=? d' then None
            else fill_int lo hi 1 (Z.to_nat d') a
        end
  end.

Fixpoint fill_flt (prec : Z) (s : Q) (n : nat) (cur : Q) : list Q :=
  match n with O => [] | S n' => cur :: fill_flt prec s n' (rnd prec (cur + s)) end.

Definition flt_size (prec : Z) (incl stepf : bool) (a s b : Q) : option Z :=
  let d := rnd prec (b - a) in
  if stepf then
    if qneg d then None else fp_size incl (rnd 53 (b - a)) s
  else
    let d' := if incl then rnd prec (d + 1) else d in
    if qneg d' then None else Some (Qfloor d').

Definition impl_flt (prec : Z) (incl stepf : bool) (a s b : Q) : option (list Q) :=
  match flt_size prec incl stepf a s b with
  | None => None
  | Some size => if size <=? 0 then None
                 else Some (fill_flt prec (if stepf then s else 1%Q) (Z.to_nat size) a)
  end.

Definition impl_case (c : rcase) : option (list Q) :=
  let f := rform c in
  match rkind c with
  | KInt lo hi => option_map (map inject_Z)
                    (impl_int lo hi (form_incl f) (form_step f) (Qnum (ra c)) (Qnum (step_of c)) (Qnum (rb c)))
  | KFlt mb _ => impl_flt (mb + 1) (form_incl f) (form_step f) (ra c) (step_of c) (rb c)
  | KRat | KCpx => None       (* no r64 / c64 arm in the kernels: UnhandledFunctionArgumentKind *)
  end.

Fixpoint qs_eqb (xs ys : list Q) : bool :=
  match xs, ys with
  | [], [] => true
  | x :: xs', y :: ys' => Qeq_bool x y && qs_eqb xs' ys'
  | _, _ => false
  end.

(* does the modelled implementation satisfy the property on this case? *)
Definition impl_meets_specb (c : rcase) : bool :=
  match impl_case c with
  | None => match spec_terms c with [] => true | _ => false end
  | Some l => qs_eqb l (spec_terms c)
  end.

(* ================= known-finding classes (decidable, on the inputs) ================= *)

(* integer kinds; s is the effective step (1 when omitted) *)
Definition kf_desc_int (a s b : Z) : bool := (s <? 0) && (b <? a).
Definition kf_diffov_int (hi : Z) (incl stepf : bool) (a s b : Z) : bool :=
  negb (kf_desc_int a s b) && (0 <? zcount incl a s b) &&
  ((hi <? b - a) || (negb stepf && incl && (hi <? b - a + 1))).
Definition size_or0 (o : option Z) : Z := match o with Some z => z | None => 0 end.
Definition kf_fpsize_int (hi : Z) (incl stepf : bool) (a s b : Z) : bool :=
  stepf && negb (kf_desc_int a s b) && negb (kf_diffov_int hi incl stepf a s b) && (a <=? b) &&
  negb (Z.max 0 (size_or0 (int_fp_size incl a s b)) =? zcount incl a s b).
Definition kf_trail_int (lo hi : Z) (incl stepf : bool) (a s b : Z) : bool :=
  negb (kf_desc_int a s b) && negb (kf_diffov_int hi incl stepf a s b) &&
  negb (kf_fpsize_int hi incl stepf a s b) && (0 <? zcount incl a s b) &&
  negb (inb lo hi (a + zcount incl a s b * s)).

Definition is_integer (q : Q) : bool := Zpos (Qden (Qred q)) =? 1.

Definition kf_class (c : rcase) : option string :=
  let f := rform c in let incl := form_incl f in let stepf := form_step f in
  match rkind c with
  | KInt lo hi =>
      let a := Qnum (ra c) in let s := Qnum (step_of c) in let b := Qnum (rb c) in
      if kf_desc_int a s b then Some "descending"
      else if kf_diffov_int hi incl stepf a s b then Some "diff-overflow"
      else if kf_fpsize_int hi incl stepf a s b then Some "fp-size"
      else if kf_trail_int lo hi incl stepf a s b then Some "trailing-add"
      else None
  | KFlt mb _ =>
      if spec_count c <=? 0 then None else
      if qneg (step_of c) then
        (if qneg (rb c - ra c) then Some "descending" else
         if negb (Z.max 0 (size_or0 (flt_size (mb + 1) incl stepf (ra c) (step_of c) (rb c))) =? spec_count c)
         then Some "fp-size" else None)
      else if negb stepf && negb incl && negb (is_integer (rb c - ra c)) then Some "excl-float-trunc"
      else if negb (Z.max 0 (size_or0 (flt_size (mb + 1) incl stepf (ra c) (step_of c) (rb c))) =? spec_count c)
           then Some "fp-size"
      else None
  | KRat => if spec_count c <=? 0 then None else Some "r64-unsupported"
  | KCpx => None
  end.

(* ================= comparing with the observation ================= *)

Fixpoint elems_match (kd : kind) (es : list sx) (qs : list Q) : bool :=
  match es, qs with
  | [], [] => true
  | e :: es', q :: qs' =>
      match decode_elem kd e with
      | Some q' => Qeq_bool q' q && elems_match kd es' qs'
      | None => false
      end
  | _, _ => false
  end.

(* range() returns a 1 x n row vector (RowDVector; 1x1 DMatrix for n = 1) *)
Definition obs_is_row (k : string) (kd : kind) (exp : list Q) (o : obs) : bool :=
  match o with
  | OVal (KM k' m) =>
      String.eqb k k' && Nat.eqb (mrows m) 1 && Nat.eqb (mcols m) (List.length exp)
      && elems_match kd (mdata m) exp
  | _ => false
  end.

Definition obs_is_empty_vec (k : string) (o : obs) : bool :=
  match o with
  | OVal (KM k' m) => String.eqb k k' && match mdata m with [] => true | _ => false end
  | _ => false
  end.

Definition obs_is_err (o : obs) : bool := match o with OErr => true | _ => false end.
Definition obs_is_err_or_panic (o : obs) : bool := match o with OErr | OPanic => true | _ => false end.

(* the property, decided on one observation; Some tag = holds *)
Definition result_ok (c : rcase) (o : obs) : option string :=
  match spec_terms c with
  | [] => if obs_is_err o then Some "empty-err"
          else if obs_is_empty_vec (rk c) o then Some "empty-vec" else None
  | [q] => if obs_is_row (rk c) (rkind c) [q] o then Some "single" else None
  | l => if obs_is_row (rk c) (rkind c) l o then Some "progression" else None
  end.

Definition obs_is_pred (c : rcase) (o : obs) : bool :=
  match impl_case c with
  | None => obs_is_err_or_panic o
  | Some l => obs_is_row (rk c) (rkind c) l o
  end.

(* binding region *)
Definition binding (c : rcase) : bool :=
  match rkind c with
  | KInt _ _ | KRat => true
  | KFlt mb eb => forallb (representable mb eb) (spec_terms c)
  | KCpx => false
  end.

Definition enc_q (q : Q) : sx := Lx [Zx (Qnum q); Zx (Zpos (Qden q))].
Definition enc_expected (l : list Q) : sx :=
  Lx [Ax "row"; Zx 1; Zx (Z.of_nat (List.length l)); Lx (map (fun q => enc_q (Qred q)) l)].

Definition count_limit : Z := 200000.

Definition judge_case (c : rcase) (o : obs) : sx :=
  match rkind c with
  | KCpx => if obs_is_err o then v_adv "c64-unordered-err" else v_adv "c64-unordered-value"
  | _ =>
    if count_limit <? spec_count c then v_adv "huge" else
    if negb (binding c) then
      (if obs_is_pred c o then v_adv "float-inexact-grid-as-modelled" else v_adv "float-inexact-grid-unmodelled")
    else
    match result_ok c o with
    | Some tag => v_ok tag
    | None =>
        match kf_class c with
        | Some id => if obs_is_pred c o then v_kf id else v_bad "not-the-progression" (enc_expected (spec_terms c))
        | None => v_bad "not-the-progression" (enc_expected (spec_terms c))
        end
    end
  end.

(* ---- decoding the case ---- *)
Definition decode_case (k f : string) (a s b : sx) : option rcase :=
  match kind_of_name k, form_of_name f with
  | Some kd, Some fm =>
      match decode_elem kd a, decode_elem kd s, decode_elem kd b with
      | Some qa, Some qs, Some qb => Some (RCase k kd fm qa qs qb)
      | _, _, _ => None
      end
  | _, _ => None
  end.

Definition nonfinite_case (k : string) (a s b : sx) : bool :=
  match kind_of_name k with
  | Some (KFlt mb eb) =>
      match a, s, b with
      | Zx x, Zx y, Zx z =>
          let ok v := inb 0 (2 ^ (mb + eb + 1) - 1) v in
          ok x && ok y && ok z &&
          match decode_float mb eb x, decode_float mb eb y, decode_float mb eb z with
          | Some _, Some _, Some _ => false
          | _, _, _ => true
          end
      | _, _, _ => false
      end
  | _ => false
  end.

(* ---- a range used as an index: x = [10 20 ... 10*L] (u64 row vector), x[range] ---- *)
Definition ix_expected (c : rcase) (len : Z) : option (list Z) :=
  let l := spec_terms c in
  match l with
  | [] => None
  | _ => if forallb (fun q => is_integer q && inb 1 len (Qnum (Qred q))) l
         then Some (map (fun q => 10 * Qnum (Qred q)) l) else None
  end.

Definition zs_match (es : list sx) (zs : list Z) : bool := sxs_eqb es (map Zx zs).

Definition obs_is_selection (zs : list Z) (o : obs) : bool :=
  match o with
  | OVal (KM k m) =>
      String.eqb k "u64" && zs_match (mdata m) zs &&
      ((Nat.eqb (mrows m) (List.length zs) && Nat.eqb (mcols m) 1)
       || (Nat.eqb (mrows m) 1 && Nat.eqb (mcols m) (List.length zs)))
  | OVal (KS k e) => String.eqb k "u64" && zs_match [e] zs
  | _ => false
  end.

Definition judge_ix (c : rcase) (len : Z) (o : obs) : sx :=
  match rkind c with
  | KCpx => v_adv "ix-c64"
  | _ =>
    if count_limit <? spec_count c then v_adv "huge" else
    if negb (binding c) then v_adv "ix-float-inexact-grid" else
    match ix_expected c len with
    | None => if obs_is_err o then v_adv "ix-empty-or-out-of-bounds-err" else v_adv "ix-empty-or-out-of-bounds-value"
    | Some zs =>
        if obs_is_selection zs o then v_ok "index-selection"
        else if Nat.eqb (List.length zs) 1 && obs_is_err o then v_adv "ix-single-element-index-err"
        else match kf_class c, impl_case c with
             | Some id, None => if obs_is_err_or_panic o then v_kf id else v_bad "ix-wrong-selection" (Lx (map Zx zs))
             | _, _ => v_bad "ix-wrong-selection" (Lx (map Zx zs))
             end
    end
  end.

Definition judge_range (x : sx) : sx :=
  match x with
  | Lx [Lx [Ax "range"; Ax k; Ax f; a; s; b]; o] =>
      match decode_case k f a s b with
      | Some c => judge_case c (decode_obs o)
      | None => if nonfinite_case k a s b then v_adv "non-finite-operand" else v_malformed
      end
  | Lx [Lx [Ax "rangeix"; Ax k; Ax f; a; s; b; Zx len]; o] =>
      match decode_case k f a s b with
      | Some c => judge_ix c len (decode_obs o)
      | None => v_malformed
      end
  | _ => v_malformed
  end.

Definition run_line (s : string) : string := run_with judge_range s.
