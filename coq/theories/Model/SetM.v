(* C14 — sets: distinct elements of one kind, set algebra.  Executable definitions only.

   Two layers.
   (1) The mathematical model: values with the canonical equality [veq]
       (numbers by value, tuples componentwise, nested sets by mutual inclusion),
       a set = a list without two [veq]-equal elements, [of_list] (what
       MechSet::from_vec does with a correct Hash/Eq pair) and the operators of
       machines/set written the way indexmap computes them
       (union = lhs ++ (rhs \ lhs), intersection/difference = filtered lhs,
       symmetric difference = (lhs \ rhs) ++ (rhs \ lhs), then collect()).
   (2) The faithful model [F*]: the same operators over the lookups that
       IndexSet<Value> really performs with the hand-written `impl Hash for Value`
       (src/core/src/value.rs:648, set.rs:94, tuple.rs:70): an insert/lookup finds
       an entry iff the hash streams agree ([heq]: f64 by to_bits, nested sets in
       iteration order) — except IndexMap::get_index_of's single-entry fast path,
       which compares with PartialEq only ([feq], itself hash-dependent for nested
       sets of >= 2 elements).  It predicts the defective behaviour exactly.

   The judge is a checker on the implementation's observation. *)
From Coq Require Import List ZArith String Bool Arith.
From MechV Require Import Base.Sexp Base.Obs.
Import ListNotations.
Open Scope string_scope.
Open Scope list_scope.

(* ------------------------------------------------------------------ *)
(* 1. list-sets over an arbitrary boolean equality                      *)
(* ------------------------------------------------------------------ *)
Section ListSet.
  Context {A : Type} (eqb : A -> A -> bool).

  Definition memb (x : A) (l : list A) : bool := existsb (eqb x) l.

  (* IndexSet::insert: keep the first occurrence, append at the end *)
  Definition add (acc : list A) (x : A) : list A := if memb x acc then acc else acc ++ [x].
  Definition of_list (l : list A) : list A := fold_left add l [].

  Fixpoint nodupb (l : list A) : bool :=
    match l with [] => true | x :: r => negb (memb x r) && nodupb r end.

  Definition keep_in (b a : list A) : list A := filter (fun x => memb x b) a.
  Definition keep_out (b a : list A) : list A := filter (fun x => negb (memb x b)) a.

  Definition union (a b : list A) : list A := of_list (a ++ keep_out a b).
  Definition inter (a b : list A) : list A := of_list (keep_in b a).
  Definition diff (a b : list A) : list A := of_list (keep_out b a).
  Definition symdiff (a b : list A) : list A := of_list (keep_out b a ++ keep_out a b).

  Definition subset (a b : list A) : bool := forallb (fun x => memb x b) a.
  Definition psubset (a b : list A) : bool := subset a b && negb (subset b a).
  Definition superset (a b : list A) : bool := subset b a.
  Definition psuperset (a b : list A) : bool := psubset b a.
  (* what machines/set/src/relations/proper_subset.rs computes *)
  Definition psubset_len (a b : list A) : bool := subset a b && Nat.ltb (List.length a) (List.length b).
  Definition same_elems (a b : list A) : bool := subset a b && subset b a.
End ListSet.

Section All2.
  Context {A : Type} (f : A -> A -> bool).
  Fixpoint all2 (l l' : list A) : bool :=
    match l, l' with
    | [], [] => true
    | x :: r, y :: r' => f x y && all2 r r'
    | _, _ => false
    end.
End All2.

(* ------------------------------------------------------------------ *)
(* 2. values                                                            *)
(* ------------------------------------------------------------------ *)
Inductive val : Type :=
| VInt (k : string) (z : Z)                 (* u8..i128 by value *)
| VFlt (k : string) (bits : Z)              (* f64 / f32 by IEEE bit pattern (NaN excluded by val_ok) *)
| VRat (n d : Z)                            (* reduced fraction, d > 0 (as R64 stores it) *)
| VStr (s : string)
| VBool (b : bool)
| VTup (l : list val)
| VSet (k : string) (n : Z) (l : list val). (* reported element-kind text, reported num_elements, elements *)

Definition sign_bit (k : string) : Z :=
  if String.eqb k "f32" then 2147483648%Z else 9223372036854775808%Z.
Definition exp_mask (k : string) : Z :=
  if String.eqb k "f32" then 2139095040%Z else 9218868437227405312%Z.
Definition fzero (k : string) (b : Z) : bool := Z.eqb b 0 || Z.eqb b (sign_bit k).
Definition fnan (k : string) (b : Z) : bool := Z.ltb (exp_mask k) (Z.modulo b (sign_bit k)).

(* canonical (mathematical) equality *)
Fixpoint veq (a b : val) {struct a} : bool :=
  match a, b with
  | VInt k x, VInt k' y => String.eqb k k' && Z.eqb x y
  | VFlt k x, VFlt k' y => String.eqb k k' && (Z.eqb x y || (fzero k x && fzero k y))
  | VRat n d, VRat n' d' => Z.eqb n n' && Z.eqb d d'
  | VStr s, VStr s' => String.eqb s s'
  | VBool x, VBool y => Bool.eqb x y
  | VTup l, VTup l' => all2 veq l l'
  | VSet _ _ l, VSet _ _ l' =>
      forallb (fun x => existsb (veq x) l') l && forallb (fun y => existsb (fun x => veq x y) l) l'
  | _, _ => false
  end.

(* equality of the byte streams fed to the Hasher by `impl Hash for Value` *)
Fixpoint heq (a b : val) {struct a} : bool :=
  match a, b with
  | VInt k x, VInt k' y => String.eqb k k' && Z.eqb x y
  | VFlt k x, VFlt k' y => String.eqb k k' && Z.eqb x y
  | VRat n d, VRat n' d' => Z.eqb n n' && Z.eqb d d'
  | VStr s, VStr s' => String.eqb s s'
  | VBool x, VBool y => Bool.eqb x y
  | VTup l, VTup l' => all2 heq l l'
  | VSet _ _ l, VSet _ _ l' => all2 heq l l'
  | _, _ => false
  end.

(* the derived PartialEq of Value as it really evaluates: IndexSet == IndexSet is
   `len == len && all(|v| other.contains(v))`, and contains() is the hash lookup
   unless `other` has exactly one entry *)
Fixpoint feq (a b : val) {struct a} : bool :=
  match a, b with
  | VInt k x, VInt k' y => String.eqb k k' && Z.eqb x y
  | VFlt k x, VFlt k' y => String.eqb k k' && (Z.eqb x y || (fzero k x && fzero k y))
  | VRat n d, VRat n' d' => Z.eqb n n' && Z.eqb d d'
  | VStr s, VStr s' => String.eqb s s'
  | VBool x, VBool y => Bool.eqb x y
  | VTup l, VTup l' => all2 feq l l'
  | VSet _ _ l, VSet _ _ l' =>
      Nat.eqb (List.length l) (List.length l') &&
      forallb (fun x => match l' with
                        | [] => false
                        | [y] => feq x y
                        | _ => existsb (heq x) l'
                        end) l
  | _, _ => false
  end.

(* ---------- kinds as the harness prints them (Display of ValueKind) ---------- *)
Fixpoint join_comma (l : list string) : string :=
  match l with
  | [] => ""
  | [s] => s
  | s :: r => String.append s (String.append "," (join_comma r))
  end.

Fixpoint kind_text (v : val) : string :=
  match v with
  | VInt k _ => k
  | VFlt k _ => k
  | VRat _ _ => "r64"
  | VStr _ => "string"
  | VBool _ => "bool"
  | VTup l => String.append "(" (String.append (join_comma (map kind_text l)) ")")
  | VSet k n _ =>
      String.append "{" (String.append k (String.append "}"
        (if Z.eqb n 0 then "" else String.append ":" (show_Z n))))
  end.

Definition elem_kind (l : list val) : string :=
  match l with [] => "_" | x :: _ => kind_text x end.

Definition uniform (l : list val) : bool :=
  match l with [] => true | x :: r => forallb (fun v => String.eqb (kind_text v) (kind_text x)) r end.

Definition kinds_ok (k : string) (l : list val) : bool :=
  match l with
  | [] => String.eqb k "_"
  | _ => forallb (fun v => String.eqb (kind_text v) k) l
  end.

(* a value as observed is well formed: no NaN, reduced-looking rationals, and every
   nested set satisfies the set invariant itself *)
Fixpoint val_ok (v : val) : bool :=
  match v with
  | VInt _ _ => true
  | VFlt k b => Z.leb 0 b && Z.ltb b (2 * sign_bit k) && negb (fnan k b)
  | VRat _ d => Z.ltb 0 d
  | VStr _ => true
  | VBool _ => true
  | VTup l => forallb val_ok l
  | VSet k n l =>
      nodupb veq l && Z.eqb n (Z.of_nat (List.length l)) && kinds_ok k l && forallb val_ok l
  end.

(* written values carry no kind/size annotations on nested sets: compute them *)
Fixpoint annot (v : val) : val :=
  match v with
  | VTup l => VTup (map annot l)
  | VSet _ _ l => let l' := map annot l in VSet (elem_kind l') (Z.of_nat (List.length l')) l'
  | _ => v
  end.

(* -0.0 -> +0.0 everywhere (used to tell the two hash/eq mismatch classes apart) *)
Fixpoint norm0 (v : val) : val :=
  match v with
  | VFlt k b => if fzero k b then VFlt k 0 else v
  | VTup l => VTup (map norm0 l)
  | VSet k n l => VSet k n (map norm0 l)
  | _ => v
  end.

(* ------------------------------------------------------------------ *)
(* 3. comprehensions                                                    *)
(* ------------------------------------------------------------------ *)
Inductive term : Type := TVar (x : string) | TConst (v : val) | TPair (a b : term).
Inductive pat : Type := PVar (x : string) | PWild | PPair (a b : pat).
Inductive cmpop : Type := CEq | CNe | CLt | CGt | CLe | CGe.
(* the source collection of a DEPENDENT generator: an expression over the variables bound by
   earlier qualifiers, evaluated anew in every environment (expressions.rs::comprehension_environments:
   `for env in &envs { let collection = expression(expr, Some(env), &new_p)?; ...`) *)
Inductive coll : Type :=
| KSet (ts : list term)                    (* a set literal {t1, ..., tn} over earlier variables and constants *)
| KVar (x : string).                       (* a variable bound by an earlier qualifier (to a set value) *)
Inductive qual : Type :=
| QGen (p : pat) (src : list val)          (* p <- src, src a constant collection (literal, outer variable, matrix) *)
| QGenD (p : pat) (c : coll)               (* p <- c, c depends on the environment *)
| QFilter (o : cmpop) (a b : term).        (* a o b *)

Definition env : Type := list (string * val).

Fixpoint lookup (x : string) (e : env) : option val :=
  match e with
  | [] => None
  | (y, v) :: r => if String.eqb x y then Some v else lookup x r
  end.

(* pattern_match_value: an already bound variable must be equal to the value (a join) *)
Fixpoint pmatch (p : pat) (v : val) (e : env) : option env :=
  match p with
  | PWild => Some e
  | PVar x => match lookup x e with
              | Some w => if veq w v then Some e else None
              | None => Some ((x, v) :: e)
              end
  | PPair p1 p2 =>
      match v with
      | VTup [a; b] => match pmatch p1 a e with Some e1 => pmatch p2 b e1 | None => None end
      | _ => None
      end
  end.

Fixpoint eval_term (e : env) (t : term) : option val :=
  match t with
  | TVar x => lookup x e
  | TConst v => Some v
  | TPair a b => match eval_term e a, eval_term e b with
                 | Some x, Some y => Some (VTup [x; y])
                 | _, _ => None
                 end
  end.

(* numeric order key of a float bit pattern (NaN excluded): monotone in the value *)
Definition fkey (k : string) (b : Z) : Z := if Z.ltb b (sign_bit k) then b else (sign_bit k - b)%Z.

Definition vcompare (a b : val) : option comparison :=
  match a, b with
  | VInt k x, VInt k' y => if String.eqb k k' then Some (Z.compare x y) else None
  | VFlt k x, VFlt k' y => if String.eqb k k' then Some (Z.compare (fkey k x) (fkey k y)) else None
  | VRat n d, VRat n' d' => Some (Z.compare (n * d') (n' * d))
  | _, _ => None
  end.

Definition scalar (v : val) : bool :=
  match v with VTup _ | VSet _ _ _ => false | _ => true end.

(* None = a comparison the check does not cover (kept out by the generator) *)
Definition eval_cmp (o : cmpop) (a b : val) : option bool :=
  match o with
  | CEq => if scalar a && scalar b && String.eqb (kind_text a) (kind_text b) then Some (veq a b) else None
  | CNe => if scalar a && scalar b && String.eqb (kind_text a) (kind_text b) then Some (negb (veq a b)) else None
  | CLt => match vcompare a b with Some Lt => Some true | Some _ => Some false | None => None end
  | CGt => match vcompare a b with Some Gt => Some true | Some _ => Some false | None => None end
  | CLe => match vcompare a b with Some Gt => Some false | Some _ => Some true | None => None end
  | CGe => match vcompare a b with Some Lt => Some false | Some _ => Some true | None => None end
  end.

Definition filter_env (o : cmpop) (a b : term) (e : env) : option bool :=
  match eval_term e a, eval_term e b with
  | Some x, Some y => eval_cmp o x y
  | _, _ => None
  end.

Fixpoint filter_map {A B} (f : A -> option B) (l : list A) : list B :=
  match l with
  | [] => []
  | a :: r => match f a with Some b => b :: filter_map f r | None => filter_map f r end
  end.

(* the elements a dependent generator ranges over IN ENVIRONMENT e, in iteration order.
   None = the evaluator raises an error and the whole comprehension has no value:
   - {t1, ..., tn}: interpreter/structures.rs::set evaluates every element (an unbound variable is
     UndefinedVariable: generated programs define no global of that name), refuses elements of
     different kinds (SetKindMismatch) and builds the set with MechSet::from_vec (duplicates removed,
     first occurrences kept);
   - a variable: its value must be a set (comprehension_generator_values: anything that is not a
     collection is ComprehensionGenerator; the value universe here has no matrices), whose elements
     are taken in the set's own order. *)
Definition coll_elems (e : env) (c : coll) : option (list val) :=
  match c with
  | KSet ts => match map_opt (eval_term e) ts with
               | Some vs => if uniform vs then Some (of_list veq vs) else None
               | None => None
               end
  | KVar x => match lookup x e with
              | Some (VSet _ _ l) => Some l
              | _ => None
              end
  end.

(* one environment, one collection: the elements that match the pattern extend the environment
   (`if pattern_match_value(pttrn, &elmnt, &mut new_env).is_ok() { new_envs.push(new_env) }`) *)
Definition gen_matches (p : pat) (e : env) (l : list val) : list env :=
  filter_map (fun v => pmatch p v e) l.

(* comprehension_environments: qualifiers left to right over the list of environments.
   A generator visits the environments in order and, for EACH of them, evaluates its collection in
   that environment and appends the matches; the first error aborts (`?`).  With no environment
   left the collection is never evaluated: no error, no environments.  None = error. *)
Definition step_qual (envs : list env) (q : qual) : option (list env) :=
  match q with
  | QGen p src => Some (flat_map (fun e => gen_matches p e src) envs)
  | QGenD p c =>
      option_map (@List.concat env)
                 (map_opt (fun e => option_map (gen_matches p e) (coll_elems e c)) envs)
  | QFilter o a b => Some (filter (fun e => match filter_env o a b e with Some true => true | _ => false end) envs)
  end.

Fixpoint run_from (envs : list env) (qs : list qual) : option (list env) :=
  match qs with
  | [] => Some envs
  | q :: r => match step_qual envs q with Some envs' => run_from envs' r | None => None end
  end.

Definition run_quals (qs : list qual) : option (list env) := run_from [[]] qs.

(* all filters that are reached are decidable by the model (coverage of the check, not of mech) *)
Fixpoint quals_ok (envs : list env) (qs : list qual) : bool :=
  match qs with
  | [] => true
  | q :: r =>
      (match q with
       | QFilter o a b => forallb (fun e => match filter_env o a b e with Some _ => true | None => false end) envs
       | _ => true
       end) && match step_qual envs q with Some envs' => quals_ok envs' r | None => true end
  end.

(* the values of the output term, one per environment, in order; None = no value (an error, an
   uncovered filter or an output term that is undefined in some environment) *)
Definition comp_values (out : term) (qs : list qual) : option (list val) :=
  if quals_ok [[]] qs then
    match run_quals qs with
    | Some envs => map_opt (fun e => eval_term e out) envs
    | None => None
    end
  else None.

(* a dependent generator's collection cannot be evaluated in an environment that is reached *)
Definition comp_raises (qs : list qual) : bool :=
  quals_ok [[]] qs && match run_quals qs with None => true | Some _ => false end.

(* ------------------------------------------------------------------ *)
(* 4. cases, expected results                                           *)
(* ------------------------------------------------------------------ *)
Inductive setop : Type := OUnion | OInter | ODiff | OSym.
Inductive relop : Type := RSub | RPSub | RSup | RPSup.

(* The flags ra / rb say that the elements of that operand's literal were written as
   *variables* (`a := 1; b := 2; A := {a, b}`) rather than as literals; they do not
   change the mathematical meaning. *)
Inductive case : Type :=
| CLit (ra : bool) (a : list val)            (* literal / matrix conversion: elements as written *)
| CBin (o : setop) (ra rb : bool) (a b : list val)
| CRel (r : relop) (ra rb : bool) (a b : list val)
| CMem (neg : bool) (ra : bool) (x : val) (a : list val)
| CComp (out : term) (qs : list qual).

(* EErr: the evaluator raises an error (a comprehension whose dependent generator ranges over something
   that is not a set / is unbound / mixes kinds); the property fixes nothing there: advisory *)
Inductive expect : Type := ESet (l : list val) | EBool (b : bool) | EErr | ENone.

Definition set_op (o : setop) : list val -> list val -> list val :=
  match o with OUnion => union veq | OInter => inter veq | ODiff => diff veq | OSym => symdiff veq end.
Definition rel_op (r : relop) : list val -> list val -> bool :=
  match r with RSub => subset veq | RPSub => psubset veq | RSup => superset veq | RPSup => psuperset veq end.

Definition expected (c : case) : expect :=
  match c with
  | CLit _ a => ESet (of_list veq a)
  | CBin o _ _ a b => ESet (set_op o (of_list veq a) (of_list veq b))
  | CRel r _ _ a b => EBool (rel_op r (of_list veq a) (of_list veq b))
  | CMem neg _ x a => EBool (xorb neg (memb veq x (of_list veq a)))
  | CComp out qs => match comp_values out qs with
                    | Some vs => ESet (of_list veq vs)
                    | None => if comp_raises qs then EErr else ENone
                    end
  end.

(* ---------- observations ---------- *)
Inductive sobs : Type :=
| SSet (k : string) (n : Z) (l : list val)
| SBool (b : bool)
| SErr
| SOther.

(* ---------- the checker ---------- *)
Inductive verdict : Type := VOk (tag : string) | VBad (why : string).

Definition check_set (E : list val) (k : string) (n : Z) (l : list val) : verdict :=
  if negb (nodupb veq l) then VBad "duplicate-elements"
  else if negb (Z.eqb n (Z.of_nat (List.length l))) then VBad "size-differs-from-element-count"
  else if negb (same_elems veq l E) then VBad "wrong-elements"
  else if negb (kinds_ok k l && forallb val_ok l) then VBad "element-kind"
  else VOk (match l with [] => "empty-set" | _ => "set" end).

Definition check (c : case) (o : sobs) : verdict :=
  match expected c, o with
  | ESet E, SSet k n l => check_set E k n l
  | ESet E, SErr => if uniform E then VBad "unexpected-error" else VOk "kind-error"
  | ESet _, _ => VBad "expected-a-set"
  | EBool b, SBool b' => if Bool.eqb b b' then VOk (if b then "true" else "false") else VBad "wrong-truth-value"
  | EBool _, _ => VBad "expected-a-bool"
  | EErr, _ => VBad "no-value-expected"
  | ENone, _ => VBad "malformed-case"
  end.

(* ------------------------------------------------------------------ *)
(* 5. the faithful model of IndexSet<Value> with the hand-written Hash   *)
(* ------------------------------------------------------------------ *)
(* A set literal whose elements are variables stores Value::MutableReference entries
   (interpreter/structures.rs::set does not detach them): two references compare by
   value, but a reference is never == a plain value (derived PartialEq, different
   variants) although both hash alike, and its kind is Reference(k), not k.
   Entries are therefore modelled as (is_reference, value). *)
Definition tval : Type := (bool * val)%type.
Definition theq (x y : tval) : bool := Bool.eqb (fst x) (fst y) && heq (snd x) (snd y).
Definition tfeq (x y : tval) : bool := Bool.eqb (fst x) (fst y) && feq (snd x) (snd y).
Definition tag (r : bool) (l : list val) : list tval := map (pair r) l.

(* insert(): hash lookup; an entry is found iff the hash streams agree and == holds
   (equal streams of two entries of the same sort imply ==) *)
Definition Fbuild (l : list tval) : list tval := of_list theq l.
(* contains() = get_index_of(): single-entry fast path compares with == only *)
Definition Fget (x : tval) (s : list tval) : bool :=
  match s with
  | [] => false
  | [y] => tfeq x y
  | _ => memb theq x s
  end.

Definition Fop (o : setop) (a b : list tval) : list tval :=
  match o with
  | OUnion => Fbuild (a ++ filter (fun x => negb (Fget x a)) b)
  | OInter => Fbuild (filter (fun x => Fget x b) a)
  | ODiff => Fbuild (filter (fun x => negb (Fget x b)) a)
  | OSym => Fbuild (filter (fun x => negb (Fget x b)) a ++ filter (fun x => negb (Fget x a)) b)
  end.

Definition Fsubset (a b : list tval) : bool :=
  Nat.leb (List.length a) (List.length b) && forallb (fun x => Fget x b) a.
Definition Frel (r : relop) (a b : list tval) : bool :=
  match r with
  | RSub => Fsubset a b
  | RPSub => Fsubset a b && Nat.ltb (List.length a) (List.length b)
  | RSup => Fsubset b a
  | RPSup => Fsubset b a && Nat.ltb (List.length b) (List.length a)
  end.
(* element_of.rs: false unless the element's kind is the set's kind; the tested
   element is always a plain value (function arguments are detached) *)
Definition Fmem (x : val) (s : list tval) : bool :=
  match s with
  | [] => false
  | (r, y) :: _ => negb r && String.eqb (kind_text y) (kind_text x) && Fget (false, x) s
  end.

Definition mk_set (l : list tval) : sobs :=
  let l' := map snd l in SSet (elem_kind l') (Z.of_nat (List.length l')) l'.

(* None: not modelled (comprehensions) *)
Definition faithful (c : case) : option sobs :=
  match c with
  | CLit ra a => Some (if uniform a then mk_set (Fbuild (tag ra a)) else SErr)
  | CBin o ra rb a b => Some (mk_set (Fop o (Fbuild (tag ra a)) (Fbuild (tag rb b))))
  | CRel r ra rb a b => Some (SBool (Frel r (Fbuild (tag ra a)) (Fbuild (tag rb b))))
  | CMem neg ra x a => Some (SBool (xorb neg (Fmem x (Fbuild (tag ra a)))))
  | CComp _ _ => None
  end.

(* ---------- known-finding classes ---------- *)
Definition written (c : case) : list val :=
  match c with
  | CLit _ a => a
  | CBin _ _ _ a b => a ++ b
  | CRel _ _ _ a b => a ++ b
  | CMem _ _ x a => x :: a
  | CComp _ _ => []
  end.

(* on the pair (x,y) the hash, the implementation's == and the mathematical equality agree,
   and equal values have equal kinds *)
Definition agree (x y : val) : bool :=
  Bool.eqb (heq x y) (veq x y) && Bool.eqb (feq x y) (veq x y) &&
  implb (veq x y) (String.eqb (kind_text x) (kind_text y)).
Definition all_agree (l : list val) : bool := forallb (fun x => forallb (agree x) l) l.

Definition mixed_operands (c : case) : bool :=
  match c with
  | CBin o _ _ (x :: _) (y :: _) =>
      (match o with OUnion | OSym => true | _ => false end) && negb (String.eqb (kind_text x) (kind_text y))
  | _ => false
  end.

Definition nonempty (l : list val) : bool := match l with [] => false | _ => true end.
(* one operand holds references, the other plain values, and neither is empty *)
Definition variable_elements (c : case) : bool :=
  match c with
  | CBin _ ra rb a b => negb (Bool.eqb ra rb) && nonempty a && nonempty b
  | CRel _ ra rb a b => negb (Bool.eqb ra rb) && nonempty a && nonempty b
  | CMem _ ra _ a => ra && nonempty a
  | _ => false
  end.

Definition kf_class (c : case) : option string :=
  match c with
  | CComp _ _ => None
  | _ =>
      if variable_elements c then Some "variable-elements"
      else if mixed_operands c then Some "mixed-kind-operands"
      else if all_agree (written c) then None
      else if all_agree (map norm0 (written c)) then Some "signed-zero"
      else Some "nested-set-order"
  end.

(* ---------- structural equality of observations (for the exact kf match) ---------- *)
Fixpoint val_eqb (a b : val) {struct a} : bool :=
  match a, b with
  | VInt k x, VInt k' y => String.eqb k k' && Z.eqb x y
  | VFlt k x, VFlt k' y => String.eqb k k' && Z.eqb x y
  | VRat n d, VRat n' d' => Z.eqb n n' && Z.eqb d d'
  | VStr s, VStr s' => String.eqb s s'
  | VBool x, VBool y => Bool.eqb x y
  | VTup l, VTup l' => all2 val_eqb l l'
  | VSet k n l, VSet k' n' l' => String.eqb k k' && Z.eqb n n' && all2 val_eqb l l'
  | _, _ => false
  end.

Definition sobs_eqb (a b : sobs) : bool :=
  match a, b with
  | SSet k n l, SSet k' n' l' => String.eqb k k' && Z.eqb n n' && all2 val_eqb l l'
  | SBool x, SBool y => Bool.eqb x y
  | SErr, SErr => true
  | _, _ => false
  end.

(* ---------- well-formed cases ---------- *)
Definition operands_ok (c : case) : bool :=
  match c with
  | CLit _ _ => true
  | CBin _ _ _ a b => uniform a && uniform b
  | CRel _ _ _ a b => uniform a && uniform b
  | CMem _ _ _ a => uniform a
  | CComp _ qs => forallb (fun q => match q with QGen _ src => uniform src | _ => true end) qs
  end.

Fixpoint term_vals (t : term) : list val :=
  match t with TVar _ => [] | TConst v => [v] | TPair a b => term_vals a ++ term_vals b end.

Definition case_vals (c : case) : list val :=
  match c with
  | CComp out qs =>
      term_vals out ++
      flat_map (fun q => match q with
                         | QGen _ src => src
                         | QGenD _ (KSet ts) => flat_map term_vals ts
                         | QGenD _ (KVar _) => []
                         | QFilter _ a b => term_vals a ++ term_vals b
                         end) qs
  | _ => written c
  end.

Definition wf_case (c : case) : bool :=
  forallb val_ok (case_vals c) && operands_ok c &&
  match expected c with ENone => false | _ => true end.

(* ---------- the judge: several runs of the same program (fresh interpreters; the
   hasher of every IndexSet is randomly keyed, so the defective behaviour is only
   *almost* deterministic: two unequal hashes share hashbrown's 7-bit tag with p = 1/128) *)
Definition is_ok (v : verdict) : bool := match v with VOk _ => true | VBad _ => false end.

Definition encode_expect (e : expect) : sx :=
  match e with
  | ESet l => Lx [Ax "set-of"; Zx (Z.of_nat (List.length l))]
  | EBool b => Lx [Ax "bool"; Zx (if b then 1 else 0)]
  | EErr => Ax "error"
  | ENone => Ax "none"
  end.

Fixpoint first_bad (c : case) (os : list sobs) : sx :=
  match os with
  | [] => v_malformed
  | o :: r => match check c o with
              | VBad why => v_bad why (encode_expect (expected c))
              | VOk _ => first_bad c r
              end
  end.

Definition judge_val (c : case) (os : list sobs) : sx :=
  match os with
  | [] => v_malformed
  | o0 :: _ =>
      if forallb (fun o => is_ok (check c o)) os
      then match check c o0 with VOk t => v_ok t | VBad _ => v_malformed end
      else match kf_class c, faithful c with
           | Some id, Some p => if existsb (sobs_eqb p) os then v_kf id else first_bad c os
           | _, _ => first_bad c os
           end
  end.

(* where the model predicts an error the property fixes nothing: advisory, with the tag saying whether
   the implementation raised one too *)
Definition is_err (o : sobs) : bool := match o with SErr => true | _ => false end.

Definition judge_case (c : case) (os : list sobs) : sx :=
  match expected c with
  | EErr => match os with
            | [] => v_malformed
            | _ => if forallb is_err os then v_adv "generator-error" else v_adv "generator-error-not-raised"
            end
  | _ => judge_val c os
  end.

(* ------------------------------------------------------------------ *)
(* 6. decoders                                                          *)
(* ------------------------------------------------------------------ *)
Definition int_kind (k : string) : bool :=
  existsb (String.eqb k) ["u8"; "u16"; "u32"; "u64"; "u128"; "i8"; "i16"; "i32"; "i64"; "i128"].
Definition flt_kind (k : string) : bool := String.eqb k "f64" || String.eqb k "f32".

Definition dec_scalar (k : string) (p : sx) : option val :=
  match p with
  | Zx z =>
      if int_kind k then Some (VInt k z)
      else if flt_kind k then Some (VFlt k z)
      else if String.eqb k "bool" then (if Z.eqb z 0 then Some (VBool false) else if Z.eqb z 1 then Some (VBool true) else None)
      else None
  | Qx s => if String.eqb k "string" then Some (VStr s) else None
  | Lx [Zx n; Zx d] => if String.eqb k "r64" then Some (VRat n d) else None
  | _ => None
  end.

Fixpoint dec_val (x : sx) : option val :=
  match x with
  | Lx (Ax h :: rest) =>
      let go := fix go (l : list sx) : option (list val) :=
                  match l with
                  | [] => Some []
                  | y :: r => match dec_val y, go r with Some v, Some vs => Some (v :: vs) | _, _ => None end
                  end in
      if String.eqb h "s" then
        match rest with [Ax k; p] => dec_scalar k p | _ => None end
      else if String.eqb h "tuple" then option_map VTup (go rest)
      else if String.eqb h "set" then
        match rest with
        | [Qx k; Zx n; Lx l] => option_map (VSet k n) (go l)
        | _ => None
        end
      else None
  | _ => None
  end.

Definition dec_vals (x : sx) : option (list val) :=
  match x with Lx l => map_opt dec_val l | _ => None end.

(* written values: annotations of nested sets are recomputed *)
Definition dec_wvals (x : sx) : option (list val) := option_map (map annot) (dec_vals x).
Definition dec_wval (x : sx) : option val := option_map annot (dec_val x).

Definition dec_sobs (x : sx) : sobs :=
  match x with
  | Lx (Ax h :: _) =>
      if String.eqb h "err" then SErr
      else match dec_val x with
           | Some (VSet k n l) => SSet k n l
           | Some (VBool b) => SBool b
           | _ => SOther
           end
  | _ => SOther
  end.

Fixpoint dec_term (x : sx) : option term :=
  match x with
  | Lx [Ax h; a] =>
      if String.eqb h "v" then match a with Ax n => Some (TVar n) | _ => None end
      else if String.eqb h "c" then option_map TConst (dec_wval a)
      else None
  | Lx [Ax h; a; b] =>
      if String.eqb h "pair" then
        match dec_term a, dec_term b with Some s, Some t => Some (TPair s t) | _, _ => None end
      else None
  | _ => None
  end.

Fixpoint dec_pat (x : sx) : option pat :=
  match x with
  | Lx [Ax h] => if String.eqb h "w" then Some PWild else None
  | Lx [Ax h; Ax n] => if String.eqb h "v" then Some (PVar n) else None
  | Lx [Ax h; a; b] =>
      if String.eqb h "pair" then
        match dec_pat a, dec_pat b with Some s, Some t => Some (PPair s t) | _, _ => None end
      else None
  | _ => None
  end.

Definition dec_cmpop (s : string) : option cmpop :=
  if String.eqb s "eq" then Some CEq else if String.eqb s "ne" then Some CNe
  else if String.eqb s "lt" then Some CLt else if String.eqb s "gt" then Some CGt
  else if String.eqb s "le" then Some CLe else if String.eqb s "ge" then Some CGe else None.

(* (lit t1 ... tn) | (var x) *)
Definition dec_coll (x : sx) : option coll :=
  match x with
  | Lx (Ax h :: rest) =>
      if String.eqb h "lit" then option_map KSet (map_opt dec_term rest)
      else if String.eqb h "var" then match rest with [Ax n] => Some (KVar n) | _ => None end
      else None
  | _ => None
  end.

Definition dec_qual (x : sx) : option qual :=
  match x with
  | Lx [Ax h; p; src] =>
      if String.eqb h "gen" then
        match dec_pat p, dec_wvals src with Some p', Some l => Some (QGen p' l) | _, _ => None end
      else if String.eqb h "gend" then
        match dec_pat p, dec_coll src with Some p', Some c => Some (QGenD p' c) | _, _ => None end
      else None
  | Lx [Ax h; Ax o; a; b] =>
      if String.eqb h "flt" then
        match dec_cmpop o, dec_term a, dec_term b with
        | Some o', Some a', Some b' => Some (QFilter o' a' b')
        | _, _, _ => None
        end
      else None
  | _ => None
  end.

Definition dec_setop (s : string) : option setop :=
  if String.eqb s "union" then Some OUnion else if String.eqb s "inter" then Some OInter
  else if String.eqb s "diff" then Some ODiff else if String.eqb s "symdiff" then Some OSym else None.
Definition dec_relop (s : string) : option relop :=
  if String.eqb s "subset" then Some RSub else if String.eqb s "psubset" then Some RPSub
  else if String.eqb s "superset" then Some RSup else if String.eqb s "psuperset" then Some RPSup else None.

Definition flag (z : Z) : bool := negb (Z.eqb z 0).

Definition dec_case (x : sx) : option case :=
  match x with
  | Lx [Ax h; Zx ra; a] =>
      if String.eqb h "lit" then option_map (CLit (flag ra)) (dec_wvals a) else None
  | Lx [Ax h; Ax o; Zx ra; Zx rb; a; b] =>
      if String.eqb h "bin" then
        match dec_setop o, dec_wvals a, dec_wvals b with
        | Some o', Some a', Some b' => Some (CBin o' (flag ra) (flag rb) a' b') | _, _, _ => None end
      else if String.eqb h "rel" then
        match dec_relop o, dec_wvals a, dec_wvals b with
        | Some r', Some a', Some b' => Some (CRel r' (flag ra) (flag rb) a' b') | _, _, _ => None end
      else None
  | Lx [Ax h; Zx neg; Zx ra; e; a] =>
      if String.eqb h "mem" then
        match dec_wval e, dec_wvals a with
        | Some e', Some a' => Some (CMem (flag neg) (flag ra) e' a') | _, _ => None end
      else None
  | Lx [Ax h; out; Lx qs] =>
      if String.eqb h "comp" then
        match dec_term out, map_opt dec_qual qs with
        | Some t, Some qs' => Some (CComp t qs') | _, _ => None end
      else None
  | _ => None
  end.

(* line = (<case> (multi <obs> ...)); anything else in the place of the observation
   (the driver's (hang) / (abort n)) counts as one run that returned no value *)
Definition dec_runs (o : sx) : list sobs :=
  match o with
  | Lx (Ax m :: os) => if String.eqb m "multi" then map dec_sobs os else [SOther]
  | _ => [SOther]
  end.

Definition judge_set (x : sx) : sx :=
  match x with
  | Lx [c; o] =>
      match dec_case c with
      | Some c' => if wf_case c' then judge_case c' (dec_runs o) else v_malformed
      | None => v_malformed
      end
  | _ => v_malformed
  end.

Definition run_line (s : string) : string := run_with judge_set s.
