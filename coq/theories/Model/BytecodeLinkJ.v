(* C06 — the judge of the `bytecode` suite, extended with the LINK checks (Model/BytecodeLink.v):
   on top of [Bytecode.judge_bc] (no panic, loads, re-encodes, const-loads before operations, result equality),
   for every case whose emitted file loaded:
   (F) the emitted FILE is the lowering of an abstract program: the bytes are loaded with the model loader, every
       constant decoded, the abstract program rebuilt (a const load per ConstLoad with the decoded value, an operation
       per operation instruction; cells := the registers of the file) and lowered again with the file's own feature
       words and crate version: the result must be the file, byte for byte.  Binding when every constant of the file is
       of a modelled kind; not applicable (advisory) otherwise.
   (I) the INSTRUCTION LIST is the lowering of the compiled PLAN: the plan dump of the same case gives, per step, the
       output cell and the operand cells in field order (VariableDefine*: out = the variable's cell, operands = name,
       mutable); function id and VarArg-ness of the k-th step are read off the k-th operation instruction; the
       instructions [lower (ncompile plan _)] predicts (registers in first-use order, one ConstLoad per out/operand with
       consecutive constant ids, then the operation over the same registers) must be the instructions printed.
       Binding when every step of the dump is structured with one output (or a define); advisory otherwise.
   Executable definitions only. *)
From Coq Require Import List NArith ZArith Arith Bool String.
From MechV Require Import Base.Sexp Base.Obs Model.Plan Model.Bytecode Model.Crc32 Model.Loader Model.LoaderJ
  Model.Container Model.ConstCodec Model.BytecodeLink.
Import ListNotations.
Open Scope string_scope.

(* ---------- (F) the file is a lowering ---------- *)
Definition is_vararg (i : instr) : bool := match i with IVarArg _ _ _ => true | _ => false end.

Definition rebuild_instr (K : list (option cval)) (i : instr) : option ninstr :=
  match i with
  | IConstLoad d c => match nth_error K (N.to_nat c) with Some (Some v) => Some (NCL (N.to_nat d) v) | _ => None end
  | IRet _ => None
  | _ => match op_parts i with
         | Some (f, d, a) => Some (NOP f (is_vararg i) (N.to_nat d) (map N.to_nat a))
         | None => None
         end
  end.

Definition env_of (q : program) : lenv := {| e_feats := p_features q; e_mech_ver := hfield (p_header q) 2 |}.

Inductive lres := LNa (why : string) | LYes | LNo (why : string).

Definition file_link (bs : bytes) : lres :=
  match fst (load_program bs) with
  | Ok q =>
      match decode_consts q with
      | (K, REnd) =>
          match map_opt (rebuild_instr K) (p_instrs q) with
          | Some P =>
              let e := env_of q in
              if negb (wf_lenv e && forallb wf_ninstr P && size_ok e P) then LNa "sizes"
              else if N_list_eqb (encode_program (lower e P)) bs then LYes
              else if negb (N_list_eqb (map (fun i => match i with IConstLoad d _ => d | _ => 0%N end) (p_instrs (lower e P)))
                                       (map (fun i => match i with IConstLoad d _ => d | _ => 0%N end) (p_instrs q)))
                   then LNo "registers-not-in-first-use-order"
              else if negb (Nat.eqb (List.length (p_consts (lower e P))) (List.length (p_consts q))) then LNo "constant-count"
              else if negb (Nat.eqb (List.length (p_types (lower e P))) (List.length (p_types q))) then LNo "type-section"
              else if negb (N_list_eqb (p_blob (lower e P)) (p_blob q)) then LNo "constant-blob"
              else LNo "file-differs"
          | None => LNa "constant-kind-not-modelled"
          end
      | _ => LNa "constant-does-not-decode"
      end
  | _ => LNa "model-loader-refuses"
  end.

(* ---------- (I) the instruction list is the lowering of the plan ---------- *)
Definition sx_op (x : sx) : option (N * bool) :=
  match x with
  | Lx (Ax k :: Zx f :: _) =>
      if Z.ltb f 0 then None
      else if String.eqb k "var" then Some (Z.to_N f, true)
      else if String.eqb k "nul" || String.eqb k "un" || String.eqb k "bin" || String.eqb k "tern" || String.eqb k "quad"
           then Some (Z.to_N f, false)
      else None
  | _ => None
  end.

Fixpoint filter_opt {A B} (f : A -> option B) (l : list A) : list B :=
  match l with [] => [] | x :: r => match f x with Some y => y :: filter_opt f r | None => filter_opt f r end end.

Definition nstep_of_rstep (st : rstep) (fv : N * bool) : option nstep :=
  if negb (r_structured st) then None
  else if is_define (r_name st) then
    match r_outs st, r_ins st with
    | [], [id; m; v] => Some {| n_out := v; n_args := [id; m]; n_fid := fst fv; n_var := snd fv |}
    | _, _ => None
    end
  else match r_outs st with
       | [o] => Some {| n_out := o; n_args := r_ins st; n_fid := fst fv; n_var := snd fv |}
       | _ => None
       end.

Fixpoint zip_steps (p : list rstep) (ops : list (N * bool)) : option (list nstep) :=
  match p, ops with
  | [], [] => Some []
  | st :: p', fv :: ops' =>
      match nstep_of_rstep st fv, zip_steps p' ops' with
      | Some s, Some r => Some (s :: r)
      | _, _ => None
      end
  | _, _ => None
  end.

Definition dummy_final (c : nat) : cval := CScalar KBool (VB false).
Definition predicted_instrs (p : list nstep) : list instr := snd (lower_go ls0 (ncompile p dummy_final)).

Definition instrs_link (plan : list sx) (is : list sx) : lres :=
  match map_opt decode_rstep plan with
  | None => LNa "plan-unreadable"
  | Some rp =>
      let ops := filter_opt sx_op is in
      if negb (Nat.eqb (List.length rp) (List.length ops)) then
        (if forallb r_structured rp then LNo "one-operation-per-plan-step" else LNa "plan-step-not-structured")
      else match zip_steps rp ops with
           | None => LNa "plan-step-without-single-output"
           | Some p => if sxs_eqb (map instr_sx (predicted_instrs p)) is then LYes else LNo "instructions-differ-from-lowered-plan"
           end
  end.

(* ---------- the judge ---------- *)
Definition link_suffix (f i : lres) : string :=
  match f, i with
  | LYes, LYes => "+lowered"
  | LYes, _ => "+file"
  | _, LYes => "+instrs"
  | _, _ => ""
  end.

Definition v_head (v : sx) : string := match v with Lx (Ax s :: _) => s | _ => "" end.
Definition v_tag (v : sx) : string := match v with Lx [Ax _; Ax t] => t | _ => "" end.

(* v: the verdict of Bytecode.judge_bc; f, i: the two link checks.  A violation of the base judge stays; an ok / kf
   becomes a violation when a link check that applies disagrees; an ok "equal..." records which checks applied *)
Definition link_verdict (v : sx) (f i : lres) (predicted : sx) : sx :=
  if negb (String.eqb (v_head v) "ok" || String.eqb (v_head v) "kf") then v
  else match f, i with
       | LNo why, _ => v_bad ("emitted-file-is-not-the-lowering-" ++ why) (Ax "lower")
       | _, LNo why => v_bad why predicted
       | _, _ => if String.eqb (v_head v) "ok" && String.prefix "equal" (v_tag v) then v_ok (v_tag v ++ link_suffix f i) else v
       end.

Definition predicted_sx (plan is : list sx) : sx :=
  Lx (match map_opt decode_rstep plan with
      | Some rp => match zip_steps rp (filter_opt sx_op is) with Some p => map instr_sx (predicted_instrs p) | None => [] end
      | None => []
      end).

Definition judge_bc_link (x : sx) : sx :=
  let v := judge_bc x in
  match x with
  | Lx [_; Lx (Ax "bc" :: _ :: _ :: load :: _ :: _ :: Lx (Ax "instrs" :: is) :: Lx (Ax "plan" :: plan) :: Qx h :: _)] =>
      if negb (is_ok load) then v
      else
        let f := if String.eqb h "" then LNa "no-bytes" else match unhex h with Some bs => file_link bs | None => LNa "bad-hex" end in
        let i := match plan with [] => LNa "no-plan" | _ => instrs_link plan is end in
        link_verdict v f i (predicted_sx plan is)
  | _ => v
  end.

Definition run_line (s : string) : string := run_with judge_bc_link s.
