(* C10 — block-level classification of a Mechdown document, at the granularity of LINES.
   Executable definitions only (proofs: Proofs/DocScanP.v).

   What the real parser does (src/syntax/src/mechdown.rs, src/syntax/src/parser.rs):

   section()        loops over the elements of a section.  At every element start it first tries mech_code
                    (top-level code; `whitespace0` first, and code_terminal ends with `whitespace0`, so blank lines
                    AND the indentation of the next line are consumed after code), then section_element, an
                    alt_best (longest match) over list / table / quote / code_block / ... / paragraph, followed by
                    many0(blank_line) (whole blank lines only: the indentation of the next line stays).
   code_block()     codeblock_sigil ("```" | "~~~", exactly three characters, at the element start: no leading blanks)
                    *space_tab, code_id = *(not "{", text) — `text` contains space and tab, so trailing blanks belong
                    to the id —, ?option_map, *space_tab, new_line (labelled: a failure of the whole document);
                    body = *(not end_sgl, any) where end_sgl is the sigil that OPENED the block: the body ends at the
                    first occurrence of that sigil ANYWHERE (not only at the start of a line); the other sigil type is
                    ordinary body text (docs/mechdown/code-block.mec: "Start and end code fences must be of the same
                    type ... To embed a code fence in another code fence, use the alternate type");
                    then end_sgl, whitespace0 (blank lines and the indentation of the next line are consumed).
                    No closing sigil: code_block fails, no other alternative takes a line that starts with a sigil
                    and the document is a parse error.
   tag              "ebnf" -> grammar; starts_with "mech" | "mec" | robot-emoji -> mech code with
                      rest = tag.trim_start_matches("mech").trim_start_matches("mec").trim_start_matches(robot)
                                .trim_start_matches(":")          (each one strips REPEATED whole-string prefixes)
                      rest = ""         -> unnamed (main interpreter)     rest = "disabled" -> not executed
                      rest = "hidden"   -> main interpreter, not rendered  otherwise -> namespace hash_str(rest);
                    starts_with equation|eq|math|latex|tex -> Equation, diagram|chart|mermaid -> Diagram (both inert),
                    anything else -> CodeBlock (inert).
   interpreter      src/interpreter/src/mechdown.rs section_element: see Model/Doc.v.

   A LINE is a text without newline plus an annotation that only says what the generator put there (a statement, a
   comment, the continuation of a multi-line statement, prose, a blank line, a line meant as part of a fence).  The
   scanner decides the fence structure from the TEXT alone; of the annotation it reads one bit (is this top-level line
   code? then the blanks in front of the next line are consumed).  *)
From Coq Require Import List ZArith Ascii String Bool Arith.
From MechV Require Import Base.Sexp Base.Obs Model.Doc.
Import ListNotations.
Open Scope string_scope.

(* ------------------------------------------------------------------------ characters, sigils *)
Definition is_blank (c : ascii) : bool :=
  match c with " "%char | "009"%char => true | _ => false end.
Fixpoint skip_blanks (s : string) : string :=
  match s with String c r => if is_blank c then skip_blanks r else s | EmptyString => s end.
Fixpoint leading_blanks (s : string) : string :=
  match s with String c r => if is_blank c then String c (leading_blanks r) else EmptyString | EmptyString => EmptyString end.
Fixpoint all_blank (s : string) : bool :=
  match s with EmptyString => true | String c r => is_blank c && all_blank r end.

Inductive sigil : Type := Grave | Tilde.
Definition sig_char (sg : sigil) : ascii := match sg with Grave => "`"%char | Tilde => "~"%char end.
Definition sig_str (sg : sigil) : string :=
  String (sig_char sg) (String (sig_char sg) (String (sig_char sg) EmptyString)).
Definition other_sig (sg : sigil) : sigil := match sg with Grave => Tilde | Tilde => Grave end.
Definition sigil_eqb (a b : sigil) : bool :=
  match a, b with Grave, Grave | Tilde, Tilde => true | _, _ => false end.

(* does [s] start with the three characters of [sg]?  the rest *)
Definition starts_with_sig (sg : sigil) (s : string) : option string :=
  match s with
  | String a (String b (String c r)) =>
      if Ascii.eqb a (sig_char sg) && Ascii.eqb b (sig_char sg) && Ascii.eqb c (sig_char sg) then Some r else None
  | _ => None
  end.
Definition starts_sigil (s : string) : option (sigil * string) :=
  match starts_with_sig Grave s with
  | Some r => Some (Grave, r)
  | None => match starts_with_sig Tilde s with Some r => Some (Tilde, r) | None => None end
  end.

(* a line opens a fence iff it starts with a sigil; blanks in front of it are accepted only where the parser has
   already consumed them ([eat]).  Result: indentation, sigil, everything after the sigil *)
Definition opener (eat : bool) (l : string) : option (string * sigil * string) :=
  match starts_sigil (if eat then skip_blanks l else l) with
  | Some (sg, raw) => Some (if eat then leading_blanks l else EmptyString, sg, raw)
  | None => None
  end.

(* first occurrence of the sigil in a line: text before it, text after it *)
Fixpoint find_sig (sg : sigil) (s : string) : option (string * string) :=
  match s with
  | EmptyString => None
  | String a r =>
      match starts_with_sig sg s with
      | Some post => Some (EmptyString, post)
      | None => match find_sig sg r with Some (pre, post) => Some (String a pre, post) | None => None end
      end
  end.

(* ------------------------------------------------------------------------ blocks *)
Record fence (A : Type) : Type := MkFence {
  f_ind : string;                  (* blanks in front of the opening sigil *)
  f_sig : sigil;
  f_raw : string;                  (* the opening line after the sigil *)
  f_body : list (string * A);      (* the complete lines between the opening line and the closing line *)
  f_pre : string;                  (* the closing line in front of the sigil (it belongs to the body text) *)
  f_post : string }.               (* the closing line after the sigil *)
Arguments MkFence {A} _ _ _ _ _ _.
Arguments f_ind {A} _.
Arguments f_sig {A} _.
Arguments f_raw {A} _.
Arguments f_body {A} _.
Arguments f_pre {A} _.
Arguments f_post {A} _.

Inductive block (A : Type) : Type :=
| BFence (f : fence A)
| BLine (l : string * A).          (* a line outside every fence *)
Arguments BFence {A} _.
Arguments BLine {A} _.

Inductive scanres (A : Type) : Type :=
| Closed (bs : list (block A))
| Unclosed (bs : list (block A)) (ind : string) (sg : sigil) (raw : string) (body : list (string * A)).
Arguments Closed {A} _.
Arguments Unclosed {A} _ _ _ _ _.

Definition cons_block {A} (b : block A) (r : scanres A) : scanres A :=
  match r with
  | Closed bs => Closed (b :: bs)
  | Unclosed bs ind sg raw body => Unclosed (b :: bs) ind sg raw body
  end.

Inductive smode (A : Type) : Type :=
| Top (eat : bool)
| InFence (ind : string) (sg : sigil) (raw : string) (acc : list (string * A)).   (* body so far, reversed *)
Arguments Top {A} _.
Arguments InFence {A} _ _ _ _.

Section Scan.
  Context {A : Type}.
  Variable is_code : A -> bool.

  (* are the blanks in front of the NEXT line consumed?  after code yes (code_terminal: whitespace0), after a prose
     element no (many0(blank_line) takes whole blank lines only); a blank line changes nothing *)
  Definition next_eat (eat : bool) (l : string * A) : bool :=
    if all_blank (fst l) then eat else is_code (snd l).

  Fixpoint scan_go (m : smode A) (ls : list (string * A)) : scanres A :=
    match ls with
    | [] => match m with
            | Top _ => Closed []
            | InFence ind sg raw acc => Unclosed [] ind sg raw (List.rev acc)
            end
    | l :: r =>
        match m with
        | Top eat =>
            match opener eat (fst l) with
            | Some (ind, sg, raw) => scan_go (InFence ind sg raw []) r
            | None => cons_block (BLine l) (scan_go (Top (next_eat eat l)) r)
            end
        | InFence ind sg raw acc =>
            match find_sig sg (fst l) with
            | Some (pre, post) =>
                cons_block (BFence (MkFence ind sg raw (List.rev acc) pre post)) (scan_go (Top true) r)
            | None => scan_go (InFence ind sg raw (l :: acc)) r
            end
        end
    end.

  (* program(): whitespace0 first *)
  Definition scan (ls : list (string * A)) : scanres A := scan_go (Top true) ls.

  (* ---- the inverse: writing blocks as lines ---- *)
  Variable dflt : A.
  Definition open_line (f : fence A) : string := f_ind f ++ sig_str (f_sig f) ++ f_raw f.
  Definition close_line (f : fence A) : string := f_pre f ++ sig_str (f_sig f) ++ f_post f.
  Definition render_block (b : block A) : list (string * A) :=
    match b with
    | BFence f => (open_line f, dflt) :: f_body f ++ [(close_line f, dflt)]
    | BLine l => [l]
    end.
  Definition render (bs : list (block A)) : list (string * A) := flat_map render_block bs.

  (* blocks that [render] writes unambiguously: a line outside a fence does not start with a sigil (not even after
     blanks); a fence is indented only where blanks are consumed; no body line and not the text in front of the
     closing sigil contains the fence's OWN sigil (the other sigil type is unrestricted) *)
  Fixpoint wf_blocks (eat : bool) (bs : list (block A)) : Prop :=
    match bs with
    | [] => True
    | BLine l :: r => opener true (fst l) = None /\ wf_blocks (next_eat eat l) r
    | BFence f :: r =>
        all_blank (f_ind f) = true /\ (eat = true \/ f_ind f = EmptyString) /\
        (forall l, In l (f_body f) -> find_sig (f_sig f) (fst l) = None) /\
        all_blank (f_pre f) = true /\
        wf_blocks true r
    end.

  (* the text of a scan result, for "the scanner loses nothing" *)
  Definition res_lines (r : scanres A) : list string :=
    match r with
    | Closed bs => map fst (render bs)
    | Unclosed bs ind sg raw body => map fst (render bs) ++ (ind ++ sig_str sg ++ raw) :: map fst body
    end.
End Scan.

(* ------------------------------------------------------------------------ the info string *)
(* code_id: after the blanks that follow the sigil, everything up to the first "{" (the option map) *)
Fixpoint before_brace (s : string) : string :=
  match s with
  | EmptyString => EmptyString
  | String c r => if Ascii.eqb c "{"%char then EmptyString else String c (before_brace r)
  end.
Fixpoint has_brace (s : string) : bool :=
  match s with EmptyString => false | String c r => Ascii.eqb c "{"%char || has_brace r end.
Definition tag_of_raw (raw : string) : string := before_brace (skip_blanks raw).

(* str::trim_start_matches(<string pattern>): strips the pattern as long as the text starts with it *)
Fixpoint trim_mech (s : string) : string :=
  match s with
  | String "m"%char (String "e"%char (String "c"%char (String "h"%char r))) => trim_mech r
  | _ => s
  end.
Fixpoint trim_mec (s : string) : string :=
  match s with
  | String "m"%char (String "e"%char (String "c"%char r)) => trim_mec r
  | _ => s
  end.
(* U+1F916 in UTF-8 *)
Definition robot : string := String "240"%char (String "159"%char (String "164"%char (String "150"%char EmptyString))).
Fixpoint trim_robot (s : string) : string :=
  match s with
  | String "240"%char (String "159"%char (String "164"%char (String "150"%char r))) => trim_robot r
  | _ => s
  end.
Fixpoint trim_colon (s : string) : string :=
  match s with String ":"%char r => trim_colon r | _ => s end.

Inductive tagkind : Type :=
| TUnnamed | THidden | TDisabled | TNamed (n : string)
| TEbnf | TInert          (* Equation / Diagram elements: hashed only *)
| TPlain.                 (* CodeBlock *)

Definition mech_rest (tag : string) : string := trim_colon (trim_robot (trim_mec (trim_mech tag))).

Definition classify_tag (tag : string) : tagkind :=
  if String.eqb tag "ebnf" then TEbnf
  else if prefix "mech" tag || prefix "mec" tag || prefix robot tag then
    let rest := mech_rest tag in
    if String.eqb rest "" then TUnnamed
    else if String.eqb rest "disabled" then TDisabled
    else if String.eqb rest "hidden" then THidden
    else TNamed rest
  else if prefix "equation" tag || prefix "eq" tag || prefix "math" tag || prefix "latex" tag || prefix "tex" tag
  then TInert
  else if prefix "diagram" tag || prefix "chart" tag || prefix "mermaid" tag then TInert
  else TPlain.

(* ------------------------------------------------------------------------ what a scanned document executes *)
Inductive role (stmt : Type) : Type :=
| RStmt (a : stmt)       (* the (first) line of a statement *)
| RCmt                   (* a comment line *)
| RCont                  (* a further line of a multi-line statement *)
| RProse
| RProseWs               (* a prose line whose parser ends with whitespace0: title, underlined / numbered heading, table row *)
| RBlank
| RFence.                (* written as the opening / closing line of a fence *)
Arguments RStmt {stmt} _.
Arguments RCmt {stmt}.
Arguments RCont {stmt}.
Arguments RProse {stmt}.
Arguments RProseWs {stmt}.
Arguments RBlank {stmt}.
Arguments RFence {stmt}.

(* after this line the parser has consumed the blank lines AND the blanks in front of the next line *)
Definition role_is_code {stmt} (r : role stmt) : bool :=
  match r with RStmt _ | RCmt | RCont | RProseWs => true | _ => false end.

(* blanks at the end of a tag: the code keeps them (see the finding class below), a reader does not see them *)
Fixpoint rtrim (s : string) : string :=
  match s with
  | EmptyString => EmptyString
  | String c r => if all_blank s then EmptyString else String c (rtrim r)
  end.
Definition keep_tag (t : string) : string := t.

Section Exec.
  Context {stmt : Type}.
  Notation line := (string * role stmt)%type.
  (* how a tag is read before it is classified: [keep_tag] = what the code does, [rtrim] = without the blanks at its end *)
  Variable norm : string -> string.

  Definition item_of_line (l : line) : list (item stmt) :=
    match snd l with RStmt a => [Stmt a] | RCmt => [Cmt (fst l)] | _ => [] end.
  Definition items_of_lines (ls : list line) : list (item stmt) := flat_map item_of_line ls.

  Definition fence_kind (f : fence (role stmt)) : tagkind := classify_tag (norm (tag_of_raw (f_raw f))).
  Definition body_text (f : fence (role stmt)) : string :=
    String.concat "" (map (fun l => fst l ++ nl) (f_body f)) ++ f_pre f.

  (* the element of the document algebra (Model/Doc.v) that a block is *)
  Definition elem_of_block (b : block (role stmt)) : list (elem stmt string) :=
    match b with
    | BFence f =>
        match fence_kind f with
        | TUnnamed | THidden => [Fence FUnnamed (items_of_lines (f_body f))]
        | TNamed n => [Fence (FNamed n) (items_of_lines (f_body f))]
        | TDisabled => [Fence FDisabled (items_of_lines (f_body f))]
        | TEbnf | TInert | TPlain => [NonMech (body_text f)]
        end
    | BLine l =>
        match snd l with
        | RStmt _ | RCmt => [Code (item_of_line l)]
        | RCont | RBlank => []
        | RProse | RProseWs | RFence => [Prose (fst l)]
        end
    end.
  Definition elems_of (bs : list (block (role stmt))) : list (elem stmt string) := flat_map elem_of_block bs.

  (* the same, said directly: what reaches the main interpreter, what reaches the interpreter of name n *)
  Definition main_of_block (b : block (role stmt)) : list (item stmt) :=
    match b with
    | BLine l => item_of_line l
    | BFence f => match fence_kind f with TUnnamed | THidden => items_of_lines (f_body f) | _ => [] end
    end.
  Definition ns_of_block (n : string) (b : block (role stmt)) : list (list (item stmt)) :=
    match b with
    | BFence f => match fence_kind f with
                  | TNamed m => if String.eqb n m then [items_of_lines (f_body f)] else []
                  | _ => []
                  end
    | BLine _ => []
    end.
  (* blocks that execute nothing: prose lines, blank lines, plain / other-language / disabled fences *)
  Definition block_executes (b : block (role stmt)) : bool :=
    match b with
    | BLine l => match snd l with RStmt _ | RCmt => true | _ => false end
    | BFence f => match fence_kind f with TUnnamed | THidden | TNamed _ => true | _ => false end
    end.

  Definition scan_doc (ls : list line) : scanres (role stmt) := scan role_is_code ls.
  (* None: the document does not parse (a fence is never closed) *)
  Definition doc_elems (ls : list line) : option (list (elem stmt string)) :=
    match scan_doc ls with Closed bs => Some (elems_of bs) | Unclosed _ _ _ _ _ => None end.
End Exec.

(* ------------------------------------------------------------------------ the tree summary the harness prints *)
(* (blocks b...) in document order:  (fm "<namespace_str>" named disabled hidden (items k...))  FencedMechCode
                                      (cb "<body text>")                                        CodeBlock
                                      (mc (items k...))                                         top-level MechCode
                                      (el "<Variant>") every other element; (float b) (prompt b)
   item kinds k: s e c f m x, with a second letter c when a trailing comment is attached; c alone = comment line,
   x = MechCode::Error *)
Inductive ikind : Type := IStmt | ICmt | IErr.
Definition ikind_eqb (a b : ikind) : bool :=
  match a, b with IStmt, IStmt | ICmt, ICmt | IErr, IErr => true | _, _ => false end.
Inductive sblock : Type :=
| SFm (name : string) (named disabled hidden : bool) (ks : list ikind)
| SCb (body : string)
| SMc (ks : list ikind)
| SOther.

Fixpoint ikinds_eqb (a b : list ikind) : bool :=
  match a, b with
  | [], [] => true
  | x :: a', y :: b' => ikind_eqb x y && ikinds_eqb a' b'
  | _, _ => false
  end.
Definition sblock_eqb (a b : sblock) : bool :=
  match a, b with
  | SFm n1 a1 d1 h1 k1, SFm n2 a2 d2 h2 k2 =>
      String.eqb n1 n2 && Bool.eqb a1 a2 && Bool.eqb d1 d2 && Bool.eqb h1 h2 && ikinds_eqb k1 k2
  | SCb x, SCb y => String.eqb x y
  | SMc k1, SMc k2 => ikinds_eqb k1 k2
  | _, _ => false
  end.
Fixpoint sblocks_eqb (a b : list sblock) : bool :=
  match a, b with
  | [], [] => true
  | x :: a', y :: b' => sblock_eqb x y && sblocks_eqb a' b'
  | _, _ => false
  end.
Definition is_smc (b : sblock) : bool := match b with SMc _ => true | _ => false end.
Definition fences_only (l : list sblock) : list sblock := filter (fun b => negb (is_smc b)) l.

Section Summary.
  Context {stmt : Type}.
  Notation line := (string * role stmt)%type.
  Variable norm : string -> string.

  Definition kinds_of_lines (ls : list line) : list ikind :=
    flat_map (fun l : line => match snd l with RStmt _ => [IStmt] | RCmt => [ICmt] | _ => [] end) ls.

  Definition flush (run : list ikind) (out : list sblock) : list sblock :=
    match run with [] => out | _ => SMc (List.rev run) :: out end.

  Definition sblock_of_fence (f : fence (role stmt)) : list sblock :=
    match fence_kind norm f with
    | TUnnamed => [SFm "" false false false (kinds_of_lines (f_body f))]
    | THidden => [SFm "" false false true (kinds_of_lines (f_body f))]
    | TDisabled => [SFm "" false true false (kinds_of_lines (f_body f))]
    | TNamed n => [SFm n true false false (kinds_of_lines (f_body f))]
    | TPlain => [SCb (body_text f)]
    | TEbnf | TInert => []
    end.

  (* top-level code lines form ONE MechCode element as long as only blank lines lie between them;
     [run] = the kinds of the pending element, reversed *)
  Fixpoint summary_go (run : list ikind) (bs : list (block (role stmt))) : list sblock :=
    match bs with
    | [] => flush run []
    | BFence f :: r => flush run (sblock_of_fence f ++ summary_go [] r)
    | BLine l :: r =>
        match snd l with
        | RStmt _ => summary_go (IStmt :: run) r
        | RCmt => summary_go (ICmt :: run) r
        | RCont | RBlank => summary_go run r
        | RProse | RProseWs | RFence => flush run (summary_go [] r)
        end
    end.
  Definition summary (bs : list (block (role stmt))) : list sblock := summary_go [] bs.
End Summary.

Definition decode_ikind (x : sx) : ikind :=
  match x with
  | Ax "c" => ICmt
  | Ax "x" | Ax "xc" => IErr
  | _ => IStmt
  end.
Definition z_true (x : sx) : bool := match x with Zx z => negb (Z.eqb z 0) | _ => false end.
Definition decode_sblock (x : sx) : option sblock :=
  match x with
  | Lx [Ax "fm"; Qx n; a; d; h; Lx (Ax "items" :: ks)] => Some (SFm n (z_true a) (z_true d) (z_true h) (map decode_ikind ks))
  | Lx [Ax "cb"; Qx t] => Some (SCb t)
  | Lx [Ax "mc"; Lx (Ax "items" :: ks)] => Some (SMc (map decode_ikind ks))
  | Lx [Ax "el"; _] => None
  | _ => Some SOther
  end.
Fixpoint decode_sblocks (l : list sx) : list sblock :=
  match l with
  | [] => []
  | x :: r => match decode_sblock x with Some b => b :: decode_sblocks r | None => decode_sblocks r end
  end.

(* ------------------------------------------------------------------------ the judge instance *)
(* a line of a case: (s|c|k|p|e|b|f "<indentation>" "<text>" [fails]) ; the line is indentation ++ text *)
(* a statement carries two flags "the generator made this one fail": under the code's reading of the tags and under the
   reading without the blanks at their end (they differ only inside the class fence-info-trailing-blank) *)
Inductive jrole : Type := JStmt (fails failsT : bool) | JCmt | JCont | JProse | JProseWs | JBlank | JFence.
Record jline : Type := JL { j_ind : string; j_text : string; j_role : jrole }.
Definition j_full (l : jline) : string := j_ind l ++ j_text l.

Definition decode_jline (x : sx) : option jline :=
  match x with
  | Lx [Ax "s"; Qx i; Qx t; Zx f] => Some (JL i t (JStmt (negb (Z.eqb f 0)) (negb (Z.eqb f 0))))
  | Lx [Ax "s"; Qx i; Qx t; Zx f; Zx fT] => Some (JL i t (JStmt (negb (Z.eqb f 0)) (negb (Z.eqb fT 0))))
  | Lx [Ax "c"; Qx i; Qx t] => Some (JL i t JCmt)
  | Lx [Ax "k"; Qx i; Qx t] => Some (JL i t JCont)
  | Lx [Ax "p"; Qx i; Qx t] => Some (JL i t JProse)
  | Lx [Ax "e"; Qx i; Qx t] => Some (JL i t JProseWs)
  | Lx [Ax "b"; Qx i; Qx t] => Some (JL i t JBlank)
  | Lx [Ax "f"; Qx i; Qx t] => Some (JL i t JFence)
  | _ => None
  end.

(* the text of a statement = its first line (without the indentation) and its continuation lines;
   second component: the continuation text that the lines in front of the current position still have to pick up *)
Fixpoint prep_go (trim : bool) (ls : list jline) : list (string * role jstmt) * string :=
  match ls with
  | [] => ([], "")
  | l :: r =>
      let '(pr, suf) := prep_go trim r in
      match j_role l with
      | JCont => ((j_full l, RCont) :: pr, nl ++ j_full l ++ suf)
      | JStmt f fT => ((j_full l, RStmt (j_text l ++ suf, if trim then fT else f)) :: pr, "")
      | JCmt => ((j_full l, RCmt) :: pr, "")
      | JProse => ((j_full l, RProse) :: pr, "")
      | JProseWs => ((j_full l, RProseWs) :: pr, "")
      | JBlank => ((j_full l, RBlank) :: pr, "")
      | JFence => ((j_full l, RFence) :: pr, "")
      end
  end.
Definition prep_sel (trim : bool) (ls : list jline) : list (string * role jstmt) := fst (prep_go trim ls).
Definition prep (ls : list jline) : list (string * role jstmt) := prep_sel false ls.

Definition unlines (ls : list jline) : string := String.concat "" (map (fun l => j_full l ++ nl) ls).

(* ---- where the line model does not apply (advisory) ---- *)
Fixpoint has_newline (s : string) : bool :=
  match s with EmptyString => false | String c r => Ascii.eqb c "010"%char || Ascii.eqb c "013"%char || has_newline r end.
(* characters of an opening line that are `text` tokens for certain: printable ASCII *)
Fixpoint all_printable (s : string) : bool :=
  match s with
  | EmptyString => true
  | String c r => let n := nat_of_ascii c in (Nat.leb 32 n && Nat.leb n 126 || Ascii.eqb c "009"%char) && all_printable r
  end.
Definition line_is_codeish (l : string * role jstmt) : bool :=
  match snd l with RStmt _ | RCmt | RCont | RBlank => true | _ => false end.

Definition fence_anomaly (norm : string -> string) (f : fence (role jstmt)) : option string :=
  if negb (all_blank (f_post f)) then Some "text-after-closing-sigil"
  else if has_brace (f_raw f) then Some "option-map"
  else if negb (all_printable (f_raw f)) then Some "non-ascii-info-string"
  else match fence_kind norm f with
       | TEbnf => Some "ebnf-block"
       | TUnnamed | THidden | TNamed _ | TDisabled =>
           if negb (forallb line_is_codeish (f_body f)) || negb (all_blank (f_pre f)) then Some "non-code-line-in-mech-fence"
           else if negb (has_stmt (items_of_lines (f_body f))) then Some "mech-fence-without-statement"
           else None
       | _ => None
       end.
Fixpoint first_some {X} (l : list (option X)) : option X :=
  match l with [] => None | Some x :: _ => Some x | None :: r => first_some r end.
Definition block_anomaly (norm : string -> string) (b : block (role jstmt)) : option string :=
  match b with
  | BFence f => fence_anomaly norm f
  | BLine l =>
      (* a sigil after blanks that were not consumed (after a paragraph, list, quote, break): how that line and the
         ones after it parse is outside the model *)
      match opener true (fst l) with
      | Some _ => Some "indented-sigil-after-prose"
      | None => match snd l with RFence => Some "fence-line-outside-fence" | _ => None end
      end
  end.
Definition anomaly (norm : string -> string) (ls : list (string * role jstmt)) (bs : list (block (role jstmt))) : option string :=
  if existsb (fun l => has_newline (fst l)) ls then Some "newline-inside-line"
  else first_some (map (block_anomaly norm) bs).
Definition line_blocks_anomaly (bs : list (block (role jstmt))) : option string :=
  first_some (map (fun b => match b with BLine _ => block_anomaly keep_tag b | BFence _ => None end) bs).

(* ---- known-finding class `fence-info-trailing-blank` ----
   code_id keeps the blanks at its end (`text` contains space and tab): "```mech " is the namespace " " instead of the
   main program, "```mech:disabled " is executed (in a namespace called "disabled "), "```mech:a " and "```mech:a" are
   different namespaces.  The class: a fence whose tag classifies differently once the blanks at its end are removed. *)
Definition tagkind_eqb (a b : tagkind) : bool :=
  match a, b with
  | TUnnamed, TUnnamed | THidden, THidden | TDisabled, TDisabled | TEbnf, TEbnf | TInert, TInert | TPlain, TPlain => true
  | TNamed n, TNamed m => String.eqb n m
  | _, _ => false
  end.
Definition tag_trailing_blank (raw : string) : bool :=
  negb (tagkind_eqb (classify_tag (tag_of_raw raw)) (classify_tag (rtrim (tag_of_raw raw)))).
Definition kf_trailing_blank (bs : list (block (role jstmt))) : bool :=
  existsb (fun b => match b with BFence f => tag_trailing_blank (f_raw f) | BLine _ => false end) bs.

(* ---- observations with the tree summary: (doc "src" <res> (syms ...) (subs ...) (blocks ...)) ---- *)
Definition decode_dobs6 (x : sx) : option (dobs * option (list sblock)) :=
  match x with
  | Lx [Ax "doc"; src; r; m; s; Lx (Ax "blocks" :: bl)] =>
      option_map (fun D => (D, Some (decode_sblocks bl))) (decode_dobs (Lx [Ax "doc"; src; r; m; s]))
  | _ => option_map (fun D => (D, None)) (decode_dobs x)
  end.

Inductive bcheck : Type := BEq | BRuns | BFences.   (* all equal | only the top-level code runs differ | fences differ *)
Definition blocks_check (want got : list sblock) : bcheck :=
  if sblocks_eqb want got then BEq
  else if sblocks_eqb (fences_only want) (fences_only got) then BRuns
  else BFences.

(* streams in which a parse error of the document / a different grouping of top-level lines is a violation *)
Definition stream_binding (s : string) : bool := mem s ["plain"; "scan"].
Definition lstream_ok (s : string) : bool := mem s ["plain"; "codelike"; "layout"; "scan"].

(* the comparison of the document algebra (as Doc.judge_doc), for the elements [d] the scanner found *)
Definition judge_algebra (stream : string) (d : list (elem jstmt string)) (D M : dobs) (rest : list dobs) : option sx :=
  if negb (String.eqb (o_src M) (main_only d)) then None else
  if is_perr (o_res M) then Some (v_bad "code-only-document-does-not-parse" (Lx []))
  else if is_perr (o_res D) then
    if negb (stream_binding stream) then Some (v_adv (stream ++ "-parse-error"))
    else if kf_list_dash d then Some (v_kf "list-then-dash-line")
    else Some (v_bad "parse-error-of-a-document-the-model-accepts" (Lx []))
  else
    match ns_checks d D (ns_names d) rest with
    | None => None
    | Some nsr =>
        let mainr := table_check (last_is_cmt (d_main (jrun d))) (o_main D) (o_main M) in
        if negb (sx_eqb (o_res D) (o_res M)) then Some (v_bad "result-differs" (o_res M))
        else if negb (Nat.eqb (List.length (o_subs D)) (List.length (ns_names d)))
        then Some (v_bad "unexpected-namespaces" (Lx (map Qx (ns_names d))))
        else match mainr, nsr with
             | TBad, _ => Some (v_bad "main-table-differs" (Lx (o_main M)))
             | _, TBad => Some (v_bad "namespace-table-differs" (Lx []))
             | TKf, _ | _, TKf => Some (v_kf "comment-resets-ans")
             | TEq, TEq => Some (v_ok stream)
             end
    end.


Definition show_sblock (b : sblock) : sx :=
  let ks := fun l => Lx (map (fun k => match k with IStmt => Ax "s" | ICmt => Ax "c" | IErr => Ax "x" end) l) in
  match b with
  | SFm n a d h k => Lx [Ax "fm"; Qx n; Zx (if a then 1 else 0); Zx (if d then 1 else 0); Zx (if h then 1 else 0); ks k]
  | SCb t => Lx [Ax "cb"; Qx t]
  | SMc k => Lx [Ax "mc"; ks k]
  | SOther => Lx [Ax "other"]
  end.

(* one reading of the tags.  None = the observations do not belong to this case (internal error of the machinery) *)
Definition judge_variant (norm : string -> string) (stream : string) (pl : list (string * role jstmt))
                         (bs : list (block (role jstmt))) (D : dobs) (got : list sblock)
                         (rest : list (dobs * option (list sblock))) : option sx :=
  match anomaly norm pl bs with
  | Some a => Some (v_adv a)
  | None =>
      let d := elems_of norm bs in
      if negb (forallb elem_ok d) then Some (v_adv "element-shape-outside-the-model") else
      match rest with
      | (M, _) :: rest' =>
          match judge_algebra stream d D M (map fst rest') with
          | None => None
          | Some v =>
              if negb (sx_eqb v (v_ok stream)) then Some v else
              match blocks_check (summary norm bs) got with
              | BFences => Some (v_bad "fence-structure-differs" (Lx (map show_sblock (summary norm bs))))
              | BRuns =>
                  if stream_binding stream then Some (v_bad "code-runs-differ" (Lx (map show_sblock (summary norm bs))))
                  else Some (v_adv (stream ++ "-code-runs-differ"))
              | BEq => Some v
              end
          end
      | [] => None
      end
  end.

(* [listed]: the ids of the open findings of this property (the driver refuses a `kf` verdict whose id is not listed).
   Outside the class fence-info-trailing-blank there is one reading of the tags.  Inside it the observations are
   D, then the code-only documents of the reading without the blanks (what the property expects: `ok` if they
   match), then those of the reading of the code (if only they match: the known wrong behaviour) *)
Definition judge_lines0 (stream : string) (listed : list string) (ls : list jline)
                        (os : list (dobs * option (list sblock))) : option sx :=
  match os with
  | (D, Some got) :: rest =>
      if negb (String.eqb (o_src D) (unlines ls)) then None else
      let pl := prep ls in
      match scan_doc pl with
      | Unclosed bs _ _ _ _ =>
          match line_blocks_anomaly bs with
          | Some a => Some (v_adv a)
          | None =>
              if is_perr (o_res D) then Some (v_ok "unclosed-fence-is-a-parse-error")
              else Some (v_bad "unclosed-fence-accepted" (Lx [Ax "perr"]))
          end
      | Closed bs =>
          if negb (kf_trailing_blank bs) then judge_variant keep_tag stream pl bs D got rest
          else
            let plT := prep_sel true ls in
            match scan_doc plT with
            | Unclosed _ _ _ _ _ => None
            | Closed bsT =>
            let n := Datatypes.S (2 * List.length (ns_names (elems_of rtrim bsT))) in
            match judge_variant rtrim stream plT bsT D got (firstn n rest),
                  judge_variant keep_tag stream pl bs D got (skipn n rest) with
            | Some vS, Some vI =>
                if sx_eqb vS (v_ok stream) then Some vS
                else if sx_eqb vI (v_ok stream) then
                  if mem "fence-info-trailing-blank" listed then Some (v_kf "fence-info-trailing-blank")
                  else Some (v_adv "unlisted-finding-fence-info-trailing-blank")
                else Some vS
            | _, _ => None
            end
            end
      end
  | _ => None
  end.

(* ---- finding class `quote-swallows-after-whitespace-line` ----
   quote_block() (and the other block elements) read +paragraph_newline; a line of blanks only is a paragraph of
   blanks for them, not a blank line, so the block does not end there and swallows the lines after it up to the next
   EMPTY line - code lines included: "~y := 1 / / > Quote. / <tab> / y = 2" leaves y = 1.
   The class: outside fences, a prose line that starts with ">" directly followed by a non-empty line of blanks.
   There is no model of what the swallowed lines become (a parse error, or prose): inside the class a verdict that
   would be a violation is reported as advisory with the finding's name; an `ok` stays an `ok` (it is what the
   repaired parser gives: proposed/C10-quote-swallows-after-whitespace-line.diff). *)
Definition is_quote_line (l : string * role jstmt) : bool :=
  match snd l with
  | RProse | RProseWs => match skip_blanks (fst l) with String ">"%char _ => true | _ => false end
  | _ => false
  end.
Fixpoint quote_ws_class (bs : list (block (role jstmt))) : bool :=
  match bs with
  | BLine l1 :: ((BLine l2 :: _) as r) =>
      (is_quote_line l1 && all_blank (fst l2) && negb (String.eqb (fst l2) "")) || quote_ws_class r
  | _ :: r => quote_ws_class r
  | [] => false
  end.
Definition quote_ws_doc (ls : list jline) : bool :=
  match scan_doc (prep ls) with Closed bs => quote_ws_class bs | Unclosed bs _ _ _ _ => quote_ws_class bs end.
Definition is_violation (v : sx) : bool :=
  match v with
  | Lx (Ax "bad" :: _) => true
  | Lx [Ax "kf"; Ax "list-then-dash-line"] => true
  | _ => false
  end.

Definition judge_lines (stream : string) (listed : list string) (ls : list jline)
                       (os : list (dobs * option (list sblock))) : option sx :=
  match judge_lines0 stream listed ls os with
  | Some v =>
      if is_violation v && quote_ws_doc ls then Some (v_adv "finding-quote-swallows-after-whitespace-line")
      else Some v
  | None => None
  end.

Definition decode_listed (x : sx) : option (list string) :=
  match x with Lx (Ax "listed" :: ids) => map_opt sx_str ids | _ => None end.

Definition judge_c10s (x : sx) : sx :=
  match x with
  | Lx [Lx (Ax "lncase" :: Ax stream :: kn :: lns); Lx (Ax "docs" :: obs)] =>
      match decode_listed kn, map_opt decode_jline lns, map_opt decode_dobs6 obs with
      | Some listed, Some ls, Some os =>
          if lstream_ok stream then
            match judge_lines stream listed ls os with Some v => v | None => v_malformed end
          else v_malformed
      | _, _, _ => v_malformed
      end
  | _ => judge_c10 x            (* the case format of the document algebra alone (replays) *)
  end.

Definition run_line (s : string) : string := run_with judge_c10s s.
