(* Source-level arm tables: the data types of the tables that the arm translators (translators/*_arms.py)
   regenerate from the Rust source on every run (Gen/OpAssignArms.v, Gen/RangeArms.v, Gen/SetOpArms.v,
   Gen/InstrArms.v, ...), and the way Rust evaluates them.  Definitions only; lemmas in Proofs/SrcArmsP.v.

   1. [tm]      generic terms: what translators/rustmini.py reads from a Rust expression / statement / pattern
                (head + arguments; identifiers, paths and literals are leaves).
   2. [uarm]    one arm `(Value::MutableReference(a), b) => { f(a.borrow().clone(), b.clone()) }` of the operand-form
                match every NativeFunctionCompiler::compile of the op-assign, range and set families ends in;
      [cfn]     such a compile function: bindings of the operands to arguments[i], the direct call, the arms.
      [dispatch], [compile_model]: first arm that matches, binders bound by the patterns, arguments evaluated
                (`.borrow().clone()` of a binder of a reference pattern = the content of the cell, `.clone()` of a
                binder of a plain pattern = the value as it is).  *)
From Coq Require Import List String Bool Arith.
Import ListNotations.
Open Scope string_scope.

(* ------------------------------------------------------------------------------------------------ *)
(* generic terms                                                                                    *)
(* ------------------------------------------------------------------------------------------------ *)
Inductive tm : Type :=
| L (s : string)
| T (h : string) (args : list tm).

Fixpoint tm_eqb (a b : tm) {struct a} : bool :=
  match a, b with
  | L x, L y => String.eqb x y
  | T h xs, T k ys =>
      String.eqb h k &&
      (fix go (xs ys : list tm) {struct xs} : bool :=
         match xs, ys with
         | [], [] => true
         | x :: xr, y :: yr => tm_eqb x y && go xr yr
         | _, _ => false
         end) xs ys
  | _, _ => false
  end.

Definition head_of (t : tm) : string := match t with L s => s | T h _ => h end.
Definition args_of (t : tm) : list tm := match t with L _ => [] | T _ a => a end.

(* size-bounded traversal helpers *)
Fixpoint tm_size (t : tm) : nat :=
  match t with
  | L _ => 1
  | T _ a => S ((fix go (l : list tm) : nat := match l with [] => 0 | x :: r => tm_size x + go r end) a)
  end.

(* all subterms, pre-order *)
Fixpoint subterms (t : tm) : list tm :=
  t :: match t with
       | L _ => []
       | T _ a => (fix go (l : list tm) : list tm := match l with [] => [] | x :: r => List.app (subterms x) (go r) end) a
       end.

(* [tmap f t]: rebuild bottom-up, applying f at every node after its arguments were rebuilt *)
Fixpoint tmap (f : tm -> tm) (t : tm) : tm :=
  match t with
  | L s => f (L s)
  | T h a => f (T h ((fix go (l : list tm) : list tm := match l with [] => [] | x :: r => tmap f x :: go r end) a))
  end.

(* ------------------------------------------------------------------------------------------------ *)
(* small list utilities                                                                             *)
(* ------------------------------------------------------------------------------------------------ *)
Definition str_in (s : string) (l : list string) : bool := existsb (String.eqb s) l.

Fixpoint list_eqb {A B} (eqb : A -> B -> bool) (x : list A) (y : list B) : bool :=
  match x, y with
  | [], [] => true
  | a :: xr, b :: yr => eqb a b && list_eqb eqb xr yr
  | _, _ => false
  end.

Fixpoint nodup_str (l : list string) : bool :=
  match l with
  | [] => true
  | x :: r => negb (str_in x r) && nodup_str r
  end.

Fixpoint index_of (x : string) (l : list string) : option nat :=
  match l with
  | [] => None
  | y :: r => if String.eqb x y then Some 0 else option_map S (index_of x r)
  end.

Fixpoint omap {A B} (f : A -> option B) (l : list A) : option (list B) :=
  match l with
  | [] => Some []
  | a :: r => match f a, omap f r with Some b, Some bs => Some (b :: bs) | _, _ => None end
  end.

(* the entries of a table that fail a check, as their site strings (the obligations are stated as
   `irregular ... = []` so that a failing proof names the sites, and as `forallb ... = true`) *)
Definition irregular {A} (site : A -> string) (ok : A -> bool) (l : list A) : list string :=
  map site (filter (fun a => negb (ok a)) l).

(* ------------------------------------------------------------------------------------------------ *)
(* operand-form arms                                                                                *)
(* ------------------------------------------------------------------------------------------------ *)
Record uarm : Type := mk_uarm {
  ua_site : string;
  ua_pats : list (string * string);     (* ("ref" | "plain" | "other", binder) per component of the matched tuple *)
  ua_callee : string;
  ua_args : list (string * string)      (* (variable, "clone" | "borrow.clone" | "other") per argument of the call *)
}.

Record cfn : Type := mk_cfn {
  cf_tag : list string;                 (* family-specific labels, e.g. [operator; form] *)
  cf_struct : string;
  cf_site : string;
  cf_binds : list (string * string);    (* (variable, "arg<i>" | "args<i>..") in source order *)
  cf_direct : string * string * list (string * string);   (* site, callee, arguments of the direct call *)
  cf_scrut : list string;               (* the variables of the matched tuple *)
  cf_arms : list uarm;
  cf_catchall : nat                     (* number of error arms (expected: 1, last) *)
}.

(* an operand as compile() sees it: a value, or a reference to a cell holding a value *)
Inductive rval (A : Type) : Type := VPlain (a : A) | VRef (a : A).
Arguments VPlain {A} a.
Arguments VRef {A} a.

(* ---- name resolution (Rust scoping: a pattern binder shadows the outer variable of the same name) ---- *)
(* resolved arm: per component of the matched tuple whether the pattern is `Value::MutableReference(_)`, and per
   argument of the call (component whose binder is used, whether it is read with `.borrow().clone()`) *)
Record rarm : Type := mk_rarm {
  ra_site : string;
  ra_refs : list bool;
  ra_callee : string;
  ra_args : list (nat * bool)
}.

Definition resolve_arm (a : uarm) : option rarm :=
  let binders := map snd (ua_pats a) in
  if nodup_str binders && forallb (fun p => String.eqb (fst p) "ref" || String.eqb (fst p) "plain") (ua_pats a)
  then option_map (mk_rarm (ua_site a) (map (fun p => String.eqb (fst p) "ref") (ua_pats a)) (ua_callee a))
         (omap (fun x : string * string =>
                  match index_of (fst x) binders with
                  | Some i => if String.eqb (snd x) "borrow.clone" then Some (i, true)
                              else if String.eqb (snd x) "clone" then Some (i, false) else None
                  | None => None
                  end) (ua_args a))
  else None.

(* resolved compile(): everything in terms of the index i of `arguments[i]` *)
Record rcfn : Type := mk_rcfn {
  rc_callee : string;            (* callee of the direct call *)
  rc_direct : list nat;          (* per parameter of the direct call: the operand passed (with `.clone()`) *)
  rc_scrut : list nat;           (* per component of the matched tuple: the operand *)
  rc_arms : list rarm;
  rc_nargs : nat
}.

(* `let v = arguments[i].clone()` for i = 0, 1, ..; the last one may be `arguments.clone().split_off(i)` (the index
   list of the indexed forms, which is modelled as one operand) *)
Fixpoint binds_ok (i : nat) (bs : list (string * string)) : bool :=
  match bs with
  | [] => true
  | (_, b) :: r =>
      (String.eqb b ("arg" ++ String (Ascii.ascii_of_nat (48 + i)) "")
       || (String.eqb b ("args" ++ String (Ascii.ascii_of_nat (48 + i)) "..") && match r with [] => true | _ => false end))
      && binds_ok (S i) r
  end.

Definition resolve_cfn (c : cfn) : option rcfn :=
  let '(_, f, dargs) := cf_direct c in
  let vars := map fst (cf_binds c) in
  if nodup_str vars && binds_ok 0 (cf_binds c) && Nat.eqb (cf_catchall c) 1 then
    match omap (fun x : string * string => if String.eqb (snd x) "clone" then index_of (fst x) vars else None) dargs,
          omap (fun v => index_of v vars) (cf_scrut c),
          omap resolve_arm (cf_arms c) with
    | Some d, Some s, Some arms => Some (mk_rcfn f d s arms (List.length vars))
    | _, _, _ => None
    end
  else None.

Section Dispatch.
  Context {A : Type}.

  Definition is_ref (v : rval A) : bool := match v with VRef _ => true | VPlain _ => false end.
  Definition content (v : rval A) : A := match v with VRef a => a | VPlain a => a end.
  Definition strip (v : rval A) : rval A := VPlain (content v).
  Definition forms_of (vs : list (rval A)) : list bool := map is_ref vs.

  (* `Value::MutableReference(x)` matches references only, a binder matches everything *)
  Fixpoint refs_match (refs : list bool) (fs : list bool) : bool :=
    match refs, fs with
    | [], [] => true
    | r :: rr, f :: fr => (negb r || f) && refs_match rr fr
    | _, _ => false
    end.

  Definition arm_matches (a : rarm) (vs : list (rval A)) : bool := refs_match (ra_refs a) (forms_of vs).

  (* `.borrow().clone()` of the binder of a reference pattern: the content of the cell; `.clone()` of a plain binder:
     the value as it is (possibly still a reference); the other two combinations do not type-check *)
  Definition eval_arg (refs : list bool) (vs : list (rval A)) (x : nat * bool) : option (rval A) :=
    match nth_error refs (fst x), nth_error vs (fst x) with
    | Some r, Some v => if Bool.eqb r (snd x) then Some (if snd x then strip v else v) else None
    | _, _ => None
    end.

  Definition run_arm (a : rarm) (vs : list (rval A)) : option (string * list (rval A)) :=
    option_map (fun args => (ra_callee a, args)) (omap (eval_arg (ra_refs a) vs) (ra_args a)).

  Definition dispatch (arms : list rarm) (vs : list (rval A)) : option (string * list (rval A)) :=
    match find (fun a => arm_matches a vs) arms with
    | Some a => run_arm a vs
    | None => None          (* the error arm *)
    end.

  (* the whole compile(): [k f vs] is the kernel-level function f applied to vs (None = Err);
     [args]: the operands arguments[0], arguments[1], .. *)
  Definition compile_model {R} (c : rcfn) (k : string -> list (rval A) -> option R) (args : list (rval A)) : option R :=
    match omap (nth_error args) (rc_direct c) with
    | None => None
    | Some dvs =>
        match k (rc_callee c) dvs with
        | Some r => Some r
        | None =>
            match omap (nth_error args) (rc_scrut c) with
            | None => None
            | Some svs =>
                match dispatch (rc_arms c) svs with
                | Some (g, vs) => k g vs
                | None => None
                end
            end
        end
    end.
End Dispatch.

(* ---- regularity of an arm / a table ------------------------------------------------------------ *)
(* [perm]: the callee's j-th parameter is fed from component perm[j] of the matched tuple, read with the accessor
   that fits the component's pattern *)
Definition rarm_ok (perm : list nat) (callee : string) (a : rarm) : bool :=
  String.eqb (ra_callee a) callee &&
  list_eqb (fun (x : nat * bool) (i : nat) =>
              Nat.eqb (fst x) i && match nth_error (ra_refs a) i with Some r => Bool.eqb (snd x) r | None => false end)
           (ra_args a) perm.

Fixpoint bool_lists (n : nat) : list (list bool) :=
  match n with
  | O => [[]]
  | S m => flat_map (fun l => [false :: l; true :: l]) (bool_lists m)
  end.

Definition nat_in (i : nat) (l : list nat) : bool := existsb (Nat.eqb i) l.

(* forms whose references sit at positions of [refpos] only *)
Fixpoint allowed_from (i : nat) (refpos : list nat) (f : list bool) : bool :=
  match f with
  | [] => true
  | b :: r => (nat_in i refpos || negb b) && allowed_from (S i) refpos r
  end.
Definition allowed_form := allowed_from 0.

Definition select_by_forms (arms : list rarm) (f : list bool) : option rarm :=
  find (fun a => refs_match (ra_refs a) f) arms.

(* for every allowed combination of operand forms with at least one reference the FIRST matching arm has exactly
   these forms (so every reference is unwrapped), and no arm matches the all-plain combination *)
Definition form_exact (arms : list rarm) (f : list bool) : bool :=
  if existsb (fun b => b) f
  then match select_by_forms arms f with
       | Some a => list_eqb Bool.eqb (ra_refs a) f
       | None => false
       end
  else match select_by_forms arms f with Some _ => false | None => true end.

Definition table_exact (n : nat) (refpos : list nat) (arms : list rarm) : bool :=
  forallb (fun f => negb (allowed_form refpos f) || form_exact arms f) (bool_lists n).

Fixpoint index_nat (x : nat) (l : list nat) : option nat :=
  match l with
  | [] => None
  | y :: r => if Nat.eqb x y then Some 0 else option_map S (index_nat x r)
  end.

(* [roles]: the callee's j-th parameter is fed from operand roles[j]; [refpos]: the operands that may be references *)
Definition rcfn_ok (callee : string) (roles : list nat) (refpos : list nat) (c : rcfn) : bool :=
  String.eqb (rc_callee c) callee &&
  list_eqb Nat.eqb (rc_direct c) roles &&
  forallb (fun i => nat_in i roles) (seq 0 (rc_nargs c)) &&
  forallb (fun i => Nat.ltb i (rc_nargs c)) (rc_scrut c) &&
  match omap (fun i => index_nat i (rc_scrut c)) roles, omap (fun i => index_nat i (rc_scrut c)) refpos with
  | Some perm, Some srefpos =>
      forallb (rarm_ok perm callee) (rc_arms c) &&
      table_exact (List.length (rc_scrut c)) srefpos (rc_arms c) &&
      forallb (fun j => match nth_error (rc_scrut c) j with Some i => negb (nat_in i refpos) || nat_in j srefpos | None => false end)
              (seq 0 (List.length (rc_scrut c)))
  | _, _ => false
  end.

Definition cfn_ok (callee : string) (roles : list nat) (refpos : list nat) (c : cfn) : bool :=
  match resolve_cfn c with
  | Some r => rcfn_ok callee roles refpos r
  | None => false
  end.

(* the sites of what is irregular in one compile(): [] iff it is regular (lemma cfn_diag_nil) *)
Definition cfn_diag (callee : string) (roles refpos : list nat) (c : cfn) : list string :=
  match resolve_cfn c with
  | None => [cf_site c ++ ": compile() names cannot be resolved"]
  | Some r =>
      if rcfn_ok callee roles refpos r then []
      else (cf_site c ++ ": irregular compile() (binding, direct call, arm order or coverage)")
           :: match omap (fun i => index_nat i (rc_scrut r)) roles with
              | Some perm => irregular ra_site (rarm_ok perm callee) (rc_arms r)
              | None => []
              end
  end.

(* ------------------------------------------------------------------------------------------------ *)
(* normalisation of statement terms: what does not change the value computed for `Copy` element types  *)
(* (`.clone()`, `*x`, `&x`, `&mut x`), statement punctuation (`;`, `unsafe { }`, a block that only holds  *)
(* a block) and the `mut` of a `let` are dropped.                                                       *)
(* ------------------------------------------------------------------------------------------------ *)
Definition norm1 (t : tm) : tm :=
  match t with
  | T h [x] =>
      if str_in h [".clone()"; "*u"; "&"; "&mut"; ";"; "unsafe"] then x
      else if String.eqb h "block" then (match x with T "block" _ => x | _ => t end)
      else t
  | T h a => if String.eqb h "letmut" then T "let" a else t
  | _ => t
  end.
Definition norm : tm -> tm := tmap norm1.

(* replace every leaf / head equal to [a] by [b] (used to abstract the operator token of a family) *)
Definition rename1 (a b : string) (t : tm) : tm :=
  match t with
  | L s => if String.eqb s a then L b else t
  | T h l => if String.eqb h a then T b l else t
  end.
Definition rename (a b : string) : tm -> tm := tmap (rename1 a b).

(* innermost binder of a constructor pattern `Value::X(Matrix::Y(b))` *)
Fixpoint binder_of (t : tm) : option string :=
  match t with
  | L s => Some s
  | T _ [x] => binder_of x
  | T _ _ => None
  end.

Definition count_if {A} (p : A -> bool) (l : list A) : nat := List.length (filter p l).
