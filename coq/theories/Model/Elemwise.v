(* C01 — elementwise operators: every shape, kind and broadcast form.
   Executable definitions only (proofs: Proofs/ElemwiseP.v).

   Anchors: src/core/src/stdlib.rs (impl_fxns!, impl_binop_match_arms!: one arm per
   (kind, lhs storage form, rhs storage form), the broadcast arms MDVD/MDRD/VDMD/RDMD and
   their guards), machines/{math,compare,logic}/src (the kernels selected by the arms),
   src/core/src/structures/matrix.rs (storage form chosen from (rows, cols)).

   Part 1  [bshape], [bop]: the SPECIFICATION — broadcast shape and elementwise tabulation
           of a scalar function.
   Part 2  [dispatch], [ibop]: the IMPLEMENTATION model — storage forms, the order of the
           dispatch arms with their guards, and the loops of the kernels (incl. the three
           flavours of the same-form kernel `*_vec_op`: nalgebra `add_to`/`sub_to`/
           `component_div` assert equal shapes; `mul`/`mod` zip the two element iterators;
           `pow`, the comparisons, the logic operators and string `+` index both operands with
           0..lhs.len(), where `&&`/`||` do not read the rhs element when the lhs element decides).
   Part 3  [sop]: the operators on scalars (exact Z, exact Q, Flocq IEEE-754, bool, string).
   Part 4  decoders and the judge. *)
From Coq Require Import List Arith ZArith Bool String.
From Flocq Require Import IEEE754.BinarySingleNaN IEEE754.Binary IEEE754.Bits.
From MechV Require Import Base.Sexp Base.Obs.
Import ListNotations.

(* ------------------------------------------------------------------ *)
(* Part 1: shapes, broadcasting, the specification [bop]               *)
(* ------------------------------------------------------------------ *)

Inductive shape : Type := Sc | Mx (r c : nat).

Definition shape_eqb (a b : shape) : bool :=
  match a, b with
  | Sc, Sc => true
  | Mx r c, Mx r' c' => Nat.eqb r r' && Nat.eqb c c'
  | _, _ => false
  end.

Inductive operand (A : Type) : Type := OS (x : A) | OM (m : mat A).
Arguments OS {A} _.
Arguments OM {A} _.

Definition oshape {A} (o : operand A) : shape :=
  match o with OS _ => Sc | OM m => Mx (mrows m) (mcols m) end.

Definition owf {A} (o : operand A) : bool :=
  match o with OS _ => true | OM m => wf_matb m end.

Definition odata {A} (o : operand A) : list A :=
  match o with OS x => [x] | OM m => mdata m end.

(* a "matrix" in the sense of the broadcast rule: at least 2 x 2 *)
Definition is_mat2 (r c : nat) : bool := Nat.leb 2 r && Nat.leb 2 c.

(* broadcast shape: scalar with anything; equal shapes; an r x c matrix (r,c >= 2) with an
   r x 1 column or a 1 x c row on either side.  Everything else is incompatible
   (in particular 1xN with Nx1, and a 1x1 matrix with anything but a scalar or a 1x1). *)
Definition bshape (a b : shape) : option shape :=
  match a, b with
  | Sc, s => Some s
  | s, Sc => Some s
  | Mx r1 c1, Mx r2 c2 =>
      if Nat.eqb r1 r2 && Nat.eqb c1 c2 then Some a
      else if is_mat2 r1 c1 && (Nat.eqb r2 r1 && Nat.eqb c2 1) then Some a
      else if is_mat2 r1 c1 && (Nat.eqb r2 1 && Nat.eqb c2 c1) then Some a
      else if is_mat2 r2 c2 && (Nat.eqb r1 r2 && Nat.eqb c1 1) then Some b
      else if is_mat2 r2 c2 && (Nat.eqb r1 1 && Nat.eqb c1 c2) then Some b
      else None
  end.

(* element of an operand seen through the broadcast: a scalar is everywhere, a vector is
   repeated along its unit dimension *)
Definition bget {A} (o : operand A) (i j : nat) : option A :=
  match o with
  | OS x => Some x
  | OM m => mget m (if Nat.eqb (mrows m) 1 then 0 else i) (if Nat.eqb (mcols m) 1 then 0 else j)
  end.

Definition cells (R C : nat) : list (nat * nat) :=
  flat_map (fun j => map (fun i => (i, j)) (seq 0 R)) (seq 0 C).

(* column-major tabulation; None as soon as one element is undefined *)
Definition tab {X} (R C : nat) (g : nat -> nat -> option X) : option (list X) :=
  map_opt (fun p => g (fst p) (snd p)) (cells R C).

Definition bel {A X} (f : A -> A -> option X) (a b : operand A) (i j : nat) : option X :=
  match bget a i j, bget b i j with
  | Some x, Some y => f x y
  | _, _ => None
  end.

(* [f x y = None]: the operator does not accept these scalars (error).  [bop f a b = None]: error. *)
Definition bop {A X} (f : A -> A -> option X) (a b : operand A) : option (operand X) :=
  match bshape (oshape a) (oshape b) with
  | None => None
  | Some Sc => option_map OS (bel f a b 0 0)
  | Some (Mx R C) => option_map (fun d => OM (Mat R C d)) (tab R C (bel f a b))
  end.

(* ------------------------------------------------------------------ *)
(* Part 2: what the code does — storage forms, dispatch arms, kernels  *)
(* ------------------------------------------------------------------ *)

Inductive form : Type := FS | FRD | FVD | FDM.    (* scalar, RowDVector, DVector, DMatrix *)

(* Matrix::from_vec / to_matrix in the buildable configuration:
   (1,1) => DMatrix ; (1,n) => RowDVector ; (m,1) => DVector ; (m,n) => DMatrix *)
Definition form_of (s : shape) : form :=
  match s with
  | Sc => FS
  | Mx r c => if Nat.eqb r 1 && Nat.eqb c 1 then FDM
              else if Nat.eqb r 1 then FRD
              else if Nat.eqb c 1 then FVD
              else FDM
  end.

Inductive arm : Type :=
| ASS     (* SS     : *_op            *)
| ASM     (* SMD/SRD/SVD : *_scalar_rhs_op (scalar on the left)  *)
| AMS     (* MDS/RDS/VDS : *_scalar_lhs_op (scalar on the right) *)
| AVV     (* MDMD/RDRD/VDVD : *_vec_op — no shape test in the dispatch *)
| AMV     (* MDVD : *_mat_vec_op *)
| AVM     (* VDMD : *_vec_mat_op *)
| AMR     (* MDRD : *_mat_row_op *)
| ARM.    (* RDMD : *_row_mat_op *)

(* `(n,_,m,1) if n == m => ()`  /  `(_,n,1,m) if n == m => ()` on (rows,cols,rhs_rows,rhs_cols) *)
Definition guard_lhs_dm (r c r2 c2 : nat) : bool :=
  (Nat.eqb c2 1 && Nat.eqb r r2) || (Nat.eqb r2 1 && Nat.eqb c c2).
(* `(m,1,n,_) if n == m => ()`  /  `(1,m,_,n) if n == m => ()` on (lhs_rows,lhs_cols,rows,cols) *)
Definition guard_rhs_dm (r1 c1 r c : nat) : bool :=
  (Nat.eqb c1 1 && Nat.eqb r r1) || (Nat.eqb r1 1 && Nat.eqb c c1).

(* the arm order of impl_binop_match_arms!: scalar arms, same-form arms, then
   (DMatrix lhs, any rhs) with its guard, then (any lhs, DMatrix rhs) with its guard,
   then the catch-all UnhandledFunctionArgumentKind2 *)
Definition dispatch (a b : shape) : option arm :=
  match a, b with
  | Sc, Sc => Some ASS
  | Sc, Mx _ _ => Some ASM
  | Mx _ _, Sc => Some AMS
  | Mx r1 c1, Mx r2 c2 =>
      match form_of a, form_of b with
      | FDM, FDM => Some AVV
      | FRD, FRD => Some AVV
      | FVD, FVD => Some AVV
      | FDM, fb =>
          if guard_lhs_dm r1 c1 r2 c2
          then match fb with FVD => Some AMV | FRD => Some AMR | _ => None end
          else None
      | fa, FDM =>
          if guard_rhs_dm r1 c1 r2 c2
          then match fa with FVD => Some AVM | FRD => Some ARM | _ => None end
          else None
      | _, _ => None
      end
  end.

(* flavour of the same-form kernel *)
Inductive vkern : Type :=
| VStrict     (* add_to / sub_to / component_div: assert equal shapes (panic -> error) *)
| VZip        (* out.iter_mut().zip(lhs.iter().zip(rhs.iter())): stops at the shorter operand *)
| VIndex.     (* for i in 0..lhs.len() { out[i] = lhs[i] op rhs[i] }: panics when rhs[i] is read beyond its end *)

Definition map2_opt {A X} (f : A -> A -> option X) (la lb : list A) : option (list X) :=
  map_opt (fun p => f (fst p) (snd p)) (combine la lb).

(* the index loop.  [sc x] is the result the scalar expression yields from the lhs element alone, without
   reading the rhs (`false && _`, `true || _` short-circuit in Rust); None = the rhs element is read. *)
Fixpoint index_kernel {A X} (f : A -> A -> option X) (sc : A -> option X) (la lb : list A) : option (list X) :=
  match la with
  | [] => Some []
  | x :: la' =>
      match (match lb with y :: _ => f x y | [] => sc x end), index_kernel f sc la' (tl lb) with
      | Some v, Some vs => Some (v :: vs)
      | _, _ => None
      end
  end.

(* some lhs element beyond the end of the rhs needs its rhs partner *)
Definition runs_out {A X} (sc : A -> option X) (la lb : list A) : bool :=
  existsb (fun x => match sc x with None => true | Some _ => false end) (skipn (List.length lb) la).

Definition nth2 {A X} (f : A -> A -> option X) (la lb : list A) (ka kb : nat) : option X :=
  match nth_error la ka, nth_error lb kb with
  | Some x, Some y => f x y
  | _, _ => None
  end.

Definition ibop {A X} (dflt : X) (vk : vkern) (sc : A -> option X) (f : A -> A -> option X) (a b : operand A)
  : option (operand X) :=
  match dispatch (oshape a) (oshape b), a, b with
  | Some ASS, OS x, OS y => option_map OS (f x y)
  | Some ASM, OS x, OM mb =>
      option_map (fun d => OM (Mat (mrows mb) (mcols mb) d)) (map_opt (fun y => f x y) (mdata mb))
  | Some AMS, OM ma, OS y =>
      option_map (fun d => OM (Mat (mrows ma) (mcols ma) d)) (map_opt (fun x => f x y) (mdata ma))
  | Some AVV, OM ma, OM mb =>
      let out := fun d => OM (Mat (mrows ma) (mcols ma) d) in
      let la := List.length (mdata ma) in
      match vk with
      | VStrict =>
          if Nat.eqb (mrows ma) (mrows mb) && Nat.eqb (mcols ma) (mcols mb)
          then option_map out (map2_opt f (mdata ma) (mdata mb)) else None
      | VZip =>
          option_map (fun d => out (List.app d (repeat dflt (la - List.length d))))
                     (map2_opt f (mdata ma) (mdata mb))
      | VIndex => option_map out (index_kernel f sc (mdata ma) (mdata mb))
      end
  | Some AMV, OM ma, OM mb =>      (* for each column of lhs: col[i] = lhs_col[i] op rhs[i] *)
      let R := mrows ma in
      option_map (fun d => OM (Mat R (mcols ma) d))
        (tab R (mcols ma) (fun i j => nth2 f (mdata ma) (mdata mb) (j * R + i) i))
  | Some AVM, OM ma, OM mb =>      (* for each column of rhs: col[i] = lhs[i] op rhs_col[i] *)
      let R := mrows mb in
      option_map (fun d => OM (Mat R (mcols mb) d))
        (tab R (mcols mb) (fun i j => nth2 f (mdata ma) (mdata mb) i (j * R + i)))
  | Some AMR, OM ma, OM mb =>      (* for each row of lhs: row[j] = lhs_row[j] op rhs[j] *)
      let R := mrows ma in
      option_map (fun d => OM (Mat R (mcols ma) d))
        (tab R (mcols ma) (fun i j => nth2 f (mdata ma) (mdata mb) (j * R + i) j))
  | Some ARM, OM ma, OM mb =>      (* for each row of rhs: row[j] = lhs[j] op rhs_row[j] *)
      let R := mrows mb in
      option_map (fun d => OM (Mat R (mcols mb) d))
        (tab R (mcols mb) (fun i j => nth2 f (mdata ma) (mdata mb) j (j * R + i)))
  | _, _, _ => None
  end.

(* the class of inputs on which the implementation model leaves the specification:
   two matrices of the same storage form but different shape, given to a kernel that
   does not compare the shapes and happens not to read beyond the end of the rhs *)
Definition kf_samevec {A X} (vk : vkern) (sc : A -> option X) (a b : operand A) : bool :=
  match dispatch (oshape a) (oshape b), a, b with
  | Some AVV, OM ma, OM mb =>
      negb (Nat.eqb (mrows ma) (mrows mb) && Nat.eqb (mcols ma) (mcols mb)) &&
      match vk with
      | VStrict => false
      | VZip => true
      | VIndex => negb (runs_out sc (mdata ma) (mdata mb))
      end
  | _, _, _ => false
  end.

(* ------------------------------------------------------------------ *)
(* Part 3: the operators on scalars                                    *)
(* ------------------------------------------------------------------ *)

Inductive op : Type :=
| Add | Sub | Mul | Div | Mod | Pow | Neg
| Eq | Ne | Lt | Le | Gt | Ge
| And | Or | Xor | Not.

Inductive kind : Type :=
| KInt (signed : bool) (bits : Z)
| KF64 | KF32 | KR64 | KC64 | KBool | KStr.

Definition is_cmp (o : op) : bool :=
  match o with Eq | Ne | Lt | Le | Gt | Ge => true | _ => false end.
Definition is_ord (o : op) : bool :=
  match o with Lt | Le | Gt | Ge => true | _ => false end.
Definition is_logic (o : op) : bool :=
  match o with And | Or | Xor | Not => true | _ => false end.
Definition is_unary (o : op) : bool :=
  match o with Neg | Not => true | _ => false end.

(* kind of the result *)
Definition rkind (o : op) (k : kind) : kind := if is_cmp o || is_logic o then KBool else k.

(* which same-form kernel the operator uses (machines/*/src; `+` on strings is
   machines/string/src/concat.rs, dispatched by the same macro) *)
Definition vkern_of (o : op) (k : kind) : vkern :=
  match o, k with
  | Add, KStr => VIndex
  | (Add | Sub | Div), _ => VStrict
  | (Mul | Mod), _ => VZip
  | _, _ => VIndex
  end.

(* `lhs[i] && rhs[i]` / `lhs[i] || rhs[i]` do not read rhs[i] when lhs[i] decides (payloads: bool 0/1) *)
Definition sc_of (o : op) (p : sx) : option sx :=
  match o, p with
  | And, Zx 0%Z => Some (Zx 0%Z)
  | Or, Zx 1%Z => Some (Zx 1%Z)
  | _, _ => None
  end.

(* the kind lists of the impl_*_fxn dispatchers (+ string concatenation for `+`) *)
Definition accepts (o : op) (k : kind) : bool :=
  match o, k with
  | Add, KBool => false
  | Add, _ => true
  | (Sub | Mul | Div), (KBool | KStr) => false
  | (Sub | Mul | Div), _ => true
  | Mod, (KInt _ _ | KF64 | KF32) => true
  | Mod, _ => false
  | Pow, KInt sg w => negb sg && Z.leb w 32
  | Pow, (KF64 | KF32) => true
  | Pow, _ => false
  | Neg, KInt sg _ => sg
  | Neg, (KF64 | KF32 | KR64 | KC64) => true
  | Neg, _ => false
  | (Eq | Ne), _ => true
  | (Lt | Le | Gt | Ge), (KBool | KStr) => false
  | (Lt | Le | Gt | Ge), _ => true
  | (And | Or | Xor | Not), KBool => true
  | (And | Or | Xor | Not), _ => false
  end.

(* result of the scalar model *)
Inductive sres : Type :=
| SV (binding : bool) (p : sx)   (* predicted payload; binding: the property fixes it *)
| SAdv                           (* the property leaves it open (overflow, division by zero, ...) *)
| SUnk                           (* accepted but not modelled (float % and ^, complex) *)
| SRej                           (* the operator has no arm for this kind *)
| SIll.                          (* ill-formed payload *)

Local Open Scope Z_scope.

Definition in_range (sg : bool) (w z : Z) : bool :=
  if sg then (- 2 ^ (w - 1) <=? z) && (z <? 2 ^ (w - 1)) else (0 <=? z) && (z <? 2 ^ w).

Definition bool_p (b : bool) : sx := Zx (if b then 1 else 0).

Definition ret_int (sg : bool) (w z : Z) : sres := if in_range sg w z then SV true (Zx z) else SAdv.

Definition cmp_of (o : op) (c : comparison) : bool :=
  match o, c with
  | Eq, Datatypes.Eq => true
  | Ne, Datatypes.Eq => false
  | Ne, _ => true
  | Lt, Datatypes.Lt => true
  | Le, (Datatypes.Lt | Datatypes.Eq) => true
  | Gt, Datatypes.Gt => true
  | Ge, (Datatypes.Gt | Datatypes.Eq) => true
  | _, _ => false
  end.

Definition int_op (o : op) (sg : bool) (w a b : Z) : sres :=
  match o with
  | Add => ret_int sg w (a + b)
  | Sub => ret_int sg w (a - b)
  | Mul => ret_int sg w (a * b)
  | Div =>
      if b =? 0 then SAdv
      else if Z.rem a b =? 0 then ret_int sg w (Z.quot a b)
      else SV false (Zx (Z.quot a b))        (* Rust `/` truncates; the exact quotient is no integer *)
  | Mod =>
      if b =? 0 then SAdv
      else if (0 <=? a) && (0 <? b) then SV true (Zx (a mod b))
      else SV false (Zx (Z.rem a b))         (* Rust `%`: sign of the dividend *)
  | Pow =>
      if sg || (32 <? w) then SRej
      else if w <? b then (if a =? 0 then SV true (Zx 0) else if a =? 1 then SV true (Zx 1) else SAdv)
      else ret_int sg w (a ^ b)
  | Neg => if sg then ret_int sg w (- a) else SRej
  | Eq | Ne | Lt | Le | Gt | Ge => SV true (bool_p (cmp_of o (a ?= b)))
  | And | Or | Xor | Not => SRej
  end.

Definition bool_op (o : op) (a b : bool) : sres :=
  match o with
  | And => SV true (bool_p (andb a b))
  | Or => SV true (bool_p (orb a b))
  | Xor => SV true (bool_p (xorb a b))
  | Not => SV true (bool_p (negb a))
  | Eq => SV true (bool_p (Bool.eqb a b))
  | Ne => SV true (bool_p (negb (Bool.eqb a b)))
  | _ => SRej
  end.

Definition str_op (o : op) (a b : string) : sres :=
  match o with
  | Add => SV true (Qx (String.append a b))
  | Eq => SV true (bool_p (String.eqb a b))
  | Ne => SV true (bool_p (negb (String.eqb a b)))
  | _ => SRej
  end.

(* rationals: n/d with d > 0, reduced on output; binding iff both parts fit i64 *)
Definition rnorm (n d : Z) : Z * Z :=
  let g := Z.gcd n d in
  if d <? 0 then (- (n / g), - (d / g)) else (n / g, d / g).

Definition ret_rat (n d : Z) : sres :=
  if d =? 0 then SAdv
  else let '(n', d') := rnorm n d in
       if in_range true 64 n' && in_range true 64 d' then SV true (Lx [Zx n'; Zx d']) else SAdv.

Definition rat_op (o : op) (n1 d1 n2 d2 : Z) : sres :=
  if negb ((0 <? d1) && (0 <? d2)) then SIll else
  match o with
  | Add => ret_rat (n1 * d2 + n2 * d1) (d1 * d2)
  | Sub => ret_rat (n1 * d2 - n2 * d1) (d1 * d2)
  | Mul => ret_rat (n1 * n2) (d1 * d2)
  | Div => ret_rat (n1 * d2) (d1 * n2)
  | Neg => ret_rat (- n1) d1
  | Eq | Ne | Lt | Le | Gt | Ge => SV true (bool_p (cmp_of o (n1 * d2 ?= n2 * d1)))
  | _ => SRej
  end.

(* floats: Flocq binary64 / binary32, round to nearest even *)
Definition fcmp_of (o : op) (c : option comparison) : bool :=
  match c with
  | Some c => cmp_of o c
  | None => match o with Ne => true | _ => false end     (* NaN is unordered *)
  end.

Definition f64_op (o : op) (a b : Z) : sres :=
  if negb ((0 <=? a) && (a <? 2 ^ 64) && (0 <=? b) && (b <? 2 ^ 64)) then SIll else
  let x := b64_of_bits a in
  let y := b64_of_bits b in
  match o with
  | Add => SV true (Zx (bits_of_b64 (b64_plus mode_NE x y)))
  | Sub => SV true (Zx (bits_of_b64 (b64_minus mode_NE x y)))
  | Mul => SV true (Zx (bits_of_b64 (b64_mult mode_NE x y)))
  | Div => SV true (Zx (bits_of_b64 (b64_div mode_NE x y)))
  | Neg => SV true (Zx (bits_of_b64 (b64_opp x)))
  | Eq | Ne | Lt | Le | Gt | Ge => SV true (bool_p (fcmp_of o (b64_compare x y)))
  | Mod | Pow => SUnk
  | _ => SRej
  end.

Definition f32_op (o : op) (a b : Z) : sres :=
  if negb ((0 <=? a) && (a <? 2 ^ 32) && (0 <=? b) && (b <? 2 ^ 32)) then SIll else
  let x := b32_of_bits a in
  let y := b32_of_bits b in
  match o with
  | Add => SV true (Zx (bits_of_b32 (b32_plus mode_NE x y)))
  | Sub => SV true (Zx (bits_of_b32 (b32_minus mode_NE x y)))
  | Mul => SV true (Zx (bits_of_b32 (b32_mult mode_NE x y)))
  | Div => SV true (Zx (bits_of_b32 (b32_div mode_NE x y)))
  | Neg => SV true (Zx (bits_of_b32 (b32_opp x)))
  | Eq | Ne | Lt | Le | Gt | Ge => SV true (bool_p (fcmp_of o (b32_compare x y)))
  | Mod | Pow => SUnk
  | _ => SRej
  end.

Definition sx_bool (p : sx) : option bool :=
  match p with Zx 0 => Some false | Zx 1 => Some true | _ => None end.

Definition sop (o : op) (k : kind) (pa pb : sx) : sres :=
  match k with
  | KInt sg w =>
      match pa, pb with
      | Zx a, Zx b => if in_range sg w a && in_range sg w b then int_op o sg w a b else SIll
      | _, _ => SIll
      end
  | KBool =>
      match sx_bool pa, sx_bool pb with
      | Some a, Some b => bool_op o a b
      | _, _ => SIll
      end
  | KStr =>
      match pa, pb with
      | Qx a, Qx b => str_op o a b
      | _, _ => SIll
      end
  | KR64 =>
      match pa, pb with
      | Lx [Zx n1; Zx d1], Lx [Zx n2; Zx d2] => rat_op o n1 d1 n2 d2
      | _, _ => SIll
      end
  | KF64 => match pa, pb with Zx a, Zx b => f64_op o a b | _, _ => SIll end
  | KF32 => match pa, pb with Zx a, Zx b => f32_op o a b | _, _ => SIll end
  | KC64 => if accepts o KC64 then SUnk else SRej
  end.

(* equality of payloads of one kind: floats by bit pattern with all NaNs identified *)
Definition is_nan64 (z : Z) : bool := 9218868437227405312 <? z mod 2 ^ 63.
Definition is_nan32 (z : Z) : bool := 2139095040 <? z mod 2 ^ 31.

Definition feq64 (p q : sx) : bool :=
  match p, q with
  | Zx a, Zx b => (a =? b) || (is_nan64 a && is_nan64 b)
  | _, _ => false
  end.

Definition payload_eqb (k : kind) (p q : sx) : bool :=
  match k with
  | KF64 => feq64 p q
  | KF32 => match p, q with Zx a, Zx b => (a =? b) || (is_nan32 a && is_nan32 b) | _, _ => false end
  | KC64 => match p, q with
            | Lx [r1; i1], Lx [r2; i2] => feq64 r1 r2 && feq64 i1 i2
            | _, _ => false
            end
  | _ => sx_eqb p q
  end.

(* `$target_type::default()`: what an untouched cell of the output holds *)
Definition dflt_payload (k : kind) : sx :=
  match k with
  | KR64 => Lx [Zx 0; Zx 1]
  | KC64 => Lx [Zx 0; Zx 0]
  | KStr => Qx ""
  | _ => Zx 0
  end.

Local Close Scope Z_scope.

(* ------------------------------------------------------------------ *)
(* Part 4: decoders and judge                                          *)
(* ------------------------------------------------------------------ *)
Open Scope string_scope.

Definition kind_of_name (s : string) : option kind :=
  if String.eqb s "u8" then Some (KInt false 8) else
  if String.eqb s "u16" then Some (KInt false 16) else
  if String.eqb s "u32" then Some (KInt false 32) else
  if String.eqb s "u64" then Some (KInt false 64) else
  if String.eqb s "u128" then Some (KInt false 128) else
  if String.eqb s "i8" then Some (KInt true 8) else
  if String.eqb s "i16" then Some (KInt true 16) else
  if String.eqb s "i32" then Some (KInt true 32) else
  if String.eqb s "i64" then Some (KInt true 64) else
  if String.eqb s "i128" then Some (KInt true 128) else
  if String.eqb s "f64" then Some KF64 else
  if String.eqb s "f32" then Some KF32 else
  if String.eqb s "r64" then Some KR64 else
  if String.eqb s "c64" then Some KC64 else
  if String.eqb s "bool" then Some KBool else
  if String.eqb s "string" then Some KStr else None.

Definition op_of_name (s : string) : option op :=
  if String.eqb s "add" then Some Add else
  if String.eqb s "sub" then Some Sub else
  if String.eqb s "mul" then Some Mul else
  if String.eqb s "div" then Some Div else
  if String.eqb s "mod" then Some Mod else
  if String.eqb s "pow" then Some Pow else
  if String.eqb s "neg" then Some Neg else
  if String.eqb s "eq" then Some Eq else
  if String.eqb s "ne" then Some Ne else
  if String.eqb s "lt" then Some Lt else
  if String.eqb s "le" then Some Le else
  if String.eqb s "gt" then Some Gt else
  if String.eqb s "ge" then Some Ge else
  if String.eqb s "and" then Some And else
  if String.eqb s "or" then Some Or else
  if String.eqb s "xor" then Some Xor else
  if String.eqb s "not" then Some Not else None.

(* name of the result kind *)
Definition rkname (o : op) (kn : string) : string := if is_cmp o || is_logic o then "bool" else kn.

Definition decode_shape (x : sx) : option shape :=
  match x with
  | Ax "s" => Some Sc
  | Lx [Zx r; Zx c] => if andb (Z.leb 0 r) (Z.leb 0 c) then Some (Mx (Z.to_nat r) (Z.to_nat c)) else None
  | _ => None
  end.

Definition decode_pair (x : sx) : option (nat * nat) :=
  match x with
  | Lx [Zx a; Zx b] => if andb (Z.leb 0 a) (Z.leb 0 b) then Some (Z.to_nat a, Z.to_nat b) else None
  | _ => None
  end.

Definition operand_of_kval (v : kval) : string * operand sx :=
  match v with KS k e => (k, OS e) | KM k m => (k, OM m) end.

Definition encode_operand (kn : string) (o : operand sx) : sx :=
  match o with OS e => encode_kval (KS kn e) | OM m => encode_kval (KM kn m) end.

(* one scalar evaluation `x op y` of the implementation: operands and what came back *)
Definition otable := list (sx * sx * obs).

Fixpoint orc_lookup (t : otable) (pa pb : sx) : option obs :=
  match t with
  | [] => None
  | (a, b, o) :: r => if sx_eqb a pa && sx_eqb b pb then Some o else orc_lookup r pa pb
  end.

(* the implementation's own scalar result as a partial function on payloads *)
Definition orc_f (rkn : string) (t : otable) (pa pb : sx) : option sx :=
  match orc_lookup t pa pb with
  | Some (OVal (KS k p)) => if String.eqb k rkn then Some p else None
  | _ => None
  end.

Definition orc_present (t : otable) (pa pb : sx) : option unit :=
  match orc_lookup t pa pb with Some _ => Some tt | None => None end.

Fixpoint all2b {A B} (f : A -> B -> bool) (la : list A) (lb : list B) : bool :=
  match la, lb with
  | [], [] => true
  | x :: la', y :: lb' => f x y && all2b f la' lb'
  | _, _ => false
  end.

(* expected operand-shaped value vs observed kinded value *)
Definition val_eqb (rk : kind) (rkn : string) (e : operand sx) (v : kval) : bool :=
  match e, v with
  | OS p, KS k p' => String.eqb k rkn && payload_eqb rk p p'
  | OM m, KM k m' =>
      String.eqb k rkn && Nat.eqb (mrows m) (mrows m') && Nat.eqb (mcols m) (mcols m') &&
      all2b (payload_eqb rk) (mdata m) (mdata m')
  | _, _ => false
  end.

(* scalar layer: every scalar evaluation against the scalar model *)
Definition scalar_bad (o : op) (k : kind) (rkn : string) (e : sx * sx * obs) : bool :=
  let '(pa, pb, ob) := e in
  match sop o k pa pb with
  | SV true p =>
      match ob with
      | OVal (KS k' p') => negb (String.eqb k' rkn && payload_eqb (rkind o k) p p')
      | _ => true
      end
  | SIll => true
  | _ => false
  end.

Definition scalar_modelled (o : op) (k : kind) (e : sx * sx * obs) : bool :=
  let '(pa, pb, _) := e in
  match sop o k pa pb with SV true _ => true | _ => false end.

Definition expected_scalar (o : op) (k : kind) (e : sx * sx * obs) : sx :=
  let '(pa, pb, _) := e in
  match sop o k pa pb with SV _ p => Lx [pa; pb; p] | _ => Lx [pa; pb] end.

(* a row/column vector is being broadcast (acceptance of these forms is not demanded by the property) *)
Definition is_vec_bcast (a b : shape) : bool :=
  match a, b with
  | Mx _ _, Mx _ _ => negb (shape_eqb a b)
  | _, _ => false
  end.

Definition kf_id : string := "samevec-shape-unchecked".

(* the judge proper: operator, kind, operands as the implementation holds them, its scalar
   evaluations, and its result for `A op B` *)
Definition judge_core (o : op) (k : kind) (kn : string) (a b : operand sx) (t : otable) (r : obs) : sx :=
  let rk := rkind o k in
  let rkn := rkname o kn in
  match find (scalar_bad o k rkn) t with
  | Some e => v_bad "scalar-mismatch" (expected_scalar o k e)
  | None =>
    match bshape (oshape a) (oshape b) with
    | None =>
        match r with
        | OErr => v_ok "rejected-shape"
        | OVal v =>
            match ibop (dflt_payload rk) (vkern_of o k) (sc_of o) (orc_f rkn t) a b with
            | Some d => if kf_samevec (vkern_of o k) (sc_of o) a b && val_eqb rk rkn d v then v_kf kf_id
                        else v_bad "incompatible-shapes-accepted" (Ax "err")
            | None => v_bad "incompatible-shapes-accepted" (Ax "err")
            end
        | _ => v_bad "expected-error" (Ax "err")
        end
    | Some s =>
        match bop (orc_present t) a b with
        | None => v_malformed                       (* a needed scalar evaluation is missing *)
        | Some _ =>
          match bop (orc_f rkn t) a b with
          | Some e =>
              match r with
              | OVal v =>
                  if val_eqb rk rkn e v then
                    match s with
                    | Sc =>
                        match t with
                        | [(pa, pb, _)] =>
                            match sop o k pa pb with
                            | SV true _ => v_ok "scalar"
                            | SV false _ => v_adv "scalar-advisory"
                            | SAdv => v_adv "scalar-unconstrained"
                            | SUnk => v_adv "scalar-unmodelled"
                            | _ => v_adv "scalar-unmodelled-kind"
                            end
                        | _ => v_malformed
                        end
                    | Mx _ _ => if forallb (scalar_modelled o k) t then v_ok "value" else v_ok "value-own-scalar"
                    end
                  else v_bad "elementwise-mismatch" (encode_operand rkn e)
              | OErr =>
                  if is_vec_bcast (oshape a) (oshape b) then v_adv "vector-broadcast-rejected"
                  else v_bad "rejected-where-scalars-accepted" (encode_operand rkn e)
              | _ => v_bad "not-a-value" (encode_operand rkn e)
              end
          | None =>                                  (* some needed scalar evaluation is no value *)
              match r with
              | OErr => if accepts o k then v_adv "scalar-error" else v_ok "rejected-kind"
              | OVal _ => v_bad "value-where-scalar-errs" (Ax "err")
              | _ => v_bad "expected-error" (Ax "err")
              end
          end
        end
    end
  end.

Fixpoint build_table (a b : list sx) (ps : list (nat * nat)) (os : list sx) : option otable :=
  match ps, os with
  | [], [] => Some []
  | (ia, ib) :: ps', o :: os' =>
      match nth_error a ia, nth_error b ib, build_table a b ps' os' with
      | Some pa, Some pb, Some t => Some ((pa, pb, decode_obs o) :: t)
      | _, _, _ => None
      end
  | _, _ => None
  end.

(* case: (ew <op> <kind> <shapeA> <shapeB> ((ia ib) ...))
   obs : (multi <(tuple A B) | error> <A op B> <x1 op y1> ... )   — xk = A[iak], yk = B[ibk] (linear, column-major) *)
Definition judge_ew (x : sx) : sx :=
  match x with
  | Lx [Lx [Ax "ew"; Ax on; Ax kn; sa; sb; Lx ps]; Lx (Ax "multi" :: ab :: r :: os)] =>
      match op_of_name on, kind_of_name kn, decode_shape sa, decode_shape sb, map_opt decode_pair ps with
      | Some o, Some k, Some sha, Some shb, Some pairs =>
          match ab with
          | Lx [Ax "tuple"; va; vb] =>
              match decode_kval va, decode_kval vb with
              | Some ka, Some kb =>
                  let '(kna, a) := operand_of_kval ka in
                  let '(knb, b) := operand_of_kval kb in
                  if String.eqb kna kn && String.eqb knb kn && shape_eqb (oshape a) sha && shape_eqb (oshape b) shb
                     && owf a && owf b
                  then match build_table (odata a) (odata b) pairs os with
                       | Some t => judge_core o k kn a b t (decode_obs r)
                       | None => v_malformed
                       end
                  else v_adv "operand-mismatch"
              | _, _ => v_adv "operand-mismatch"
              end
          | _ => v_adv "operand-definition-failed"
          end
      | _, _, _, _, _ => v_malformed
      end
  | Lx [Lx (Ax "ew" :: _); o] => v_bad "no-observation" o     (* the harness process aborted or hung on this case *)
  | _ => v_malformed
  end.

Definition run_line (s : string) : string := run_with judge_ew s.
