(* C09 — the parser is total.  Executable definitions only.

   PARTIAL BY DESIGN (DESIGN.md §5 C09, §8): the ~5000-line nom grammar of src/syntax is not transcribed.
   What is modelled is the hand-written logic around it:

   (A) the location bookkeeping of ParseString (src/syntax/src/lib.rs: consume_one / consume_tag, loc,
       is_last_grapheme; graphemes::init_source appends "\n"; graphemes::width) and the line table of
       TextFormatter::new, i.e. how a grapheme cursor becomes a (row, col) pair and what "inside the text" means;
   (B) the recovery skeleton: parser.rs::mech_code (statement loop with skip_till_end_of_statement recovery),
       mechdown.rs::section and ::body (element / section loops), parser.rs::program and ::parse
       ("remaining must be empty" rule, merge of the error log).  Leaf parsers are parameters; the only facts
       assumed about them are stated in Proofs/ParseLoopP.v (Section hypotheses);
   (C) the judge of the correspondence run: it recomputes the line table from the text bytes itself and checks
       the harness observation
         `(parse tag same (ranges ..) nlines (linelens ..) (linewidths ..) (flags ..) (info ..) (hook ..))`
       (harness/src/mode_parse.rs), `(hang)` and `(abort n)` (vlib/core.py: no output for STALL seconds / process died).
       Open known findings (narrow classes decided from the text + the predicted wrong observation): exp-nesting,
       stack-overflow-prefix-run.  Five defects this check found are fixed in /repo (d162281 body progress check,
       6eb0df4 located fence errors / no todo!(), 213fdb6 format_error count, 35b608b empty inline equation): their
       witnesses stay in the generator and are now judged like every other text. *)
From Coq Require Import List Arith ZArith String Ascii Bool.
From MechV Require Import Base.Sexp Base.Obs.
Import ListNotations.
Open Scope list_scope.

(* ====================================================================== *)
(* (A) graphemes, locations, line table                                    *)
(* ====================================================================== *)

(* A grapheme as far as the bookkeeping can see it: a line terminator ("\n", "\r", "\r\n":
   graphemes::is_new_line) or anything else with its display width (graphemes::width: 0 for control
   characters, 1 otherwise). *)
Inductive gk : Type := GNl | GCh (w : nat).

Definition loc : Type := (nat * nat)%type.      (* (row, col), 1-based *)

(* ParseString::consume_one / consume_tag: a line terminator moves to column 1 of the next row unless it is
   the last grapheme of the source (is_last_grapheme); anything else advances the column by its width. *)
Definition advance (l : loc) (g : gk) (last : bool) : loc :=
  match g with
  | GNl => if last then l else (S (fst l), 1)
  | GCh w => (fst l, snd l + w)
  end.

Definition is_nil {A} (l : list A) : bool := match l with [] => true | _ => false end.

(* location after consuming c graphemes of gs, starting at l *)
Fixpoint loc_from (l : loc) (gs : list gk) (c : nat) : loc :=
  match c, gs with
  | S c', g :: r => loc_from (advance l g (is_nil r)) r c'
  | _, _ => l
  end.

(* ParseString::new starts at row 1, col 1 *)
Definition loc_of (gs : list gk) (c : nat) : loc := loc_from (1, 1) gs c.

(* the line table: width of every line (a line ends at each terminator; the source always ends with one) *)
Fixpoint line_widths_from (w : nat) (gs : list gk) : list nat :=
  match gs with
  | [] => []
  | GNl :: r => w :: line_widths_from 0 r
  | GCh x :: r => line_widths_from (w + x) r
  end.
Definition line_widths (gs : list gk) : list nat := line_widths_from 0 gs.

(* graphemes::init_source: the segmented text followed by one more "\n" *)
Definition init_source (body : list gk) : list gk := body ++ [GNl].

(* SourceRange as the report carries it *)
Record srange : Type := SR { sr_r1 : Z; sr_c1 : Z; sr_r2 : Z; sr_c2 : Z }.

(* A range as the parser builds it: from two cursors.  bump = true is ParseError::new's `end.col += 1`
   (every ParseError cause range: label / labelr / mech_code only move `start` back to an earlier cursor);
   bump = false is the `range(p)` combinator (annotation ranges) and recover()'s placeholder ranges. *)
Inductive crange : Type := CR (a b : nat) (bump : bool).

Definition to_srange (gs : list gk) (cr : crange) : srange :=
  match cr with
  | CR a b bump =>
      let la := loc_of gs a in
      let lb := loc_of gs b in
      SR (Z.of_nat (fst la)) (Z.of_nat (snd la)) (Z.of_nat (fst lb))
         (Z.of_nat (if bump then S (snd lb) else snd lb))
  end.

Definition cr_okb (len : nat) (cr : crange) : bool :=
  match cr with CR a b _ => andb (Nat.leb a b) (Nat.leb b len) end.

(* "the range lies within the input": ws = width of each line of the newline-terminated text.
   Rows 1..nlines; a start column may point at any character of its line or at the line terminator
   (col = width + 1); the exclusive end column may be one further (width + 2: the range covers the terminator);
   start <= end lexicographically. *)
Definition nthZ (ws : list Z) (row : Z) : Z := nth (Z.to_nat (row - 1)) ws 0%Z.

Definition range_withinb (ws : list Z) (r : srange) : bool :=
  let n := Z.of_nat (List.length ws) in
  (1 <=? sr_r1 r)%Z && (sr_r1 r <=? sr_r2 r)%Z && (sr_r2 r <=? n)%Z &&
  (1 <=? sr_c1 r)%Z && (sr_c1 r <=? nthZ ws (sr_r1 r) + 1)%Z &&
  (1 <=? sr_c2 r)%Z && (sr_c2 r <=? nthZ ws (sr_r2 r) + 2)%Z &&
  ((sr_r1 r <? sr_r2 r)%Z || (sr_c1 r <=? sr_c2 r)%Z).

(* what TextFormatter::err_location / err_context subtract from: `end.col - 1`, `end.row - 1` must not underflow *)
Definition fmt_safeb (r : srange) : bool := (1 <=? sr_r2 r)%Z && (1 <=? sr_c2 r)%Z && (1 <=? sr_r1 r)%Z.

(* ====================================================================== *)
(* (B) the recovery skeleton                                               *)
(* ====================================================================== *)

(* results of the leaf parsers, reduced to what the loops look at: cursors and the entries they add to
   the error log.  An error carries (s, k): cause range CR s k true, remaining_input.cursor = k. *)
Inductive ares : Type :=            (* mech_code_alt *)
| AOk (j : nat) (lg : list crange)
| AUnexp (s k : nat) (lg : list crange)      (* Err::Error with message "Unexpected character" *)
| AErr (s k : nat) (lg : list crange)        (* any other Err::Error *)
| AFail (s k : nat) (lg : list crange).      (* Err::Failure *)

Inductive tres : Type := TOk (j : nat) | TErr (s k : nat).                       (* code_terminal *)
Inductive eres : Type := EOk (j : nat) (lg : list crange) | EErr (s k : nat) (lg : list crange). (* section_element *)

(* result of mech_code: Ok((rest, output)) with |output| = n, or Err(e) *)
Inductive mres : Type :=
| MOk (j n : nat) (log : list crange)
| MErr (s k : nat) (log : list crange).
Inductive mstep : Type := MRet (r : mres) | MNext (j n : nat) (log : list crange).

Inductive sres : Type := SOk (j : nat) (log : list crange) | SErr (s k : nat) (log : list crange).
Inductive sstep : Type := SRet (r : sres) | SNext (j : nat) (log : list crange) | SHang.
Inductive bstep : Type := BRet (r : sres) | BNext (j : nat) (log : list crange) | BHang.

Inductive outcome : Type :=
| PTree (final : nat)                       (* Ok(tree); final = cursor of the remaining input *)
| PReport (report : list crange)            (* Err(ParserErrorReport) *)
| PHang.                                    (* the fuel ran out: the real loop would not return *)

Section Loops.
  Variable len : nat.                                   (* graphemes.len() *)
  (* leaves of mech_code *)
  Variable not_mech : nat -> bool.                      (* peek(not_mech_code) *)
  Variable alt : nat -> ares.                           (* mech_code_alt *)
  Variable subtitle_at : nat -> bool.                   (* subtitle(new_input).is_ok() *)
  Variable skip_eos : nat -> option nat.                (* skip_till_end_of_statement; None = its `?` propagates *)
  Variable term : nat -> tres.                          (* code_terminal *)
  (* leaves of section / body / program *)
  Variable close_at : nat -> bool.                      (* mika_section_close(input).is_ok() *)
  Variable ul_subtitle : nat -> option nat.
  Variable mika : nat -> option (nat * list crange).
  Variable sect_elem : nat -> eres.                     (* section_element *)
  Variable blank_lines : nat -> nat.                    (* many0(blank_line) *)
  Variable ws0 : nat -> nat.                            (* whitespace0 *)
  Variable title : nat -> option (nat * list crange).   (* opt(title) *)

  (* `if output.len() > 0 { return Ok((new_input, output)) } else { return Err(e) }` *)
  Definition stop_or (n i : nat) (log : list crange) (e : mres) : mres :=
    if Nat.ltb 0 n then MOk i n log else e.

  (* the tail of an iteration: code_terminal, push, `if new_input.is_empty() break` *)
  Definition after_code (i j n : nat) (log0 log : list crange) : mstep :=
    match term j with
    | TErr s k => MRet (stop_or n i log0 (MErr s k log))
    | TOk j' => if Nat.eqb j' len then MRet (MOk j' (S n) log) else MNext j' (S n) log
    end.

  (* error branch: cause_range.start := start of the iteration, log, skip to the end of the statement *)
  Definition recover_stmt (i k n : nat) (log0 log : list crange) : mstep :=
    let log1 := log ++ [CR i k true] in
    match skip_eos k with
    | None => MRet (MErr k k log1)
    | Some j => after_code i j n log0 log1
    end.

  (* one iteration of mech_code's loop at cursor i with n statements parsed so far *)
  Definition mech_step (i n : nat) (log : list crange) : mstep :=
    if not_mech i then MRet (stop_or n i log (MErr i i log))
    else match alt i with
         | AOk j lg => after_code i j n log (log ++ lg)
         | AUnexp s k lg => MRet (stop_or n i log (MErr s k (log ++ lg)))
         | AErr s k lg => recover_stmt i k n log (log ++ lg)
         | AFail s k lg =>
             if subtitle_at i then MRet (stop_or n i log (MErr s k (log ++ lg)))
             else recover_stmt i k n log (log ++ lg)
         end.

  Fixpoint mech_loop (fuel i n : nat) (log : list crange) : option mres :=
    match fuel with
    | O => None
    | S f => match mech_step i n log with
             | MRet r => Some r
             | MNext j n' log' => mech_loop f j n' log'
             end
    end.

  (* the loop is run with fuel len + 1 *)
  Definition mech_code (i : nat) (log : list crange) : option mres := mech_loop (S len) i 0 log.

  (* mechdown.rs::section — one iteration *)
  Definition section_step (i : nat) (log : list crange) : sstep :=
    if Nat.leb len i then SRet (SOk i log)
    else match ul_subtitle i with
    | Some _ => SRet (SOk i log)
    | None =>
      if close_at i then SRet (SOk i log)
      else match mika i with
      | Some (j, lg) => SNext j (log ++ lg)
      | None =>
        match mech_code i log with
        | None => SHang
        | Some (MOk j _ log') => SNext j log'
        | Some (MErr _ _ _) =>
            match sect_elem i with
            | EOk j lg => SNext (blank_lines j) (log ++ lg)
            | EErr s k lg => SRet (SErr s k (log ++ lg))
            end
        end
      end
    end.

  Fixpoint section_loop (fuel i : nat) (log : list crange) : option sres :=
    match fuel with
    | O => None
    | S f => match section_step i log with
             | SRet r => Some r
             | SNext j log' => section_loop f j log'
             | SHang => None
             end
    end.

  (* section := opt(ul_subtitle), loop *)
  Definition section (i : nat) (log : list crange) : option sres :=
    section_loop (S len) (match ul_subtitle i with Some j => j | None => i end) log.

  (* mechdown.rs::body — one iteration.  Since fix d162281 the loop is left when the section consumed nothing
     (`if input.cursor == new_input.cursor { break; }`): the rest is then reported by parse() as not parsed. *)
  Definition body_step (i : nat) (log : list crange) : bstep :=
    if Nat.leb len i then BRet (SOk i log)
    else match section i log with
         | None => BHang
         | Some (SOk j log') => if Nat.eqb j i then BRet (SOk i log) else BNext j log'
         | Some (SErr s k log') => BRet (SErr s k log')
         end.

  Fixpoint body_loop (fuel i : nat) (log : list crange) : option sres :=
    match fuel with
    | O => None
    | S f => match body_step i log with
             | BRet r => Some r
             | BNext j log' => body_loop f j log'
             | BHang => None
             end
    end.

  (* the loop as it was before that fix (no progress check): kept only to state what the check repairs *)
  Definition body_step_unguarded (i : nat) (log : list crange) : bstep :=
    if Nat.leb len i then BRet (SOk i log)
    else match section i log with
         | None => BHang
         | Some (SOk j log') => BNext j log'
         | Some (SErr s k log') => BRet (SErr s k log')
         end.

  Fixpoint body_loop_unguarded (fuel i : nat) (log : list crange) : option sres :=
    match fuel with
    | O => None
    | S f => match body_step_unguarded i log with
             | BRet r => Some r
             | BNext j log' => body_loop_unguarded f j log'
             | BHang => None
             end
    end.

  Definition body (i : nat) (log : list crange) : option sres := body_loop (S len) (ws0 i) log.

  (* program := ws0, ?title, body, ws0 *)
  Definition program (i : nat) : option sres :=
    let i1 := ws0 i in
    let '(i2, log) := match title i1 with Some (j, lg) => (j, lg) | None => (i1, []) end in
    match body i2 log with
    | Some (SOk j log') => Some (SOk (ws0 j) log')
    | r => r
    end.

  (* parser.rs::parse: merge the log; an Err adds its cause; leftover input adds one more entry;
     Ok(tree) iff the log is empty *)
  Definition finish (tree : bool) (j : nat) (log : list crange) : outcome :=
    let log' := if Nat.ltb j len then log ++ [CR j j true] else log in
    match log' with
    | [] => if tree then PTree j else PReport []      (* unreachable for tree = false: see parse *)
    | _ => PReport log'
    end.

  Definition parse : outcome :=
    match program 0 with
    | None => PHang
    | Some (SOk j log) => finish true j log
    | Some (SErr s k log) => finish false k (log ++ [CR s k true])
    end.
End Loops.

(* the leaf parsers bundled (so that statements about the loops can quantify over one object) *)
Record leaves : Type := Leaves {
  l_len : nat;
  l_not_mech : nat -> bool; l_alt : nat -> ares; l_subtitle_at : nat -> bool;
  l_skip_eos : nat -> option nat; l_term : nat -> tres;
  l_close_at : nat -> bool; l_ul_subtitle : nat -> option nat; l_mika : nat -> option (nat * list crange);
  l_sect_elem : nat -> eres; l_blank_lines : nat -> nat; l_ws0 : nat -> nat;
  l_title : nat -> option (nat * list crange) }.

Definition L_mech_step (L : leaves) : nat -> nat -> list crange -> mstep :=
  mech_step (l_len L) (l_not_mech L) (l_alt L) (l_subtitle_at L) (l_skip_eos L) (l_term L).
Definition L_mech_code (L : leaves) : nat -> list crange -> option mres :=
  mech_code (l_len L) (l_not_mech L) (l_alt L) (l_subtitle_at L) (l_skip_eos L) (l_term L).
Definition L_section (L : leaves) : nat -> list crange -> option sres :=
  section (l_len L) (l_not_mech L) (l_alt L) (l_subtitle_at L) (l_skip_eos L) (l_term L)
          (l_close_at L) (l_ul_subtitle L) (l_mika L) (l_sect_elem L) (l_blank_lines L).
Definition L_body_loop (L : leaves) : nat -> nat -> list crange -> option sres :=
  body_loop (l_len L) (l_not_mech L) (l_alt L) (l_subtitle_at L) (l_skip_eos L) (l_term L)
            (l_close_at L) (l_ul_subtitle L) (l_mika L) (l_sect_elem L) (l_blank_lines L).
Definition L_body_loop_unguarded (L : leaves) : nat -> nat -> list crange -> option sres :=
  body_loop_unguarded (l_len L) (l_not_mech L) (l_alt L) (l_subtitle_at L) (l_skip_eos L) (l_term L)
            (l_close_at L) (l_ul_subtitle L) (l_mika L) (l_sect_elem L) (l_blank_lines L).
Definition L_parse (L : leaves) : outcome :=
  parse (l_len L) (l_not_mech L) (l_alt L) (l_subtitle_at L) (l_skip_eos L) (l_term L)
        (l_close_at L) (l_ul_subtitle L) (l_mika L) (l_sect_elem L) (l_blank_lines L) (l_ws0 L) (l_title L).

(* ---------- a concrete instance: the source "⸥" (graphemes ["⸥"; "\n"]) ----------
   nothing but the stray close bracket: every leaf fails, mika_section_close succeeds at cursor 0. *)
Definition stray_close_at (i : nat) : bool := Nat.eqb i 0.
Definition stray_leaves : leaves :=
  Leaves 2 stray_close_at (fun i => AUnexp i i []) (fun _ => false) (fun k => Some k) (fun j => TErr j j)
         stray_close_at (fun _ => None) (fun _ => None) (fun i => EErr i i []) (fun j => j) (fun i => i) (fun _ => None).

(* ---------- another concrete instance: "x\n" with x one statement (graphemes ["x"; "\n"; "\n"]) ----------
   mech_code_alt consumes the statement, code_terminal the line end; nothing else matches. *)
Definition tiny_leaves : leaves :=
  Leaves 3 (fun _ => false)
         (fun i => if Nat.eqb i 0 then AOk 1 [] else AUnexp i i [])
         (fun _ => false) (fun k => Some k)
         (fun j => if Nat.eqb j 1 then TOk 3 else if Nat.eqb j 3 then TOk 3 else TErr j j)
         (fun _ => false) (fun _ => None) (fun _ => None) (fun i => EErr i i []) (fun j => j) (fun i => i) (fun _ => None).

(* ====================================================================== *)
(* (C) the judge                                                           *)
(* ====================================================================== *)
Open Scope string_scope.

(* ---- line table of a text, recomputed from its bytes ---- *)
(* A byte-level line: number of bytes, of code points (non-continuation bytes), of zero-width ASCII control bytes,
   and whether every byte is ASCII. *)
Record bline : Type := BL { bl_bytes : Z; bl_cps : Z; bl_ctl : Z; bl_ascii : bool }.
Definition bl0 : bline := BL 0 0 0 true.

Definition byte_cont (n : nat) : bool := andb (Nat.leb 128 n) (Nat.leb n 191).
(* graphemes::width on an ASCII byte: '\t' counts 1, other control characters (0..31, 127) count 0 *)
Definition byte_ctl (n : nat) : bool := andb (orb (Nat.ltb n 32) (Nat.eqb n 127)) (negb (Nat.eqb n 9)).

Definition bl_push (b : bline) (c : ascii) : bline :=
  let n := nat_of_ascii c in
  BL (bl_bytes b + 1) (if byte_cont n then bl_cps b else bl_cps b + 1)
     (if byte_ctl n then bl_ctl b + 1 else bl_ctl b) (andb (bl_ascii b) (Nat.ltb n 128)).

(* split at "\r\n" | "\r" | "\n"; the last (possibly empty) segment is terminated by the appended "\n" *)
Fixpoint text_lines_from (cur : bline) (s : string) : list bline :=
  match s with
  | EmptyString => [cur]
  | String c r =>
      if Nat.eqb (nat_of_ascii c) 10 then cur :: text_lines_from bl0 r
      else if Nat.eqb (nat_of_ascii c) 13 then
        match r with
        | String c2 r2 => if Nat.eqb (nat_of_ascii c2) 10 then cur :: text_lines_from bl0 r2
                          else cur :: text_lines_from bl0 r
        | EmptyString => cur :: text_lines_from bl0 r
        end
      else text_lines_from (bl_push cur c) r
  end.
Definition text_lines (s : string) : list bline := text_lines_from bl0 s.

Definition byte_lenZ (s : string) : Z := Z.of_nat (String.length s).

(* The grapheme view of an ASCII text (UAX #29 on ASCII: every byte is its own grapheme except that CR LF is one):
   used to state that the byte-level line table above is the model's line table (Proofs: ascii_line_table_agrees). *)
Fixpoint gks_of_ascii (s : string) : list gk :=
  match s with
  | EmptyString => []
  | String c r =>
      if Nat.eqb (nat_of_ascii c) 10 then GNl :: gks_of_ascii r
      else if Nat.eqb (nat_of_ascii c) 13 then
        match r with
        | String c2 r2 => if Nat.eqb (nat_of_ascii c2) 10 then GNl :: gks_of_ascii r2 else GNl :: gks_of_ascii r
        | EmptyString => GNl :: gks_of_ascii r
        end
      else GCh (if byte_ctl (nat_of_ascii c) then 0 else 1) :: gks_of_ascii r
  end.
Definition bl_width (b : bline) : Z := (bl_bytes b - bl_ctl b)%Z.

(* the harness's (graphemes, width) of one line against the bytes of that line:
   ASCII line: exactly (bytes, bytes - controls); otherwise width <= graphemes <= code points, and a
   non-empty line has at least one grapheme *)
Definition line_okb (b : bline) (glen w : Z) : bool :=
  if bl_ascii b then (glen =? bl_bytes b)%Z && (w =? bl_bytes b - bl_ctl b)%Z
  else (0 <=? w)%Z && (w <=? glen)%Z && (glen <=? bl_cps b)%Z && (1 <=? glen)%Z.

Fixpoint table_okb (bs : list bline) (lens ws : list Z) : bool :=
  match bs, lens, ws with
  | [], [], [] => true
  | b :: bs', l :: lens', w :: ws' => line_okb b l w && table_okb bs' lens' ws'
  | _, _, _ => false
  end.

(* ---- decoding the observation ---- *)
Inductive ptag : Type := TgOk | TgErr | TgPanic.
(* one record of the guarded hook's log: (site, cursor_before, cursor_after, source_len) *)
Record hrec : Type := HR { h_site : Z; h_a : Z; h_b : Z; h_len : Z }.

Record pobs : Type := PO {
  po_tag : ptag; po_same : bool;
  po_causes : list srange; po_annots : list srange;
  po_nlines : Z; po_lens : list Z; po_widths : list Z;
  po_flags : list string;
  po_hook : list hrec }.          (* empty when the harness is built without the hook: `(hook off)` *)

Inductive robs : Type := RParse (p : pobs) | RHang | RAbort | ROther.

Definition dec_range (x : sx) : option (bool * srange) :=
  match x with
  | Lx [Ax k; Zx a; Zx b; Zx c; Zx d] =>
      if String.eqb k "c" then Some (true, SR a b c d)
      else if String.eqb k "a" then Some (false, SR a b c d) else None
  | _ => None
  end.

Definition dec_tag (s : string) : option ptag :=
  if String.eqb s "ok" then Some TgOk else if String.eqb s "err" then Some TgErr
  else if String.eqb s "panic" then Some TgPanic else None.

Definition dec_hrec (x : sx) : option hrec :=
  match x with
  | Lx [Zx s; Zx a; Zx b; Zx l] => Some (HR s a b l)
  | _ => None
  end.

Definition dec_hook (h : list sx) : option (list hrec) :=
  match h with
  | [Ax "off"] => Some []
  | Zx _ :: es => map_opt dec_hrec es
  | _ => None
  end.

Definition dec_obs (x : sx) : robs :=
  match x with
  | Lx [Ax "hang"] => RHang
  | Lx [Ax "abort"; Zx _] => RAbort            (* the harness process died (signal / abort): reported by the driver *)
  | Lx [Ax "parse"; Ax tg; Zx same; Lx (Ax "ranges" :: rs); Zx n; Lx (Ax "linelens" :: ls);
        Lx (Ax "linewidths" :: ws); Lx (Ax "flags" :: fl); Lx (Ax "info" :: _); Lx (Ax "hook" :: hk)] =>
      match dec_tag tg, map_opt dec_range rs, map_opt sx_Z ls, map_opt sx_Z ws, map_opt sx_word fl, dec_hook hk with
      | Some t, Some rr, Some lens, Some widths, Some flags, Some hook =>
          RParse (PO t (Z.eqb same 1) (map snd (filter (fun p => fst p) rr)) (map snd (filter (fun p => negb (fst p)) rr))
                     n lens widths flags hook)
      | _, _, _, _, _, _ => ROther
      end
  | _ => ROther
  end.

(* replay of the hook log: every record must satisfy the fact the termination proof assumes / proves at its site
   (Proofs/ParseLoopP.v, leaf_ok):
     1 cursor after mech_code_alt or after recovery, 2/3 cursor of a recovered Error/Failure, 4 skip_till_end_of_statement
     inside mech_code, 5 code_terminal, 9/10/11 skip_till_eol / _end_of_statement / _section_element:  a <= b <= len;
     6 one iteration of mech_code's loop, 7 of section's loop, 8 of body's loop:                        a <  b <= len;
     12 code_terminal consumed nothing away from eof: b = 1 iff a mika close bracket is in front. *)
Definition hrec_okb (h : hrec) : bool :=
  let s := h_site h in
  if (s =? 6)%Z || (s =? 7)%Z || (s =? 8)%Z then (0 <=? h_a h)%Z && (h_a h <? h_b h)%Z && (h_b h <=? h_len h)%Z
  else if (s =? 12)%Z then (h_b h =? 1)%Z && (h_a h <? h_len h)%Z
  else if ((1 <=? s)%Z && (s <=? 5)%Z) || ((9 <=? s)%Z && (s <=? 11)%Z)
       then (0 <=? h_a h)%Z && (h_a h <=? h_b h)%Z && (h_b h <=? h_len h)%Z
  else false.

(* ---- known findings still open (classes decided from the text alone) ---- *)
(* exp-nesting: naive nesting depth of ( [ { over the bytes (closers never go below 0) *)
Definition is_open (n : nat) : bool := Nat.eqb n 40 || Nat.eqb n 91 || Nat.eqb n 123.
Definition is_close (n : nat) : bool := Nat.eqb n 41 || Nat.eqb n 93 || Nat.eqb n 125.
Fixpoint nest_from (d m : nat) (s : string) : nat :=
  match s with
  | EmptyString => m
  | String c r =>
      let n := nat_of_ascii c in
      if is_open n then nest_from (S d) (Nat.max m (S d)) r
      else if is_close n then nest_from (Nat.pred d) m r
      else nest_from d m r
  end.
Definition nest_depth (s : string) : nat := nest_from 0 0 s.
Definition nest_threshold : nat := 6.
Definition kf_exp_nesting (text : string) : bool := Nat.leb nest_threshold (nest_depth text).

(* stack-overflow-prefix-run: a run of prefix operators / kind brackets: negate_factor, not_factor and kind_annotation
   recurse once per character; the longest run of bytes among '-' '!' '<' *)
Definition is_prefix_op (n : nat) : bool := Nat.eqb n 45 || Nat.eqb n 33 || Nat.eqb n 60.
Fixpoint run_from (cur m : nat) (s : string) : nat :=
  match s with
  | EmptyString => m
  | String c r => if is_prefix_op (nat_of_ascii c) then run_from (S cur) (Nat.max m (S cur)) r else run_from 0 m r
  end.
Definition max_prefix_run (s : string) : nat := run_from 0 0 s.
Definition run_threshold : nat := 400.
Definition kf_stack_run (text : string) : bool := Nat.leb run_threshold (max_prefix_run text).

(* TextFormatter::format_error's count of errors not shown, since fix 213fdb6: `errors.1.len() - n`, n = min(len, 10) *)
Definition fmt_not_shown (nerr : Z) : Z := (nerr - Z.min nerr 10)%Z.

(* ---- the verdict ---- *)
Definition has_flag (f : string) (fl : list string) : bool := existsb (String.eqb f) fl.

(* SourceRange::default() = 0:0-0:0: what a hand-built ParseError carried before fix 6eb0df4 *)
Definition is_zero (r : srange) : bool :=
  (sr_r1 r =? 0)%Z && (sr_c1 r =? 0)%Z && (sr_r2 r =? 0)%Z && (sr_c2 r =? 0)%Z.
Definition range_okb (ws : list Z) (r : srange) : bool := range_withinb ws r && fmt_safeb r.

(* everything the property fixes about one observation, as a boolean *)
Definition obs_okb (text : string) (p : pobs) : bool :=
  let bs := text_lines text in
  po_same p &&
  (po_nlines p =? Z.of_nat (List.length bs))%Z &&
  table_okb bs (po_lens p) (po_widths p) &&
  forallb (range_okb (po_widths p)) (po_causes p) &&
  forallb (range_okb (po_widths p)) (po_annots p) &&
  forallb hrec_okb (po_hook p) &&
  is_nil (po_flags p) &&
  match po_tag p with
  | TgOk => is_nil (po_causes p) && is_nil (po_annots p)
  | TgErr => negb (is_nil (po_causes p))
  | TgPanic => false
  end.

Definition first_bad (text : string) (p : pobs) : string :=
  let bs := text_lines text in
  match po_tag p with
  | TgPanic => "parser-panicked"
  | _ =>
    if negb (po_same p) then "outcome-differs-between-two-runs"
    else if negb (po_nlines p =? Z.of_nat (List.length bs))%Z then "line-count-disagrees-with-text"
    else if negb (table_okb bs (po_lens p) (po_widths p)) then "line-table-disagrees-with-text"
    else if negb (forallb (range_withinb (po_widths p)) (po_causes p ++ po_annots p)%list) then "range-outside-input"
    else if negb (forallb fmt_safeb (po_causes p ++ po_annots p)%list) then "range-has-zero-coordinate"
    else if negb (forallb hrec_okb (po_hook p)) then "hook-progress-invariant-violated"
    else if has_flag "fmtpanic" (po_flags p) then "format_error-panicked"
    else if has_flag "msgpanic" (po_flags p) then "report-message-panicked"
    else if has_flag "emptyreport" (po_flags p) then "empty-error-report"
    else if has_flag "ioread" (po_flags p) then "parser-issued-read-system-calls"
    else if has_flag "uncovered" (po_flags p) then "tree-does-not-account-for-the-input"
    else if negb (is_nil (po_flags p)) then "unexpected-flag"
    else match po_tag p with
         | TgOk => "tree-with-error-ranges"
         | _ => "error-report-without-cause"
         end
  end.

(* known finding rational-suffix-dropped: letters written directly after a rational literal (`1/2bool`) are accepted by the
   parser and appear in no node of the tree (the harness flags a tree that lacks a word of the text as `uncovered`).  The
   class is decided from the text: a digit, `/`, one or more digits, then a letter. *)
Definition is_dig (c : ascii) : bool := let n := nat_of_ascii c in Nat.leb 48 n && Nat.leb n 57.
Definition is_let (c : ascii) : bool :=
  let n := nat_of_ascii c in (Nat.leb 65 n && Nat.leb n 90) || (Nat.leb 97 n && Nat.leb n 122).
(* st: 0 = nothing, 1 = after a digit, 2 = after digit '/', 3 = after digit '/' digits *)
Fixpoint rat_suffix_from (st : nat) (s : string) : bool :=
  match s with
  | EmptyString => false
  | String c r =>
      match st with
      | 3 => if is_let c then true
             else if is_dig c then rat_suffix_from 3 r
             else rat_suffix_from 0 r
      | 2 => if is_dig c then rat_suffix_from 3 r else rat_suffix_from 0 r
      | 1 => if Ascii.eqb c "/" then rat_suffix_from 2 r
             else if is_dig c then rat_suffix_from 1 r else rat_suffix_from 0 r
      | _ => if is_dig c then rat_suffix_from 1 r else rat_suffix_from 0 r
      end
  end.
Definition kf_rat_suffix (text : string) : bool := rat_suffix_from 0 text.
Definition drop_uncovered (p : pobs) : pobs :=
  PO (po_tag p) (po_same p) (po_causes p) (po_annots p) (po_nlines p) (po_lens p) (po_widths p)
     (filter (fun f => negb (String.eqb f "uncovered")) (po_flags p)) (po_hook p).

Definition judge_parse (text : string) (o : robs) : sx :=
  match o with
  | RHang =>
      if kf_exp_nesting text then v_kf "exp-nesting"
      else v_bad "parser-did-not-return-within-budget" (Ax "ok-or-err")
  | RAbort =>
      if kf_stack_run text then v_kf "stack-overflow-prefix-run"
      else v_bad "process-aborted" (Ax "ok-or-err")
  | ROther => v_bad "unreadable-observation" (Ax "ok-or-err")
  | RParse p =>
      if obs_okb text p then v_ok (match po_tag p with TgOk => "tree" | _ => "report" end)
      else if kf_rat_suffix text && obs_okb text (drop_uncovered p) then v_kf "rational-suffix-dropped"
      else v_bad (first_bad text p) (Ax "ok-or-err-in-range")
  end.

Definition judge_c09 (x : sx) : sx :=
  match x with
  | Lx [Lx [Ax k; Qx text]; o] => if String.eqb k "c09" then judge_parse text (dec_obs o) else v_malformed
  | _ => v_malformed
  end.

Definition run_line (s : string) : string := run_with judge_c09 s.
