(* C16 — function and match arms: the first arm that matches is the one that runs.
   Executable definitions only (proofs: Proofs/FunP.v).

   Anchors: src/interpreter/src/functions.rs (execute_user_function: arity check,
   try_broadcast_user_function, the `loop` that turns a direct self call in arm
   position into an iteration; execute_function_match_arms), patterns.rs
   (pattern_matches_arguments / pattern_matches_value_with_semantics),
   expressions.rs (match_expression, infer_missing_enum_match_patterns,
   match_validate_arm_kinds, validate_match_arm_output_kinds, guard_expression_true).

   ONE evaluator, parametrised by a record of five "quirk" switches.  With every
   switch off it is the SPECIFICATION the property states (first arm in source
   order whose pattern matches and whose guard is true; guards looked at only for
   arms whose pattern matched; no other arm body is evaluated; the wildcard matches
   any argument list; a single-argument scalar function maps over a matrix).  With
   every switch on it is a faithful model of what the code does:
     q_boolpat     match expressions run the matcher in "OptionGuard" mode, in
                   which a non-variable pattern expression that evaluates to a
                   bool IS the outcome - so the literal pattern `true` matches
                   everything and `false` nothing;
     q_multi_wild  pattern_matches_arguments answers false for every non-tuple
                   pattern when the call has more than one argument, `*` included;
     q_bcast       try_broadcast_user_function only maps over a matrix when the
                   declared input and output kinds are equal; otherwise the matrix
                   is bound to the scalar parameter and the call fails;
     q_guard_early match_expression evaluates the guard of EVERY arm it visits,
                   also when the pattern did not match (in the partially filled
                   environment), so an unbound guard variable / arithmetic fault
                   in a guard of a non-matching arm aborts the whole match;
     q_later       after the selected body was evaluated, match_validate_arm_kinds
                   evaluates the bodies of all OTHER applicable non-wildcard arms
                   (and validate_match_arm_output_kinds every body of a wildcard-
                   free exhaustive enum match) to compare kinds: faults in arms
                   that must not run surface as the result of the match.
   The faithful model is used ONLY to recognise known findings (kf).

   Two resources: [fuel] bounds the total work (it is also the iteration counter of
   the tail-call loop), [depth] bounds the nesting of function activations.  A
   direct self call in arm position re-enters the loop at the SAME depth, exactly
   like the `loop` in execute_user_function, so tail recursion of any length runs
   at constant depth. *)
From Coq Require Import List Arith ZArith String Bool.
From MechV Require Import Base.Sexp Base.Obs.
Import ListNotations.
Open Scope string_scope.

(* ------------------------------------------------------------------ values *)
Inductive value : Type :=
| VInt (k : string) (z : Z)                 (* integer of kind k *)
| VBool (b : bool)
| VTuple (l : list value)
| VMat (r c : nat) (l : list value)         (* r x c matrix, column-major elements *)
| VEnum (tag : string) (p : option value).  (* variant of the declared enum *)

Definition env := list (string * value).

Fixpoint lookup (x : string) (e : env) : option value :=
  match e with
  | [] => None
  | (y, v) :: r => if String.eqb x y then Some v else lookup x r
  end.

Fixpoint value_eqb (a b : value) {struct a} : bool :=
  match a, b with
  | VInt k x, VInt k' y => String.eqb k k' && Z.eqb x y
  | VBool x, VBool y => Bool.eqb x y
  | VTuple l, VTuple l' =>
      (fix go (l l' : list value) {struct l} : bool :=
         match l, l' with
         | [], [] => true
         | x :: l1, y :: l2 => value_eqb x y && go l1 l2
         | _, _ => false
         end) l l'
  | VMat r c l, VMat r' c' l' =>
      Nat.eqb r r' && Nat.eqb c c' &&
      (fix go (l l' : list value) {struct l} : bool :=
         match l, l' with
         | [], [] => true
         | x :: l1, y :: l2 => value_eqb x y && go l1 l2
         | _, _ => false
         end) l l'
  | VEnum t p, VEnum t' p' =>
      String.eqb t t' &&
      match p, p' with
      | Some x, Some y => value_eqb x y
      | None, None => true
      | _, _ => false
      end
  | _, _ => false
  end.

(* do two values have the same kind (ValueKind equality: matrices include the shape) *)
Fixpoint same_kind (a b : value) {struct a} : bool :=
  match a, b with
  | VInt k _, VInt k' _ => String.eqb k k'
  | VBool _, VBool _ => true
  | VTuple l, VTuple l' =>
      (fix go (l l' : list value) {struct l} : bool :=
         match l, l' with
         | [], [] => true
         | x :: l1, y :: l2 => same_kind x y && go l1 l2
         | _, _ => false
         end) l l'
  | VMat r c l, VMat r' c' l' =>
      Nat.eqb r r' && Nat.eqb c c' &&
      match l, l' with x :: _, y :: _ => same_kind x y | _, _ => true end
  | VEnum _ _, VEnum _ _ => true
  | _, _ => false
  end.

Local Open Scope Z_scope.
Definition two64 : Z := 18446744073709551616.
Definition two128 : Z := two64 * two64.

Definition kind_range (k : string) : option (Z * Z) :=
  if String.eqb k "u8" then Some (0, 255)
  else if String.eqb k "u16" then Some (0, 65535)
  else if String.eqb k "u32" then Some (0, 4294967295)
  else if String.eqb k "u64" then Some (0, two64 - 1)
  else if String.eqb k "u128" then Some (0, two128 - 1)
  else if String.eqb k "i8" then Some (-128, 127)
  else if String.eqb k "i16" then Some (-32768, 32767)
  else if String.eqb k "i32" then Some (-2147483648, 2147483647)
  else if String.eqb k "i64" then Some (- (two64 / 2), two64 / 2 - 1)
  else if String.eqb k "i128" then Some (- (two128 / 2), two128 / 2 - 1)
  else None.

Definition in_kind (k : string) (z : Z) : bool :=
  match kind_range k with
  | Some (lo, hi) => Z.leb lo z && Z.leb z hi
  | None => false
  end.

Local Close Scope Z_scope.

(* ------------------------------------------------------------------ syntax *)
Inductive pat : Type :=
| PWild                                                  (*  *            *)
| PVar (x : string)                                      (*  x            *)
| PLit (v : value)                                       (*  7<u8>, true  *)
| PTuple (ps : list pat)                                 (*  (p, q)       *)
| PArr (pre : list pat) (sp : option (option pat)) (suf : list pat)
     (* [pre suf] (sp = None: exact length), [pre ... suf] (Some None),
        [pre | b] / [* ... b suf] (Some (Some b): b is bound to the middle) *)
| PEnum (tag : string) (arg : option pat).               (*  :t  /  :t(p) *)

Inductive binop := Add | Sub | Mul | Div | Mod | Lt | Le | Gt | Ge | Eq | Ne | And | Or.

Inductive expr : Type :=
| EVal (v : value)
| EVar (x : string)
| EBin (op : binop) (a b : expr)
| ETuple (es : list expr)
| ECall (f : string) (args : list expr)
| EMatch (src : expr) (arms : list (pat * option expr * expr)).

Definition arm : Type := pat * option expr * expr.

Inductive pkind := KInt (k : string) | KBool | KVec (k : string) | KEnum | KAny.

Record fdef := { fname : string; fparams : list (string * pkind); fout : pkind; farms : list arm }.
(* enum declaration: variant names, with / without payload *)
Record prog := { penum : list (string * bool); pdefs : list fdef }.

Record quirks := { q_boolpat : bool; q_multi_wild : bool; q_bcast : bool; q_guard_early : bool; q_later : bool }.
Definition spec_q : quirks := {| q_boolpat := false; q_multi_wild := false; q_bcast := false; q_guard_early := false; q_later := false |}.
Definition impl_q : quirks := {| q_boolpat := true; q_multi_wild := true; q_bcast := true; q_guard_early := true; q_later := true |}.

(* ------------------------------------------------------------------ results *)
Inductive res (A : Type) : Type :=
| ROk (a : A)
| RErr                 (* the interpreter reports an error: no arm, arity, non-exhaustive, unbound name *)
| RArith               (* integer overflow / division by zero: outside the property (dev profile: a panic) *)
| RKind                (* arms of different kinds (MatchArmKindMismatch): a typing rule, outside the property *)
| RAdv (why : string)  (* ill-kinded program: outside the property *)
| RFuel
| RStack.
Arguments ROk {A} _.
Arguments RErr {A}.
Arguments RArith {A}.
Arguments RKind {A}.
Arguments RAdv {A} _.
Arguments RFuel {A}.
Arguments RStack {A}.

Definition bind {A B} (r : res A) (f : A -> res B) : res B :=
  match r with
  | ROk a => f a
  | RErr => RErr | RArith => RArith | RKind => RKind | RAdv w => RAdv w | RFuel => RFuel | RStack => RStack
  end.

Definition cast {A B} (r : res A) : res B := bind r (fun _ => RErr).

Fixpoint map_res {A B} (f : A -> res B) (l : list A) : res (list B) :=
  match l with
  | [] => ROk []
  | a :: r => bind (f a) (fun b => bind (map_res f r) (fun bs => ROk (b :: bs)))
  end.

(* ------------------------------------------------------------------ operators *)
Local Open Scope Z_scope.
Definition arith (k : string) (z : Z) : res value := if in_kind k z then ROk (VInt k z) else RArith.

Definition binop_eval (op : binop) (a b : value) : res value :=
  match a, b with
  | VInt k x, VInt k' y =>
      if negb (String.eqb k k') then RAdv "mixed-kinds" else
      match op with
      | Add => arith k (x + y)
      | Sub => arith k (x - y)
      | Mul => arith k (x * y)
      | Div => if Z.eqb y 0 then RArith else arith k (Z.quot x y)
      | Mod => if Z.eqb y 0 then RArith else arith k (Z.rem x y)
      | Lt => ROk (VBool (Z.ltb x y))
      | Le => ROk (VBool (Z.leb x y))
      | Gt => ROk (VBool (Z.ltb y x))
      | Ge => ROk (VBool (Z.leb y x))
      | Eq => ROk (VBool (Z.eqb x y))
      | Ne => ROk (VBool (negb (Z.eqb x y)))
      | _ => RAdv "logic-on-int"
      end
  | VBool x, VBool y =>
      match op with
      | And => ROk (VBool (x && y))
      | Or => ROk (VBool (x || y))
      | Eq => ROk (VBool (Bool.eqb x y))
      | Ne => ROk (VBool (negb (Bool.eqb x y)))
      | _ => RAdv "arith-on-bool"
      end
  | _, _ => RAdv "operands"
  end.

Local Close Scope Z_scope.

(* ------------------------------------------------------------------ the pattern matcher
   pm og p v e = (matched?, environment afterwards).  Like the code it threads one
   environment, binds a variable the first time it is met and compares with the
   existing binding afterwards, and leaves the bindings made so far in place when a
   later part fails.  og = "OptionGuard" mode with the bool quirk. *)
Section PmList.
  Context (f : pat -> value -> env -> bool * env).
  (* element-wise matching of a pattern list against a value list (stops at the shorter) *)
  Fixpoint pm_list_with (ps : list pat) (vs : list value) (e : env) {struct ps} : bool * env :=
    match ps, vs with
    | p1 :: ps', v1 :: vs' => let (b, e') := f p1 v1 e in if b then pm_list_with ps' vs' e' else (false, e')
    | _, _ => (true, e)
    end.
End PmList.

Fixpoint pm (og : bool) (p : pat) (v : value) (e : env) {struct p} : bool * env :=
  match p with
  | PWild => (true, e)
  | PVar x =>
      match lookup x e with
      | Some w => (value_eqb w v, e)
      | None => (true, (x, v) :: e)
      end
  | PLit l =>
      match og, l with
      | true, VBool b => (b, e)
      | _, _ => (value_eqb l v, e)
      end
  | PTuple ps =>
      match v with
      | VTuple vs =>
          if Nat.eqb (List.length ps) (List.length vs) then
            (fix pml (ps : list pat) (vs : list value) (e : env) {struct ps} : bool * env :=
               match ps, vs with
               | p1 :: ps', v1 :: vs' => let (b, e') := pm og p1 v1 e in if b then pml ps' vs' e' else (false, e')
               | _, _ => (true, e)
               end) ps vs e
          else (false, e)
      | _ => (false, e)
      end
  | PArr pre sp suf =>
      match v with
      | VMat _ _ l =>
          let n := List.length l in
          let np := List.length pre in
          let ns := List.length suf in
          if Nat.ltb n (np + ns) then (false, e) else
          let pml := (fix pml (ps : list pat) (vs : list value) (e : env) {struct ps} : bool * env :=
               match ps, vs with
               | p1 :: ps', v1 :: vs' => let (b, e') := pm og p1 v1 e in if b then pml ps' vs' e' else (false, e')
               | _, _ => (true, e)
               end) in
          let (b1, e1) := pml pre l e in
          if negb b1 then (false, e1) else
          let (b2, e2) := pml suf (skipn (n - ns) l) e1 in
          if negb b2 then (false, e2) else
          match sp with
          | None => (Nat.eqb n (np + ns), e2)
          | Some None => (true, e2)
          | Some (Some bp) => pm og bp (VMat 1 (n - ns - np) (firstn (n - ns - np) (skipn np l))) e2
          end
      | _ => (false, e)
      end
  | PEnum tag arg =>
      match v with
      | VEnum t payload =>
          if String.eqb t tag then
            match payload, arg with
            | Some pv, Some ap => pm og ap pv e
            | None, None => (true, e)
            | _, _ => (false, e)
            end
          else (false, e)
      | _ => (false, e)
      end
  end.

Definition pm_list (og : bool) : list pat -> list value -> env -> bool * env := pm_list_with (pm og).

(* what the specification calls "pattern p matches value v, binding env" *)
Definition pmatch (p : pat) (v : value) : option env :=
  let (b, e) := pm false p v [] in if b then Some e else None.

(* pattern_matches_arguments: one argument is matched as it is; several are matched
   like a tuple.  mw = q_multi_wild. *)
Definition pm_args (mw : bool) (args : list value) (p : pat) : bool * env :=
  match args with
  | [a] => pm false p a []
  | _ =>
      match p with
      | PTuple ps => if Nat.eqb (List.length ps) (List.length args) then pm_list false ps args [] else (false, [])
      | PWild => (negb mw, [])
      | _ => (false, [])
      end
  end.

(* ------------------------------------------------------------------ arm selection *)
Inductive sel : Type :=
| SelErr (r : res value)              (* a guard that had to be evaluated failed *)
| SelNone
| SelArm (i : nat) (e : env) (body : expr).

(* early = false: the specification - the guard is looked at only when the pattern matched.
   early = true : the code of match_expression - the guard is evaluated first, whatever the pattern said. *)
Fixpoint select_gen (early : bool) (gd : env -> option expr -> res bool) (mt : pat -> bool * env)
         (i : nat) (arms : list arm) {struct arms} : sel :=
  match arms with
  | [] => SelNone
  | (p, g, b) :: rest =>
      let (m, e) := mt p in
      if early then
        match gd e g with
        | ROk pass => if m && pass then SelArm i e b else select_gen early gd mt (S i) rest
        | other => SelErr (cast other)
        end
      else if m then
        match gd e g with
        | ROk true => SelArm i e b
        | ROk false => select_gen early gd mt (S i) rest
        | other => SelErr (cast other)
        end
      else select_gen early gd mt (S i) rest
  end.

Definition select_at := select_gen false.

Definition guard_res (evb : env -> expr -> res value) (e : env) (g : option expr) : res bool :=
  match g with
  | None => ROk true
  | Some ge =>
      match evb e ge with
      | ROk (VBool b) => ROk b
      | ROk _ => RErr                    (* InvalidGuardExpression *)
      | other => cast other
      end
  end.

Definition is_wild (p : pat) : bool := match p with PWild => true | _ => false end.
Definition arm_pat (a : arm) : pat := fst (fst a).
Definition has_wild (arms : list arm) : bool := existsb (fun a => is_wild (arm_pat a)) arms.
Definition arm_tags (arms : list arm) : list string :=
  flat_map (fun a => match arm_pat a with PEnum t _ => [t] | _ => [] end) arms.
Definition mem_str (s : string) (l : list string) : bool := existsb (String.eqb s) l.
(* every variant of the declared enum is named by some arm *)
Definition covers (P : prog) (arms : list arm) : bool :=
  match arm_tags arms with
  | [] => false
  | tags => forallb (fun vd => mem_str (fst vd) tags) (penum P)
  end.
Definition is_enum_value (v : value) : bool := match v with VEnum _ _ => true | _ => false end.

(* match_expression's acceptance test: a wildcard arm, or the source is an enum value
   and the arms name every variant of its enum *)
Definition match_exhaustive (P : prog) (v : value) (arms : list arm) : bool :=
  has_wild arms || (is_enum_value v && covers P arms).

(* the same for a function whose only parameter has the enum kind *)
Definition fn_exhaustive (P : prog) (fd : fdef) : bool :=
  has_wild (farms fd) ||
  match fparams fd with
  | [(_, KEnum)] => covers P (farms fd)
  | _ => true
  end.

(* ------------------------------------------------------------------ match expressions *)
Section Match.
  Context (q : quirks) (P : prog) (evb : env -> expr -> res value).

  Definition pm_m (og : bool) (v : value) (base : env) (p : pat) : bool * env :=
    match p with PWild => (true, base) | _ => pm og p v base end.

  (* match_validate_arm_kinds: every other applicable non-wildcard arm is evaluated too *)
  Fixpoint validate_others (base : env) (v : value) (chosen : nat) (out : value) (j : nat) (arms : list arm)
    : option (res value) :=
    match arms with
    | [] => None
    | (p, g, b) :: rest =>
        if Nat.eqb j chosen || is_wild p then validate_others base v chosen out (S j) rest else
        let (m, e) := pm (q_boolpat q) p v base in
        if negb (q_guard_early q) && negb m then validate_others base v chosen out (S j) rest else
        match guard_res evb e g with
        | ROk pass =>
            if m && pass then
              match evb e b with
              | ROk w => if same_kind w out then validate_others base v chosen out (S j) rest else Some RKind
              | other => Some other
              end
            else validate_others base v chosen out (S j) rest
        | other => Some (cast other)
        end
    end.

  (* validate_match_arm_output_kinds (wildcard-free exhaustive enum match): every body is
     evaluated in the base environment; errors are skipped, panics are not *)
  Fixpoint prevalidate (base : env) (expected : option value) (arms : list arm) : option (res value) :=
    match arms with
    | [] => None
    | (_, _, b) :: rest =>
        match evb base b with
        | ROk w =>
            match expected with
            | None => prevalidate base (Some w) rest
            | Some x => if same_kind x w then prevalidate base expected rest else Some RKind
            end
        | RErr => prevalidate base expected rest
        | RKind => prevalidate base expected rest
        | other => Some other
        end
    end.

  Definition match_main (base : env) (v : value) (arms : list arm) : res value :=
    match select_gen (q_guard_early q) (guard_res evb) (pm_m (q_boolpat q) v base) 0 arms with
    | SelErr r => r
    | SelNone => RErr                                   (* MatchNoArmMatched *)
    | SelArm i e b =>
        match evb e b with
        | ROk out =>
            if q_later q then
              match validate_others base v i out 0 arms with
              | Some r => r
              | None => ROk out
              end
            else ROk out
        | other => other
        end
    end.

  Definition match_step (base : env) (v : value) (arms : list arm) : res value :=
    if negb (match_exhaustive P v arms) then RErr       (* MatchNonExhaustive *)
    else if q_later q && negb (has_wild arms) then
      match prevalidate base None arms with
      | Some r => r
      | None => match_main base v arms
      end
    else match_main base v arms.
End Match.

(* ------------------------------------------------------------------ functions *)
Definition pkind_eqb (a b : pkind) : bool :=
  match a, b with
  | KInt k, KInt k' => String.eqb k k'
  | KBool, KBool => true
  | KVec k, KVec k' => String.eqb k k'
  | KEnum, KEnum => true
  | KAny, KAny => true
  | _, _ => false
  end.

Definition is_scalar_kind (k : pkind) : bool := match k with KInt _ | KBool => true | _ => false end.

Definition conforms (P : prog) (k : pkind) (v : value) : bool :=
  match k, v with
  | KInt k, VInt k' _ => String.eqb k k'
  | KBool, VBool _ => true
  | KVec k, VMat _ _ l => forallb (fun x => match x with VInt k' _ => String.eqb k k' | _ => false end) l
  | KEnum, VEnum t p =>
      existsb (fun vd => String.eqb (fst vd) t && Bool.eqb (snd vd) (match p with Some _ => true | None => false end)) (penum P)
  | KAny, _ => true
  | _, _ => false
  end.

Fixpoint conforms_all (P : prog) (ps : list (string * pkind)) (vs : list value) : bool :=
  match ps, vs with
  | [], [] => true
  | (_, k) :: ps', v :: vs' => conforms P k v && conforms_all P ps' vs'
  | _, _ => false
  end.

(* bind_function_inputs converts, coerce_function_output_kind converts: the model stays
   inside the region where nothing has to be converted *)
Definition coerce (P : prog) (k : pkind) (v : value) : res value :=
  if conforms P k v then ROk v else RAdv "out-kind".

Definition self_tail_call (fd : fdef) (body : expr) : option (list expr) :=
  match body with
  | ECall f a => if String.eqb f (fname fd) && Nat.eqb (List.length a) (List.length (fparams fd)) then Some a else None
  | _ => None
  end.

(* "a single-argument scalar function called with a matrix" *)
Definition broadcast_target (P : prog) (fd : fdef) (args : list value) : option (nat * nat * list value) :=
  match fparams fd, args with
  | [(_, k)], [VMat r c l] =>
      if is_scalar_kind k && forallb (conforms P k) l then Some (r, c, l) else None
  | _, _ => None
  end.

Definition param_kind1 (fd : fdef) : pkind := match fparams fd with [(_, k)] => k | _ => KAny end.

Fixpoint find_fn (ds : list fdef) (f : string) : option fdef :=
  match ds with
  | [] => None
  | d :: r => if String.eqb (fname d) f then Some d else find_fn r f
  end.

Section Eval.
  Context (q : quirks) (P : prog).

  (* ev depth syms env e : the evaluator one unit of fuel below *)
  Definition evaluator := nat -> env -> env -> expr -> res value.

  (* the loop of execute_user_function: n iterations at most, all at the same depth *)
  Fixpoint tail_loop (ev : evaluator) (n : nat) (depth : nat) (fd : fdef) (args : list value) {struct n} : res value :=
    match n with
    | O => RFuel
    | S n' =>
        if negb (conforms_all P (fparams fd) args) then RAdv "arg-kind"
        else if negb (fn_exhaustive P fd) then RErr                      (* FunctionMatchNonExhaustive *)
        else
          let syms := combine (map fst (fparams fd)) args in
          match select_at (guard_res (ev depth syms)) (pm_args (q_multi_wild q) args) 0 (farms fd) with
          | SelErr r => r
          | SelNone => RErr                                               (* FunctionOutputUndefined *)
          | SelArm _ e body =>
              match self_tail_call fd body with
              | Some targs =>
                  match map_res (ev depth syms e) targs with
                  | ROk vs => tail_loop ev n' depth fd vs
                  | other => cast other
                  end
              | None => bind (ev depth syms e body) (coerce P (fout fd))
              end
          end
    end.

  Definition call_fn (ev : evaluator) (n : nat) (depth : nat) (fd : fdef) (args : list value) : res value :=
    if negb (Nat.eqb (List.length args) (List.length (fparams fd))) then RErr   (* IncorrectNumberOfArguments *)
    else
      match broadcast_target P fd args with
      | Some (r, c, els) =>
          if q_bcast q && negb (pkind_eqb (param_kind1 fd) (fout fd)) then RErr  (* FunctionInputTypeMismatch *)
          else bind (map_res (fun x => tail_loop ev n depth fd [x]) els) (fun outs => ROk (VMat r c outs))
      | None => tail_loop ev n depth fd args
      end.

  Definition lookup2 (syms e : env) (x : string) : option value :=
    match lookup x e with Some v => Some v | None => lookup x syms end.

  Fixpoint eval (fuel : nat) (depth : nat) (syms e : env) (x : expr) {struct fuel} : res value :=
    match fuel with
    | O => RFuel
    | S f =>
        match x with
        | EVal v => ROk v
        | EVar y => match lookup2 syms e y with Some v => ROk v | None => RErr end
        | EBin op a b =>
            bind (eval f depth syms e a) (fun va => bind (eval f depth syms e b) (fun vb => binop_eval op va vb))
        | ETuple es => bind (map_res (eval f depth syms e) es) (fun vs => ROk (VTuple vs))
        | ECall fn args =>
            match find_fn (pdefs P) fn with
            | None => RErr                                                  (* MissingFunction *)
            | Some fd =>
                bind (map_res (eval f depth syms e) args) (fun vs =>
                  match depth with
                  | O => RStack
                  | S d => call_fn (eval f) f d fd vs
                  end)
            end
        | EMatch src arms =>
            bind (eval f depth syms e src) (fun v =>
              let base := match src with EVar y => (y, v) :: e | _ => e end in
              match_step q P (eval f depth syms) base v arms)
        end
    end.
End Eval.

(* ------------------------------------------------------------------ the suite *)
Record case := { c_prog : prog; c_globals : env; c_main : expr; c_fuel : nat }.

Definition run (q : quirks) (depth : nat) (c : case) : res value :=
  eval q (c_prog c) (c_fuel c) depth (c_globals c) [] (c_main c).

(* depth up to which the interpreter must not run out of stack (measured: 130
   activations of `n + s(n - 1)` fit in the 8 MiB main-thread stack, dev profile) *)
Definition depth_safe : nat := 64.

(* ---- decoders (fuel = nesting bound of the S-expression) ---- *)
Fixpoint dec_value (n : nat) (x : sx) : option value :=
  match n with
  | O => None
  | S n' =>
      match x with
      | Lx [Ax "i"; Ax k; Zx z] => Some (VInt k z)
      | Lx [Ax "b"; Zx z] => Some (VBool (negb (Z.eqb z 0%Z)))
      | Lx (Ax "t" :: l) => option_map VTuple (map_opt (dec_value n') l)
      | Lx [Ax "m"; Zx r; Zx c; Lx l] =>
          if Z.leb 0%Z r && Z.leb 0%Z c then option_map (VMat (Z.to_nat r) (Z.to_nat c)) (map_opt (dec_value n') l) else None
      | Lx [Ax "e"; Ax t] => Some (VEnum t None)
      | Lx [Ax "e"; Ax t; p] => option_map (fun v => VEnum t (Some v)) (dec_value n' p)
      | _ => None
      end
  end.

Fixpoint dec_pat (n : nat) (x : sx) : option pat :=
  match n with
  | O => None
  | S n' =>
      match x with
      | Ax "_" => Some PWild
      | Lx [Ax "v"; Ax y] => Some (PVar y)
      | Lx [Ax "l"; v] => option_map PLit (dec_value n' v)
      | Lx (Ax "t" :: l) => option_map PTuple (map_opt (dec_pat n') l)
      | Lx [Ax "a"; Lx pre; sp; Lx suf] =>
          match map_opt (dec_pat n') pre, map_opt (dec_pat n') suf with
          | Some pre', Some suf' =>
              match sp with
              | Ax "none" => Some (PArr pre' None suf')
              | Ax "any" => Some (PArr pre' (Some None) suf')
              | Lx [Ax "bind"; b] => option_map (fun b' => PArr pre' (Some (Some b')) suf') (dec_pat n' b)
              | _ => None
              end
          | _, _ => None
          end
      | Lx [Ax "e"; Ax t] => Some (PEnum t None)
      | Lx [Ax "e"; Ax t; p] => option_map (fun p' => PEnum t (Some p')) (dec_pat n' p)
      | _ => None
      end
  end.

Definition dec_op (s : string) : option binop :=
  if String.eqb s "add" then Some Add else if String.eqb s "sub" then Some Sub
  else if String.eqb s "mul" then Some Mul else if String.eqb s "div" then Some Div
  else if String.eqb s "mod" then Some Mod else if String.eqb s "lt" then Some Lt
  else if String.eqb s "le" then Some Le else if String.eqb s "gt" then Some Gt
  else if String.eqb s "ge" then Some Ge else if String.eqb s "eq" then Some Eq
  else if String.eqb s "ne" then Some Ne else if String.eqb s "and" then Some And
  else if String.eqb s "or" then Some Or else None.

Fixpoint dec_expr (n : nat) (x : sx) : option expr :=
  match n with
  | O => None
  | S n' =>
      let dec_arm := fun (a : sx) =>
        match a with
        | Lx [Ax "arm"; p; g; b] =>
            match dec_pat n' p, dec_expr n' b with
            | Some p', Some b' =>
                match g with
                | Ax "-" => Some (p', None, b')
                | _ => option_map (fun g' => (p', Some g', b')) (dec_expr n' g)
                end
            | _, _ => None
            end
        | _ => None
        end in
      match x with
      | Lx [Ax "val"; v] => option_map EVal (dec_value n' v)
      | Lx [Ax "var"; Ax y] => Some (EVar y)
      | Lx [Ax "op"; Ax o; a; b] =>
          match dec_op o, dec_expr n' a, dec_expr n' b with
          | Some o', Some a', Some b' => Some (EBin o' a' b')
          | _, _, _ => None
          end
      | Lx (Ax "tup" :: l) => option_map ETuple (map_opt (dec_expr n') l)
      | Lx (Ax "call" :: Ax f :: l) => option_map (ECall f) (map_opt (dec_expr n') l)
      | Lx (Ax "match" :: s :: arms) =>
          match dec_expr n' s, map_opt dec_arm arms with
          | Some s', Some arms' => Some (EMatch s' arms')
          | _, _ => None
          end
      | _ => None
      end
  end.

Definition dec_arm_top (n : nat) (a : sx) : option arm :=
  match a with
  | Lx [Ax "arm"; p; g; b] =>
      match dec_pat n p, dec_expr n b with
      | Some p', Some b' =>
          match g with
          | Ax "-" => Some (p', None, b')
          | _ => option_map (fun g' => (p', Some g', b')) (dec_expr n g)
          end
      | _, _ => None
      end
  | _ => None
  end.

Definition dec_pkind (x : sx) : option pkind :=
  match x with
  | Lx [Ax "int"; Ax k] => Some (KInt k)
  | Ax "bool" => Some KBool
  | Lx [Ax "vec"; Ax k] => Some (KVec k)
  | Ax "enum" => Some KEnum
  | Ax "any" => Some KAny
  | _ => None
  end.

Definition dec_param (x : sx) : option (string * pkind) :=
  match x with
  | Lx [Ax y; k] => option_map (fun k' => (y, k')) (dec_pkind k)
  | _ => None
  end.

Definition dec_depth : nat := 40.

Definition dec_fdef (x : sx) : option fdef :=
  match x with
  | Lx (Ax "fn" :: Ax f :: Lx ps :: k :: arms) =>
      match map_opt dec_param ps, dec_pkind k, map_opt (dec_arm_top dec_depth) arms with
      | Some ps', Some k', Some arms' => Some {| fname := f; fparams := ps'; fout := k'; farms := arms' |}
      | _, _, _ => None
      end
  | _ => None
  end.

Definition dec_variant (x : sx) : option (string * bool) :=
  match x with
  | Lx [Ax t; Zx z] => Some (t, negb (Z.eqb z 0%Z))
  | _ => None
  end.

Definition dec_global (x : sx) : option (string * value) :=
  match x with
  | Lx [Ax y; v] => option_map (fun v' => (y, v')) (dec_value dec_depth v)
  | _ => None
  end.

Definition max_fuel : Z := 2000000%Z.

Definition dec_case (x : sx) : option case :=
  match x with
  | Lx [Ax "c16"; Lx (Ax "enum" :: vs); Lx (Ax "defs" :: ds); Lx (Ax "globals" :: gs); Lx [Ax "main"; m]; Lx [Ax "fuel"; Zx fu]] =>
      match map_opt dec_variant vs, map_opt dec_fdef ds, map_opt dec_global gs, dec_expr dec_depth m with
      | Some vs', Some ds', Some gs', Some m' =>
          if Z.leb 0%Z fu && Z.leb fu max_fuel
          then Some {| c_prog := {| penum := vs'; pdefs := ds' |}; c_globals := gs'; c_main := m'; c_fuel := Z.to_nat fu |}
          else None
      | _, _, _, _ => None
      end
  | _ => None
  end.

(* ---- observations: canon.rs prints (s k z), (s bool 0/1), (tuple ..), (m k r c (..)),
   (m value r c ((s k z) ..)); both matrix spellings denote the same model value ---- *)
Definition is_int_kind (k : string) : bool := match kind_range k with Some _ => true | None => false end.

Definition dec_obs_elem (k : string) (x : sx) : option value :=
  match x with
  | Zx z => if is_int_kind k then Some (VInt k z) else if String.eqb k "bool" then Some (VBool (negb (Z.eqb z 0%Z))) else None
  | _ => None
  end.

Fixpoint dec_obs_value (n : nat) (x : sx) : option value :=
  match n with
  | O => None
  | S n' =>
      match x with
      | Lx [Ax "s"; Ax k; Zx z] => dec_obs_elem k (Zx z)
      | Lx (Ax "tuple" :: l) => option_map VTuple (map_opt (dec_obs_value n') l)
      | Lx [Ax "m"; Ax k; Zx r; Zx c; Lx l] =>
          if Z.leb 0%Z r && Z.leb 0%Z c then
            option_map (VMat (Z.to_nat r) (Z.to_nat c))
              (if String.eqb k "value" then map_opt (dec_obs_value n') l else map_opt (dec_obs_elem k) l)
          else None
      | _ => None
      end
  end.

Inductive fobs := FVal (v : value) | FErr | FAbort | FOther.

Definition dec_fobs (x : sx) : fobs :=
  match x with
  | Lx (Ax "err" :: _) => FErr
  | Lx (Ax "abort" :: _) => FAbort
  | _ => match dec_obs_value dec_depth x with Some v => FVal v | None => FOther end
  end.

Fixpoint enc_value (v : value) : sx :=
  match v with
  | VInt k z => Lx [Ax "i"; Ax k; Zx z]
  | VBool b => Lx [Ax "b"; Zx (if b then 1%Z else 0%Z)]
  | VTuple l => Lx (Ax "t" :: map enc_value l)
  | VMat r c l => Lx [Ax "m"; Zx (Z.of_nat r); Zx (Z.of_nat c); Lx (map enc_value l)]
  | VEnum t None => Lx [Ax "e"; Ax t]
  | VEnum t (Some p) => Lx [Ax "e"; Ax t; enc_value p]
  end.

Definition enc_res (r : res value) : sx :=
  match r with
  | ROk v => Lx [Ax "value"; enc_value v]
  | RErr => Ax "err"
  | RArith => Ax "arith"
  | RKind => Ax "kind"
  | RAdv w => Lx [Ax "adv"; Ax w]
  | RFuel => Ax "fuel"
  | RStack => Ax "stack"
  end.

(* does the observation equal what result r predicts?  (error kinds are not compared;
   an arithmetic fault is a caught panic in the dev profile, i.e. an error) *)
Definition obs_is (r : res value) (o : fobs) : bool :=
  match r, o with
  | ROk v, FVal w => value_eqb v w
  | RErr, FErr => true
  | RArith, FErr => true
  | RKind, FErr => true
  | _, _ => false
  end.

Definition res_eqb (a b : res value) : bool :=
  match a, b with
  | ROk v, ROk w => value_eqb v w
  | RErr, RErr => true
  | RArith, RArith => true
  | RKind, RKind => true
  | RAdv _, RAdv _ => true
  | RFuel, RFuel => true
  | RStack, RStack => true
  | _, _ => false
  end.

(* the known-finding classes: the first switch that, alone, changes the outcome *)
Definition q_only (n : nat) : quirks :=
  {| q_boolpat := Nat.eqb n 0; q_multi_wild := Nat.eqb n 1; q_bcast := Nat.eqb n 2;
     q_guard_early := Nat.eqb n 3; q_later := Nat.eqb n 4 |}.

Definition kf_name (n : nat) : string :=
  match n with
  | 0 => "match-bool-literal"
  | 1 => "multi-arg-wildcard"
  | 2 => "broadcast-kind-change"
  | 3 => "guard-before-match"
  | _ => "later-arm-evaluated"
  end.

Definition big_depth (c : case) : nat := c_fuel c.

(* all switches on except one *)
Definition q_without (n : nat) : quirks :=
  {| q_boolpat := negb (Nat.eqb n 0); q_multi_wild := negb (Nat.eqb n 1); q_bcast := negb (Nat.eqb n 2);
     q_guard_early := negb (Nat.eqb n 3); q_later := negb (Nat.eqb n 4) |}.

(* the finding a divergence is attributed to: the first switch that alone changes the
   outcome; failing that (two switches needed, e.g. the guard of a non-applicable arm
   evaluated during the kind validation of later arms) the first switch without which
   the outcome is the specified one *)
Definition kf_class (c : case) (s : res value) : option string :=
  let differs := fun n => negb (res_eqb (run (q_only n) (big_depth c) c) s) in
  let cures := fun n => res_eqb (run (q_without n) (big_depth c) c) s in
  if differs 0 then Some (kf_name 0)
  else if differs 1 then Some (kf_name 1)
  else if differs 2 then Some (kf_name 2)
  else if differs 3 then Some (kf_name 3)
  else if differs 4 then Some (kf_name 4)
  else if cures 0 then Some (kf_name 0)
  else if cures 1 then Some (kf_name 1)
  else if cures 2 then Some (kf_name 2)
  else if cures 3 then Some (kf_name 3)
  else if cures 4 then Some (kf_name 4)
  else None.

Definition is_deep (c : case) : bool :=
  match run spec_q depth_safe c with RStack => true | _ => false end.

(* the decision rule, as a function of the specified outcome s and (lazily) the code model's
   outcome, the depth test and the attribution *)
Definition verdict (s : res value) (i : unit -> res value) (deep : unit -> bool)
           (kc : unit -> option string) (o : fobs) : sx :=
  match s with
  | RArith => v_adv "arith"
  | RKind => v_adv "arm-kinds"
  | RAdv w => v_adv w
  | RFuel => v_adv "fuel"
  | RStack => v_adv "fuel"
  | _ =>
      if obs_is s o then
        v_ok (match s with ROk _ => if deep tt then "deep-value" else "value" | _ => "error" end)
      else
        match o with
        | FAbort => if deep tt then v_kf "deep-recursion-abort" else v_bad "abort" (enc_res s)
        | _ =>
            if res_eqb (i tt) s then v_bad "wrong-result" (enc_res s)
            else if obs_is (i tt) o then
              match i tt with
              | RKind => v_adv "arm-kinds"
              | RAdv w => v_adv w
              | _ => match kc tt with
                     | Some id => v_kf id
                     | None => v_bad "unattributed" (enc_res s)
                     end
              end
            else v_bad "wrong-result" (enc_res s)
        end
  end.

Definition judge_case (c : case) (o : fobs) : sx :=
  let s := run spec_q (big_depth c) c in
  verdict s (fun _ => run impl_q (big_depth c) c) (fun _ => is_deep c) (fun _ => kf_class c s) o.

Definition judge_fun (x : sx) : sx :=
  match x with
  | Lx [cx; o] =>
      match dec_case cx with
      | Some c => judge_case c (dec_fobs o)
      | None => v_malformed
      end
  | _ => v_malformed
  end.

Definition run_line (s : string) : string := run_with judge_fun s.
