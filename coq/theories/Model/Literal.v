(* C13 — numeric literals denote the number they spell.  Executable definitions only.

   Anchors: src/syntax/src/literals.rs (the literal grammar as implemented),
   src/interpreter/src/literals.rs (literal nodes -> values),
   src/interpreter/src/stdlib/convert/mod.rs (kind annotations: `value as T`),
   docs/design/specification.mec §3.1/§4.2 (the documented grammar), docs/reference/number.mec §2.

   Layers
   1. spelled digit strings (with underscores) and their value          [dval, ndig, wf_dseq]
   2. literal AST, its spelling [render_lit], its exact value [denote]  (Q)
   3. binary floating-point formats, decoding of bit patterns, and the
      CHECKER [is_nearest]: "q lies within half an ulp of this float, ties
      to even", decided in integer arithmetic on (mantissa, exponent)
   4. what the property demands of a literal [expected] and the check of
      an observation against it [spec_tag]
   5. a faithful model of what the code does [impl_preds], only used to
      recognise the *known* wrong behaviours (kf verdicts)
   6. the judge. *)
From Coq Require Import List ZArith QArith Bool Ascii String.
From MechV Require Import Base.Sexp Base.Obs.
Import ListNotations.
Local Open Scope string_scope.
Local Open Scope Z_scope.

(* ------------------------------------------------------------------ *)
(* 1. digit strings                                                     *)
(* ------------------------------------------------------------------ *)
Definition is_us (c : ascii) : bool := Ascii.eqb c "_"%char.

(* value of a digit character (any base up to 16) *)
Definition digit_of (c : ascii) : option Z :=
  let n := Z.of_nat (nat_of_ascii c) in
  if andb (48 <=? n) (n <=? 57) then Some (n - 48)
  else if andb (97 <=? n) (n <=? 102) then Some (n - 87)
  else if andb (65 <=? n) (n <=? 70) then Some (n - 55)
  else None.

Definition is_digit (b : Z) (c : ascii) : bool :=
  match digit_of c with Some d => d <? b | None => false end.

(* value in base b, most significant digit first; underscores are skipped;
   None if a character is not a digit of the base *)
Fixpoint dval_acc (b : Z) (s : string) (acc : Z) : option Z :=
  match s with
  | EmptyString => Some acc
  | String c r =>
      if is_us c then dval_acc b r acc
      else match digit_of c with
           | Some d => if d <? b then dval_acc b r (acc * b + d) else None
           | None => None
           end
  end.
Definition dval (b : Z) (s : string) : option Z := dval_acc b s 0.

(* number of digits (underscores not counted) *)
Fixpoint ndig (s : string) : Z :=
  match s with
  | EmptyString => 0
  | String c r => if is_us c then ndig r else 1 + ndig r
  end.

Fixpoint strip_us (s : string) : string :=
  match s with
  | EmptyString => EmptyString
  | String c r => if is_us c then strip_us r else String c (strip_us r)
  end.

(* specification §3.1.2:  digit-sequence := digit, *((underscore, digit) | digit) *)
Fixpoint wf_tail (b : Z) (s : string) : bool :=
  match s with
  | EmptyString => true
  | String c r =>
      if is_us c
      then match r with
           | String d r' => andb (is_digit b d) (wf_tail b r')
           | EmptyString => false
           end
      else andb (is_digit b c) (wf_tail b r)
  end.
Definition wf_dseq (b : Z) (s : string) : bool :=
  match s with
  | String c r => andb (is_digit b c) (wf_tail b r)
  | EmptyString => false
  end.
(* +digit of the base, no underscores *)
Fixpoint all_digits (b : Z) (s : string) : bool :=
  match s with
  | EmptyString => true
  | String c r => andb (is_digit b c) (all_digits b r)
  end.
Definition wf_plain (b : Z) (s : string) : bool :=
  match s with EmptyString => false | _ => all_digits b s end.
Fixpoint has_us (s : string) : bool :=
  match s with EmptyString => false | String c r => orb (is_us c) (has_us r) end.

(* ------------------------------------------------------------------ *)
(* 2. literal AST                                                       *)
(* ------------------------------------------------------------------ *)
Inductive body : Type :=
| BInt (w : string)                                   (* 42   1_000 *)
| BFloat (w f : string)                               (* 3.14   .5 (w empty) *)
| BSci (w : string) (f : option string)               (* mantissa: integer or float *)
       (e : string)                                   (* "e" | "E" *)
       (sg : string)                                  (* "" | "+" | "-" | "+-"   (?plus, ?dash) *)
       (ew : string) (ef : option string)             (* exponent: integer or float *)
| BBased (pfx : string) (w : string)                  (* 0d 0x 0o 0b *)
| BRat (n d : string).                                (* 3/4 *)

Inductive ann : Type :=
| ANone
| ASuffix (k : string)      (* 42u8 *)
| AInline (k : string)      (* 42<u8> *)
| ADefine (k : string).     (* x<u8> := 42 *)

Inductive lit : Type :=
| LReal (neg : bool) (b : body) (a : ann)
| LImag (neg : bool) (b : body) (u : string)                               (* 5i  -5j *)
| LCplx (rneg : bool) (re : body) (isg : string) (im : body) (u : string).  (* 3+4i  -2-0.5j *)

(* ---- spelling ---- *)
Definition opt_frac (f : option string) : string :=
  match f with Some x => "." ++ x | None => "" end.

Definition render_body (b : body) : string :=
  match b with
  | BInt w => w
  | BFloat w f => w ++ "." ++ f
  | BSci w f e sg ew ef => w ++ opt_frac f ++ e ++ sg ++ ew ++ opt_frac ef
  | BBased p w => p ++ w
  | BRat n d => n ++ "/" ++ d
  end.

Definition dash (neg : bool) : string := if neg then "-" else "".

Definition render_lit (l : lit) : string :=
  match l with
  | LReal neg b ANone => dash neg ++ render_body b
  | LReal neg b (ASuffix k) => dash neg ++ render_body b ++ k
  | LReal neg b (AInline k) => dash neg ++ render_body b ++ "<" ++ k ++ ">"
  | LReal neg b (ADefine k) => "x<" ++ k ++ "> := " ++ dash neg ++ render_body b
  | LImag neg b u => dash neg ++ render_body b ++ u
  | LCplx rneg re isg im u => dash rneg ++ render_body re ++ isg ++ render_body im ++ u
  end.

(* ---- exact value ---- *)
Definition pow10 (n : Z) : Z := 10 ^ n.
Definition Zpos' (z : Z) : positive := Z.to_pos z.   (* used on positive numbers only *)

Definition base_of_prefix (p : string) : option Z :=
  if String.eqb p "0d" then Some 10
  else if String.eqb p "0x" then Some 16
  else if String.eqb p "0o" then Some 8
  else if String.eqb p "0b" then Some 2
  else None.

(* mantissa w[.f] as (numerator, number of fraction digits) *)
Definition mant_parts (w : string) (f : option string) : option (Z * Z) :=
  match dval 10 w, f with
  | Some a, None => Some (a, 0)
  | Some a, Some fs =>
      match dval 10 fs with
      | Some b => Some (a * pow10 (ndig fs) + b, ndig fs)
      | None => None
      end
  | None, _ => None
  end.

Definition exp_sign (sg : string) : option bool :=     (* true = negative *)
  if String.eqb sg "" then Some false
  else if String.eqb sg "+" then Some false
  else if String.eqb sg "-" then Some true
  else if String.eqb sg "+-" then Some true
  else None.

(* m / 10^k * 10^x as a fraction with positive denominator *)
Definition sci_Q (m k x : Z) : Q :=
  if 0 <=? x - k then Qmake (m * pow10 (x - k)) 1
  else Qmake m (Zpos' (pow10 (k - x))).

(* the non-negative rational a real-literal body spells; None when it has
   none (malformed digits, fractional exponent, zero denominator) *)
Definition body_Q (b : body) : option Q :=
  match b with
  | BInt w => option_map (fun a => Qmake a 1) (dval 10 w)
  | BFloat w f => option_map (fun p => sci_Q (fst p) (snd p) 0) (mant_parts w (Some f))
  | BSci w f e sg ew None =>
      match mant_parts w f, dval 10 ew, exp_sign sg with
      | Some (m, k), Some x, Some s => Some (sci_Q m k (if s then - x else x))
      | _, _, _ => None
      end
  | BSci _ _ _ _ _ (Some _) => None
  | BBased p w =>
      match base_of_prefix p with
      | Some b => option_map (fun a => Qmake a 1) (dval b w)
      | None => None
      end
  | BRat n d =>
      match dval 10 n, dval 10 d with
      | Some a, Some c => if 0 <? c then Some (Qmake a (Zpos' c)) else None
      | _, _ => None
      end
  end.

Definition Qneg_if (s : bool) (q : Q) : Q := if s then Qopp q else q.

(* the rational a real literal (with its sign) denotes *)
Definition denote (neg : bool) (b : body) : option Q := option_map (Qneg_if neg) (body_Q b).

(* integer-valued bodies: decimal integers and based literals *)
Definition body_Z (b : body) : option Z :=
  match b with
  | BInt w => dval 10 w
  | BBased p w => match base_of_prefix p with Some bb => dval bb w | None => None end
  | _ => None
  end.

(* ---- the documented grammar (specification.mec §3.1.2, §4.2; number.mec §2.2 for suffixes) ---- *)
Definition wf_whole_opt (w : string) : bool :=
  match w with EmptyString => true | _ => wf_dseq 10 w end.

Definition wf_mant (w : string) (f : option string) : bool :=
  match f with
  | None => wf_dseq 10 w
  | Some fs => andb (wf_whole_opt w) (wf_dseq 10 fs)
  end.

Inductive gram : Type := GOk | GBasedUnderscore | GNo.

Definition body_gram (b : body) : gram :=
  match b with
  | BInt w => if wf_dseq 10 w then GOk else GNo
  | BFloat w f => if wf_mant w (Some f) then GOk else GNo
  | BSci w f e sg ew ef =>
      if andb (andb (wf_mant w f) (orb (String.eqb e "e") (String.eqb e "E")))
              (andb (match exp_sign sg with Some _ => true | None => false end) (wf_mant ew ef))
      then GOk else GNo
  | BBased p w =>
      match base_of_prefix p with
      | Some bb => if wf_plain bb w then GOk
                   else if andb (has_us w) (wf_dseq bb w) then GBasedUnderscore else GNo
      | None => GNo
      end
  | BRat n d => if andb (wf_dseq 10 n) (wf_dseq 10 d) then GOk else GNo
  end.

(* ------------------------------------------------------------------ *)
(* kinds                                                                *)
(* ------------------------------------------------------------------ *)
(* (signed, bits) *)
Definition int_kind (k : string) : option (bool * Z) :=
  if String.eqb k "u8" then Some (false, 8) else if String.eqb k "u16" then Some (false, 16)
  else if String.eqb k "u32" then Some (false, 32) else if String.eqb k "u64" then Some (false, 64)
  else if String.eqb k "u128" then Some (false, 128)
  else if String.eqb k "i8" then Some (true, 8) else if String.eqb k "i16" then Some (true, 16)
  else if String.eqb k "i32" then Some (true, 32) else if String.eqb k "i64" then Some (true, 64)
  else if String.eqb k "i128" then Some (true, 128)
  else None.

Definition kind_lo (sb : bool * Z) : Z := if fst sb then - 2 ^ (snd sb - 1) else 0.
Definition kind_hi (sb : bool * Z) : Z := if fst sb then 2 ^ (snd sb - 1) - 1 else 2 ^ (snd sb) - 1.
Definition clamp (lo hi n : Z) : Z := Z.max lo (Z.min hi n).
(* two's complement truncation: `as` between integer types *)
Definition wrap (sb : bool * Z) (n : Z) : Z :=
  let m := n mod 2 ^ (snd sb) in
  if andb (fst sb) (2 ^ (snd sb - 1) <=? m) then m - 2 ^ (snd sb) else m.

(* ------------------------------------------------------------------ *)
(* 3. binary floating point: formats, bit patterns, the checker         *)
(* ------------------------------------------------------------------ *)
(* A finite float of the format is  (-1)^s * M * 2^(e - fscale)  with
   0 <= M < 2^fprec, 0 <= e <= femax, and M >= 2^(fprec-1) unless e = 0
   (e = 0 holds the subnormals and the lowest normal binade). *)
Record fmt : Type := Fmt { fprec : Z; femax : Z; fscale : Z; fexpbits : Z }.
Definition f64 : fmt := Fmt 53 2045 1074 11.
Definition f32 : fmt := Fmt 24 253 149 8.

Inductive fval : Type :=
| FFin (s : bool) (M e : Z)
| FInf (s : bool)
| FNan.

Definition canonb (f : fmt) (M e : Z) : bool :=
  andb (andb (0 <=? M) (M <? 2 ^ fprec f))
       (andb (andb (0 <=? e) (e <=? femax f)) (orb (e =? 0) (2 ^ (fprec f - 1) <=? M))).

Definition decode_bits (f : fmt) (b : Z) : option fval :=
  let mbits := fprec f - 1 in
  let width := mbits + fexpbits f + 1 in
  if andb (0 <=? b) (b <? 2 ^ width) then
    let s := 0 <? b / 2 ^ (width - 1) in
    let eb := (b / 2 ^ mbits) mod 2 ^ fexpbits f in
    let m := b mod 2 ^ mbits in
    if eb =? 2 ^ fexpbits f - 1 then (if m =? 0 then Some (FInf s) else Some FNan)
    else if eb =? 0 then Some (FFin s m 0)
    else Some (FFin s (2 ^ mbits + m) (eb - 1))
  else None.

Definition encode_bits (f : fmt) (v : fval) : Z :=
  let mbits := fprec f - 1 in
  let sign (s : bool) := if s then 2 ^ (mbits + fexpbits f) else 0 in
  match v with
  | FFin s M e =>
      if M <? 2 ^ mbits then sign s + M
      else sign s + (e + 1) * 2 ^ mbits + (M - 2 ^ mbits)
  | FInf s => sign s + (2 ^ fexpbits f - 1) * 2 ^ mbits
  | FNan => (2 ^ fexpbits f - 1) * 2 ^ mbits + 2 ^ (mbits - 1)
  end.

(* THE CHECKER, magnitudes: X/Y (X >= 0, Y > 0, in units of 2^-fscale) is
   nearest to M*2^e.  Everything is scaled by 4 so that quarter-ulps are
   integers:  the float is 4*M*u with u = 2^e; half an ulp upwards is 2*u;
   downwards it is 2*u, except at a power of two above the lowest binade
   where the spacing below is halved (1*u).  Ties only to an even M. *)
Definition near (f : fmt) (M e X Y : Z) : bool :=
  let u := 2 ^ e in
  let hl := if andb (M =? 2 ^ (fprec f - 1)) (1 <=? e) then 1 else 2 in
  let up := (4 * M + 2) * u * Y in
  let lo := (4 * M - hl) * u * Y in
  andb (orb (4 * X <? up) (andb (4 * X =? up) (Z.even M)))
       (orb (lo <? 4 * X) (andb (lo =? 4 * X) (Z.even M))).

(* overflow threshold: largest finite + half an ulp = (2^p - 1/2) * 2^emax; reaching it rounds to infinity *)
Definition overflows (f : fmt) (X Y : Z) : bool :=
  (4 * 2 ^ fprec f - 2) * 2 ^ femax f * Y <=? 4 * X.

Definition scaledX (f : fmt) (q : Q) : Z := Z.abs (Qnum q) * 2 ^ fscale f.
Definition scaledY (q : Q) : Z := Zpos (Qden q).

(* the float v (of format f) is a correctly rounded (nearest, ties to even,
   overflow to infinity) image of the rational q *)
Definition is_nearest (f : fmt) (v : fval) (q : Q) : bool :=
  let X := scaledX f q in
  let Y := scaledY q in
  match v with
  | FNan => false
  | FInf s => andb (overflows f X Y) (Bool.eqb s (Qnum q <? 0))
  | FFin s M e =>
      andb (canonb f M e)
           (andb (near f M e X Y) (orb (M =? 0) (Bool.eqb s (Qnum q <? 0))))
  end.

Definition is_nearest_bits (f : fmt) (bits : Z) (q : Q) : bool :=
  match decode_bits f bits with
  | Some v => is_nearest f v q
  | None => false
  end.

(* value of a finite float as a rational *)
Definition fin_Q (f : fmt) (s : bool) (M e : Z) : Q :=
  Qmake ((if s then - M else M) * 2 ^ e) (Zpos' (2 ^ fscale f)).

(* ---- rounding as a function (used by the faithful model only).  The
   candidates are computed with log2/division and then *checked* with
   [is_nearest], so the result is correct by construction; None would mean
   the candidate computation is wrong (never observed). ---- *)
Definition floor_me (f : fmt) (X Y : Z) : Z * Z :=
  let t := X / Y in
  let e := Z.max 0 (Z.log2 t - (fprec f - 1)) in
  (X / (Y * 2 ^ e), e).

Definition succ_me (f : fmt) (me : Z * Z) : Z * Z :=
  let '(M, e) := me in
  if M + 1 =? 2 ^ fprec f then (2 ^ (fprec f - 1), e + 1) else (M + 1, e).

Definition fin_or_inf (f : fmt) (s : bool) (me : Z * Z) : fval :=
  if snd me <=? femax f then FFin s (fst me) (snd me) else FInf s.

Definition round_ne (f : fmt) (q : Q) : option fval :=
  let s := Qnum q <? 0 in
  let c0 := floor_me f (scaledX f q) (scaledY q) in
  let v0 := fin_or_inf f s c0 in
  let v1 := fin_or_inf f s (succ_me f c0) in
  if is_nearest f v0 q then Some v0
  else if is_nearest f v1 q then Some v1
  else None.

(* the two floats around q (round down / round up in magnitude): what a
   faithfully rounding (error < 1 ulp) library function may return *)
Definition faithful_cands (f : fmt) (q : Q) : list fval :=
  let s := Qnum q <? 0 in
  let X := scaledX f q in
  let Y := scaledY q in
  let c0 := floor_me f X Y in
  let v0 := fin_or_inf f s c0 in
  if fst c0 * 2 ^ snd c0 * Y =? X then [v0] else [v0; fin_or_inf f s (succ_me f c0)].

Definition fval_Q (f : fmt) (v : fval) : option Q :=
  match v with FFin s M e => Some (fin_Q f s M e) | _ => None end.

Definition fneg (v : fval) : fval :=
  match v with FFin s M e => FFin (negb s) M e | FInf s => FInf (negb s) | FNan => FNan end.

Definition fsign (v : fval) : bool := match v with FFin s _ _ => s | FInf s => s | FNan => false end.
Definition fis_zero (v : fval) : bool := match v with FFin _ M _ => M =? 0 | _ => false end.

(* IEEE multiplication, round to nearest even *)
Definition fmul (f : fmt) (a b : fval) : option fval :=
  match a, b with
  | FNan, _ | _, FNan => Some FNan
  | FInf s, o | o, FInf s => if fis_zero o then Some FNan else Some (FInf (xorb s (fsign o)))
  | FFin s1 M1 e1, FFin s2 M2 e2 =>
      if orb (M1 =? 0) (M2 =? 0) then Some (FFin (xorb s1 s2) 0 0)
      else round_ne f (Qmult (fin_Q f s1 M1 e1) (fin_Q f s2 M2 e2))
  end.

(* `x as f32` *)
Definition fconv (g : fmt) (f : fmt) (a : fval) : option fval :=
  match a with
  | FFin s M e => if M =? 0 then Some (FFin s 0 0) else round_ne g (fin_Q f s M e)
  | o => Some o
  end.

(* `x as iN/uN` from a float: truncate, saturate, NaN -> 0 *)
Definition fcast_int (f : fmt) (sb : bool * Z) (a : fval) : Z :=
  match a with
  | FNan => 0
  | FInf s => if s then kind_lo sb else kind_hi sb
  | FFin s M e => clamp (kind_lo sb) (kind_hi sb)
                        (Z.quot ((if s then - M else M) * 2 ^ e) (2 ^ fscale f))
  end.

(* ------------------------------------------------------------------ *)
(* 4. what the property demands                                          *)
(* ------------------------------------------------------------------ *)
Inductive expect : Type :=
| XNear (w32 : bool) (k : string) (q : Q)  (* a float of kind k (f32 if w32 else f64), correctly rounded image of q *)
| XInt (k : string) (sb : bool * Z) (n : Z) (* integer kind: n exactly if it fits, else clamped or an error *)
| XRat (n d : Z)                           (* d > 0: the reduced fraction n/d *)
| XErr                                     (* zero denominator: an error *)
| XCplx (re im : Q)
| XAdv (tag : string).                     (* outside the region the property fixes *)

Definition kind_of_ann (a : ann) : option string :=
  match a with ANone => None | ASuffix k | AInline k | ADefine k => Some k end.

Definition is_define (a : ann) : bool := match a with ADefine _ => true | _ => false end.
Definition is_based (b : body) : bool := match b with BBased _ _ => true | _ => false end.
Definition is_int_body (b : body) : bool := match b with BInt _ => true | _ => false end.
Definition is_rat (b : body) : bool := match b with BRat _ _ => true | _ => false end.
Definition frac_exp (b : body) : bool := match b with BSci _ _ _ _ _ (Some _) => true | _ => false end.

Definition i64sb : bool * Z := (true, 64).

Definition fmt_of (w32 : bool) : fmt := if w32 then f32 else f64.
Definition float_kind (k : string) : option bool :=
  if String.eqb k "f64" then Some false else if String.eqb k "f32" then Some true else None.
Definition float_fmt (k : string) : option fmt := option_map fmt_of (float_kind k).

Definition expected_real (neg : bool) (b : body) (a : ann) : expect :=
  match body_gram b with
  | GNo => XAdv "not-in-documented-grammar"
  | GBasedUnderscore => XAdv "based-underscore"
  | GOk =>
      if andb (match a with ASuffix _ => true | _ => false end) (negb (is_int_body b))
      then XAdv "suffix-on-non-integer"
      else if frac_exp b then XAdv "fractional-exponent"
      else
        match b with
        | BRat n d =>
            match a, dval 10 n, dval 10 d with
            | ANone, Some nn, Some dd => if dd =? 0 then XErr else XRat (if neg then - nn else nn) dd
            | ANone, _, _ => XAdv "malformed"
            | _, _, _ => XAdv "annotated-rational"
            end
        | _ =>
            match denote neg b with
            | None => XAdv "malformed"
            | Some q =>
                match kind_of_ann a with
                | None => match body_Z b with
                          | Some n => if is_based b then XInt "i64" i64sb (if neg then - n else n)
                                      else XNear false "f64" q
                          | None => XNear false "f64" q
                          end
                | Some k =>
                    match float_kind k, int_kind k, body_Z b with
                    | Some w32, _, _ => XNear w32 k q
                    | None, Some sb, Some n =>
                        if andb neg (andb (is_based b) (negb (is_define a))) then XAdv "negated-based-annotated"
                        else if andb neg (andb (negb (is_define a)) (andb (negb (fst sb)) (n =? 0)))
                        then XAdv "negated-zero-unsigned"
                        else XInt k sb (if neg then - n else n)
                    | None, Some _, None => XAdv "integer-kind-on-fractional-literal"
                    | None, None, _ => XAdv "cross-family-annotation"
                    end
                end
            end
        end
  end.

Definition part_ok (b : body) : bool :=
  match b, body_gram b with
  | BInt _, GOk | BFloat _ _, GOk => true
  | _, _ => false
  end.

Definition expected (l : lit) : expect :=
  match l with
  | LReal neg b a => expected_real neg b a
  | LImag neg b u =>
      if andb (part_ok b) (orb (String.eqb u "i") (String.eqb u "j")) then
        match denote neg b with Some q => XCplx (Qmake 0 1) q | None => XAdv "malformed" end
      else XAdv "complex-part-form"
  | LCplx rneg re isg im u =>
      if andb (andb (part_ok re) (part_ok im))
              (andb (orb (String.eqb u "i") (String.eqb u "j")) (orb (String.eqb isg "+") (String.eqb isg "-")))
      then match denote rneg re, denote (String.eqb isg "-") im with
           | Some a, Some c => XCplx a c
           | _, _ => XAdv "malformed"
           end
      else XAdv "complex-part-form"
  end.

Definition is_rejected (o : obs) : bool :=
  match o with OErr | OPerr => true | _ => false end.

Definition fits (sb : bool * Z) (n : Z) : bool := andb (kind_lo sb <=? n) (n <=? kind_hi sb).
Definition i64_fits (n : Z) : bool := fits i64sb n.

(* Some tag = the observation satisfies the property for this expectation *)
Definition spec_tag (x : expect) (o : obs) : option string :=
  match x with
  | XNear w32 k q =>
      match o with
      | OVal (KS k' (Zx bits)) =>
          if andb (String.eqb k k') (is_nearest_bits (fmt_of w32) bits q) then Some ("nearest-" ++ k) else None
      | _ => None
      end
  | XInt k sb n =>
      if fits sb n then
        match o with
        | OVal (KS k' (Zx v)) => if andb (String.eqb k k') (v =? n) then Some "int-exact" else None
        | _ => None
        end
      else
        match o with
        | OVal (KS k' (Zx v)) =>
            if andb (String.eqb k k') (v =? clamp (kind_lo sb) (kind_hi sb) n) then Some "clamped" else None
        | _ => if is_rejected o then Some "rejected" else None
        end
  | XRat n d =>
      match o with
      | OVal (KS k' (Lx [Zx a; Zx b])) =>
          if andb (String.eqb k' "r64") (andb (andb (0 <? b) (Z.gcd a b =? 1)) (a * d =? n * b))
          then Some "rational-reduced" else None
      | _ => if andb (is_rejected o) (negb (andb (i64_fits n) (i64_fits d))) then Some "rejected" else None
      end
  | XErr => if is_rejected o then Some "zero-denominator-error" else None
  | XCplx re im =>
      match o with
      | OVal (KS k' (Lx [Zx a; Zx b])) =>
          if andb (String.eqb k' "c64") (andb (is_nearest_bits f64 a re) (is_nearest_bits f64 b im))
          then Some "complex-nearest" else None
      | _ => None
      end
  | XAdv _ => None
  end.

(* ------------------------------------------------------------------ *)
(* 5. faithful model of the code, for the known findings                *)
(* ------------------------------------------------------------------ *)
Inductive pobs : Type :=
| PVal (v : kval)
| PNan (f : fmt) (k : string)   (* any NaN of that kind *)
| PErr          (* an error: (err ..) or a parse error *)
| PNoParse.     (* the text is not read as a number: parse error, or taken as prose *)

Definition pobs_match (p : pobs) (o : obs) : bool :=
  match p, o with
  | PVal v, OVal v' => kval_eqb v v'
  | PNan f k, OVal (KS k' (Zx bits)) =>
      andb (String.eqb k k') (match decode_bits f bits with Some FNan => true | _ => false end)
  | PErr, OErr | PErr, OPerr => true
  | PNoParse, OPerr => true
  | PNoParse, OOther (Lx (Ax t :: _)) => String.eqb t "id"
  | _, _ => false
  end.

Definition opt_list {A} (o : option A) : list A := match o with Some a => [a] | None => [] end.

(* f64 values the code computes for a non-negative decimal body (before negation):
   integer()/float(): str::parse::<f64> (correctly rounded);
   scientific(): parse(mantissa) * 10f64.powf(parse(exponent)), powf faithful *)
Definition impl_f64_abs (b : body) : list fval :=
  match b with
  | BInt _ | BFloat _ _ =>
      match body_Q b with Some q => opt_list (round_ne f64 q) | None => [] end
  | BSci w (Some fs) e sg ew None =>
      match mant_parts w (Some fs), dval 10 ew, exp_sign sg with
      | Some (m, k), Some x, Some s =>
          match round_ne f64 (sci_Q m k 0) with
          | Some mf =>
              flat_map (fun p => opt_list (fmul f64 mf p))
                       (faithful_cands f64 (sci_Q 1 0 (if s then - x else x)))
          | None => []
          end
      | _, _, _ => []
      end
  | _ => []
  end.

Definition fneg_if (s : bool) (v : fval) : fval := if s then fneg v else v.

Definition kfloat (f : fmt) (k : string) (v : fval) : pobs :=
  match v with FNan => PNan f k | _ => PVal (KS k (Zx (encode_bits f v))) end.

Definition signed_suffix (a : ann) : bool :=
  match a with
  | ASuffix k => match int_kind k with Some (true, _) => true | _ => false end
  | _ => false
  end.

Definition impl_preds (l : lit) : list pobs :=
  match l with
  | LReal neg b a =>
      if signed_suffix a then [PNoParse]                          (* 7i8: complex `7i` then text *)
      else
      match b with
      | BSci _ None _ _ _ _ => [PErr; PNoParse]                   (* 1e3: typed integer 1 with kind `e3`; or prose *)
      | BRat n d =>
          match dval 10 n, dval 10 d with                         (* parse::<i64>().unwrap() of both magnitudes *)
          | Some nn, Some dd => if andb (i64_fits nn) (i64_fits dd) then [] else [PErr]
          | _, _ => []
          end
      | BBased p w =>
          match body_Z b, kind_of_ann a with
          | Some n, Some k =>
              match int_kind k with
              | Some sb => if i64_fits n then [PVal (KS k (Zx (wrap sb (if neg then - n else n))))] else [PErr]
              | None => []
              end
          | Some n, None => if i64_fits n then [PVal (KS "i64" (Zx (if neg then - n else n)))] else [PErr]
          | None, _ => [PErr]
          end
      | _ =>
          match kind_of_ann a with
          | None => map (fun v => kfloat f64 "f64" (fneg_if neg v)) (impl_f64_abs b)
          | Some k =>
              match float_kind k, int_kind k with
              | Some false, _ =>                                  (* f64 -> f64: identity *)
                  map (fun v => kfloat f64 k (fneg_if neg v)) (impl_f64_abs b)
              | Some true, _ =>                                   (* `x as f32` *)
                  flat_map (fun v => map (fun w => kfloat f32 k (fneg_if neg w)) (opt_list (fconv f32 f64 v)))
                           (impl_f64_abs b)
              | None, Some sb =>
                  if is_define a
                  then map (fun v => PVal (KS k (Zx (fcast_int f64 sb (fneg_if neg v))))) (impl_f64_abs b)
                  else map (fun v => PVal (KS k (Zx ((if neg then -1 else 1) * fcast_int f64 sb v)))) (impl_f64_abs b)
              | None, None => []
              end
          end
      end
  | LImag neg b u =>
      map (fun v => PVal (KS "c64" (Lx [Zx (encode_bits f64 (FFin neg 0 0)); Zx (encode_bits f64 (fneg_if neg v))])))
          (impl_f64_abs b)
  | LCplx rneg re isg im u =>
      (* the leading dash negates the whole complex number *)
      flat_map (fun r => map (fun i =>
                  PVal (KS "c64" (Lx [Zx (encode_bits f64 (fneg_if rneg r));
                                      Zx (encode_bits f64 (fneg_if (xorb rneg (String.eqb isg "-")) i))])))
                  (impl_f64_abs im))
               (impl_f64_abs re)
  end.

(* names of the known-finding classes (syntactic part; a kf verdict also
   needs the observation to equal a prediction and to fail the property) *)
Definition is_suffix (a : ann) : bool := match a with ASuffix _ => true | _ => false end.

Definition kf_name (l : lit) : option string :=
  match l with
  | LReal neg b a =>
      match b with
      | BSci _ None _ _ _ None => Some "sci-int-mantissa"
      | BSci _ (Some _) _ _ _ None => Some "sci-double-round"
      | BInt _ | BFloat _ _ =>
          match kind_of_ann a with
          | None => None
          | Some k =>
              match int_kind k with
              | Some sb =>
                  if andb (fst sb) (is_suffix a) then Some "signed-suffix"
                  else match body_Z b with
                       | Some n =>
                           if andb neg (andb (negb (is_define a)) (kind_hi sb <? n))
                           then Some "neg-after-typing" else Some "int-via-f64"
                       | None => None
                       end
              | None => if String.eqb k "f32" then Some "f32-via-f64" else None
              end
          end
      | BBased _ _ =>
          match kind_of_ann a with
          | Some _ => Some "based-via-i64"
          | None => if neg then Some "neg-after-typing" else None
          end
      | BRat _ _ => if neg then Some "neg-after-typing" else None
      | _ => None
      end
  | LCplx true _ _ _ _ => Some "neg-complex"
  | _ => None
  end.

(* ------------------------------------------------------------------ *)
(* 6. decoding of the case and the judge                                 *)
(* ------------------------------------------------------------------ *)
Definition dec_str (x : sx) : option string := match x with Qx s => Some s | _ => None end.
Definition dec_ostr (x : sx) : option (option string) :=
  match x with Qx s => Some (Some s) | Lx [] => Some None | _ => None end.
Definition dec_bool (x : sx) : option bool :=
  match x with Zx 0 => Some false | Zx 1 => Some true | _ => None end.

Definition dec_body (x : sx) : option body :=
  match x with
  | Lx (Ax t :: args) =>
      match args with
      | [Qx w] => if String.eqb t "int" then Some (BInt w) else None
      | [Qx a; Qx b] =>
          if String.eqb t "float" then Some (BFloat a b)
          else if String.eqb t "based" then Some (BBased a b)
          else if String.eqb t "rat" then Some (BRat a b)
          else None
      | [Qx w; f; Qx e; Qx sg; Qx ew; ef] =>
          if String.eqb t "sci" then
            match dec_ostr f, dec_ostr ef with
            | Some f', Some ef' => Some (BSci w f' e sg ew ef')
            | _, _ => None
            end
          else None
      | _ => None
      end
  | _ => None
  end.

Definition dec_ann (x : sx) : option ann :=
  match x with
  | Lx [Ax t] => if String.eqb t "none" then Some ANone else None
  | Lx [Ax t; Qx k] =>
      if String.eqb t "suffix" then Some (ASuffix k)
      else if String.eqb t "inline" then Some (AInline k)
      else if String.eqb t "define" then Some (ADefine k)
      else None
  | _ => None
  end.

Definition dec_lit (x : sx) : option lit :=
  match x with
  | Lx [Ax t; n; b; a] =>
      if String.eqb t "real" then
        match dec_bool n, dec_body b, dec_ann a with
        | Some n', Some b', Some a' => Some (LReal n' b' a')
        | _, _, _ => None
        end
      else if String.eqb t "imag" then
        match dec_bool n, dec_body b, a with
        | Some n', Some b', Qx u => Some (LImag n' b' u)
        | _, _, _ => None
        end
      else None
  | Lx [Ax t; n; re; Qx isg; im; Qx u] =>
      if String.eqb t "cplx" then
        match dec_bool n, dec_body re, dec_body im with
        | Some n', Some re', Some im' => Some (LCplx n' re' isg im' u)
        | _, _, _ => None
        end
      else None
  | _ => None
  end.

Definition show_expect (x : expect) : sx :=
  match x with
  | XNear _ k q => Lx [Ax "nearest"; Ax k; Zx (Qnum q); Zx (Zpos (Qden q))]
  | XInt k sb n => Lx [Ax "int"; Ax k; Zx n]
  | XRat n d => Lx [Ax "rat"; Zx n; Zx d]
  | XErr => Ax "err"
  | XCplx re im => Lx [Ax "cplx"; Zx (Qnum re); Zx (Zpos (Qden re)); Zx (Qnum im); Zx (Zpos (Qden im))]
  | XAdv t => Lx [Ax "adv"; Ax t]
  end.

Definition predicted (l : lit) (o : obs) : bool := existsb (fun p => pobs_match p o) (impl_preds l).

Definition kf_try (l : lit) (o : obs) : option string :=
  match kf_name l with
  | Some id => if predicted l o then Some id else None
  | None => None
  end.

(* once a signed suffix is read as a suffix at all (proposed patch C13-literal-syntax), `-128i8` behaves like `-128<i8>` *)
Definition as_inline (l : lit) : lit :=
  match l with
  | LReal neg b (ASuffix k) => if signed_suffix (ASuffix k) then LReal neg b (AInline k) else l
  | _ => l
  end.

Definition judge_lit (l : lit) (o : obs) : sx :=
  match expected l with
  | XAdv t => v_adv t
  | x =>
      match spec_tag x o with
      | Some t => v_ok t
      | None =>
          match kf_try l o with
          | Some id => v_kf id
          | None =>
              match kf_try (as_inline l) o with
              | Some id => v_kf id
              | None => v_bad "not-the-denoted-value" (show_expect x)
              end
          end
      end
  end.

(* case = (c13 "<source text>" <lit>) ; the judge insists that the structured
   literal spells exactly the text that was given to the implementation *)
Definition judge_c13 (x : sx) : sx :=
  match x with
  | Lx [Lx [Ax _; Qx src; l]; o] =>
      match dec_lit l with
      | Some l' => if String.eqb (render_lit l') src then judge_lit l' (decode_obs o) else v_malformed
      | None => v_malformed
      end
  | _ => v_malformed
  end.

Definition run_line (s : string) : string := run_with judge_c13 s.
