(* C06 — what compiling a plan to bytecode and running it computes.
   Interpreter::compile walks the plan; each step's compile (compile_unop!/binop!/... in
   src/core/src/stdlib.rs) allocates a register per cell address, CONST-LOADS the output cell and
   every operand cell with the value the cell holds when compile() is called (i.e. after
   interpretation), and then emits the operation.  Interpreter::run_program executes the const loads
   and REBUILDS the plan from the operation instructions without solving it: the result of a run is
   the constant snapshot of the last operation's output; the operations only matter when the loaded
   program is re-evaluated (step).
   Executable definitions only. *)
From Coq Require Import List Arith Bool ZArith String.
From MechV Require Import Base.Sexp Base.Obs Model.Plan.
Import ListNotations.

Section Bytecode.
  Context {V : Type}.
  Inductive binstr : Type :=
  | CL (r : nat) (v : V)
  | OP (f : list V -> V) (dst : nat) (args : list nat).

  Definition regs := nat -> V.
  (* Interpreter::run_program: a ConstLoad writes the register; an operation instruction looks its
     factory up, builds the function object over the CURRENT register cells and appends it to the fresh
     interpreter's plan — it is NOT solved; the program's result is the (const-loaded) output register of
     the last operation. *)
  Definition exec (st : regs * list (@pstep V)) (i : binstr) : regs * list (@pstep V) :=
    match i with
    | CL r v => (upd (fst st) r v, snd st)
    | OP f d a => (fst st, List.app (snd st) [{| s_out := d; s_args := a; s_fn := f |}])
    end.
  Definition run (is : list binstr) (rs : regs) : regs * list (@pstep V) := fold_left exec is (rs, []).

  (* registers are identified with cells (alloc_register_for_ptr is injective on cell addresses) *)
  Definition compile_step (final : @store V) (st : @pstep V) : list binstr :=
    CL (s_out st) (final (s_out st)) :: map (fun a => CL a (final a)) (s_args st)
    ++ [OP (s_fn st) (s_out st) (s_args st)].
  Definition compile (p : list (@pstep V)) (final : @store V) : list binstr := flat_map (compile_step final) p.

  (* re-evaluating the loaded program (REPL step after load): the rebuilt plan is solved over the registers *)
  Definition restep (is : list binstr) (rs : regs) : regs :=
    let '(rs', plan) := run is rs in resolve plan rs'.

  Definition cells (p : list (@pstep V)) : list nat := flat_map (fun st => s_out st :: s_args st) p.
End Bytecode.

(* ---- the suite ---- *)
Open Scope string_scope.

(* structural check of a real instruction stream: between two operations, every register the
   operation touches (destination and operands) is const-loaded — the model's key assumption *)
Inductive rinstr := RCL (r : nat) | ROP (dst : nat) (args : list nat) | ROther.

Definition decode_rinstr (x : sx) : rinstr :=
  match x with
  | Lx [Ax "cl"; Zx r; _] => RCL (Z.to_nat r)
  | Lx [Ax "nul"; _; Zx d] => ROP (Z.to_nat d) []
  | Lx [Ax "un"; _; Zx d; Zx a] => ROP (Z.to_nat d) [Z.to_nat a]
  | Lx [Ax "bin"; _; Zx d; Zx a; Zx b] => ROP (Z.to_nat d) [Z.to_nat a; Z.to_nat b]
  | Lx [Ax "tern"; _; Zx d; Zx a; Zx b; Zx c] => ROP (Z.to_nat d) [Z.to_nat a; Z.to_nat b; Z.to_nat c]
  | Lx [Ax "quad"; _; Zx d; Zx a; Zx b; Zx c; Zx e] => ROP (Z.to_nat d) [Z.to_nat a; Z.to_nat b; Z.to_nat c; Z.to_nat e]
  | Lx [Ax "var"; _; Zx d; Lx args] => ROP (Z.to_nat d) (map (fun a => match a with Zx z => Z.to_nat z | _ => O end) args)
  | _ => ROther
  end.

Fixpoint loads_before_ops (loaded : list nat) (is : list rinstr) : bool :=
  match is with
  | [] => true
  | RCL r :: rest => loads_before_ops (r :: loaded) rest
  | ROP d args :: rest => andb (forallb (fun a => mem_nat a loaded) (d :: args)) (loads_before_ops [] rest)
  | ROther :: _ => false
  end.

Definition is_err (x : sx) : bool := match x with Lx (Ax "err" :: _) => true | _ => false end.
Definition is_panic (x : sx) : bool := match x with Lx (Ax "panic" :: _) => true | _ => false end.
Definition is_ok (x : sx) : bool := match x with Lx (Ax "ok" :: _) => true | _ => false end.

(* an in-place step: a recognised, non-define step without an `out` field (it writes into an operand cell) *)
Definition plan_has_inplace (p : list rstep) : bool :=
  existsb (fun st => andb (r_structured st) (andb (negb (is_define (r_name st))) (match r_outs st with [] => true | _ => false end))) p.

Definition has_flag (f : string) (flags : list sx) : bool :=
  existsb (fun x => match x with Ax g => String.eqb f g | _ => false end) flags.

Definition err_kind (x : sx) : string := match x with Lx [Ax "err"; Qx k] => k | _ => "" end.

(* "Unknown<Arity>Function": the runtime has no factory registered for a function id the compiler emitted *)
Definition is_unknown_function (k : string) : bool :=
  andb (String.prefix "Unknown" k) (match index 0 "Function" k with Some _ => true | None => false end).

(* case: (bc <must_run 0|1> (flags...) "source")
     flags (set by the generator from the program's syntax): assign  — contains = / op-assign statements
                                                            lastref — the last statement is a bare variable reference
                                                            r64mat  — indexes a matrix of rationals
                                                            table   — table column access ; empty — the empty value `_`
   obs : (bc interp compile load reenc run (instrs ...) (plan ...) "hex") *)
Definition judge_bc (x : sx) : sx :=
  match x with
  | Lx [Lx [Ax "bc"; Zx must_run; Lx flags; _];
        Lx (Ax "bc" :: interp :: comp :: load :: re :: runv :: Lx (Ax "instrs" :: is) :: Lx (Ax "plan" :: plan) :: _ :: restepv)] =>
      let pure := match map_opt decode_rstep plan with Some p => plan_pureb p | None => false end in
      let inplace := match map_opt decode_rstep plan with Some p => plan_has_inplace p | None => false end in
      if orb (is_err interp) (match interp with Lx (Ax "perr" :: _) => true | _ => false end) then v_ok "interpreter-rejects"
      else if is_panic interp then v_bad "interpreter-panicked" (Ax "no-panic")
      else if is_panic comp then
        (if has_flag "table" flags then v_kf "table-column-compile-panic"
         else if has_flag "empty" flags then v_kf "empty-value-compile-panic"
         else v_bad "compile-panic" (Ax "no-panic"))
      else if orb (is_panic load) (is_panic re) then v_bad "panic" (Ax "no-panic")
      else if is_panic runv then
        (if has_flag "r64mat" flags then v_kf "r64-matrix-run-panic" else v_bad "run-panic" (Ax "no-panic"))
      else if is_err comp then (if Z.eqb must_run 1 then v_bad "restricted-program-does-not-compile" (Ax "ok") else v_ok "compile-error")
      else if negb (is_ok load) then v_bad "emitted-bytecode-does-not-load" (Ax "ok")
      else if negb (sx_eqb re (Lx [Ax "same"])) then v_bad "reencode-differs" (Ax "same")
      else if negb (loads_before_ops [] (map decode_rinstr is)) then v_bad "instruction-stream-shape" (Ax "const-load-before-op")
      else if is_err runv then
        (if Z.eqb must_run 1
         then (if is_unknown_function (err_kind runv) then v_kf "run-unknown-function" else v_bad "restricted-program-does-not-run" (Ax "ok"))
         else v_ok "run-error")
      else if sx_eqb runv interp then
        (* the property holds on this case; the tag also records what re-evaluating the loaded program gives
           (outside C06's statement: informative only; C06_restep_correct predicts equality for pure plans) *)
        (match restepv with
         | [Lx [Ax "na"]] => if pure then v_ok "equal-pure-plan" else v_ok "equal"
         | [r] => if sx_eqb r interp then (if pure then v_ok "equal-pure-plan-restep-equal" else v_ok "equal-restep-equal")
                  else if andb pure (negb (has_flag "assign" flags)) then v_ok "equal-but-restep-differs-pure-plan"
                  else v_ok "equal-restep-differs"
         | _ => if pure then v_ok "equal-pure-plan" else v_ok "equal"
         end)
      else
        (* a different value: silently wrong.  The model predicts it for programs whose value is not the
           last plan step's output (the run returns the snapshot of the last operation's output) *)
        (if has_flag "lastref" flags then v_kf "result-is-last-step"
         else if pure then v_bad "different-result-pure-plan" interp else v_bad "different-result" interp)
  (* a case that asked for the re-evaluation of the loaded program (flag restep) and killed the process:
     outside C06's statement (it fixes compile, load and run), recorded as advisory *)
  | Lx [Lx [Ax "bc"; _; Lx flags; _]; Lx (Ax "abort" :: _)] =>
      if has_flag "restep" flags then v_adv "restep-killed-the-process" else v_bad "host-aborted" (Ax "no-abort")
  | Lx [Lx [Ax "bc"; _; Lx flags; _]; Lx [Ax "hang"]] =>
      if has_flag "restep" flags then v_adv "restep-hung" else v_bad "hang" (Ax "no-hang")
  | _ => v_malformed
  end.

Definition run_line (s : string) : string := run_with judge_bc s.
