(* C18 — table joins and row selection.  Executable definitions only.

   Mirrors src/interpreter/src/stdlib/table_ops.rs (build_joined_table: shared-column
   discovery by name, rows_match, merge_rows, lhs_only_row, the rhs_matched flags,
   the trailing pass over unmatched right rows, make_optional_kind) and
   src/interpreter/src/stdlib/access/table.rs (TableAccessScalarF, TableAccessRangeIndex,
   TableAccessRangeBool).

   A table is a list of columns (name, kind text) and a list of rows; a row is the list of
   its cells laid out along the columns.  The cell type is abstract (any type with an
   equality test and an "empty" value); the suite instantiates it with the S-expression the
   harness prints for a cell ((s u64 7), (empty), ...), which is exactly how the
   implementation compares cells (derived PartialEq on Value: same variant, same payload). *)
From Coq Require Import List Arith ZArith String Bool Ascii.
From MechV Require Import Base.Sexp Base.Obs.
Import ListNotations.
Open Scope string_scope.
Open Scope list_scope.

Inductive jmode := Inner | LeftOuter | RightOuter | FullOuter | LeftSemi | LeftAnti.

Definition col := (string * string)%type.          (* column name, kind text *)
Definition names (cs : list col) : list string := map fst cs.
Definition mem_str (n : string) (l : list string) : bool := existsb (String.eqb n) l.

(* make_optional_kind on the printed kind: `T` becomes `T?`, `T?` stays *)
Fixpoint ends_q (s : string) : bool :=
  match s with
  | EmptyString => false
  | String c EmptyString => Ascii.eqb c "?"%char
  | String _ r => ends_q r
  end.
Definition make_optional (k : string) : string := if ends_q k then k else (k ++ "?")%string.

Definition pads_left (m : jmode) : bool := match m with RightOuter | FullOuter => true | _ => false end.
Definition pads_right (m : jmode) : bool := match m with LeftOuter | FullOuter => true | _ => false end.

(* the right table's columns whose name the left table lacks *)
Definition rest_cols (lc rc : list col) : list col :=
  filter (fun c => negb (mem_str (fst c) (names lc))) rc.

Definition opt_col (b : bool) (c : col) : col := if b then (fst c, make_optional (snd c)) else c.

(* output_cols of build_joined_table *)
Definition join_cols (m : jmode) (lc rc : list col) : list col :=
  match m with
  | LeftSemi | LeftAnti => lc
  | _ => map (fun c => opt_col (andb (negb (mem_str (fst c) (names rc))) (pads_left m)) c) lc
         ++ map (opt_col (pads_right m)) (rest_cols lc rc)
  end.

(* names of the columns both tables have, in the left table's order *)
Definition shared (lc rc : list col) : list string :=
  filter (fun n => mem_str n (names rc)) (names lc).

Section Rows.
  Context {V : Type} (veqb : V -> V -> bool) (vempty : V).

  (* the cell of the column named n in a row laid out along cs *)
  Fixpoint lookup (cs : list col) (r : list V) (n : string) : option V :=
    match cs, r with
    | c :: cs', v :: r' => if String.eqb (fst c) n then Some v else lookup cs' r' n
    | _, _ => None
    end.

  Definition opt_eqb (a b : option V) : bool :=
    match a, b with
    | Some x, Some y => veqb x y
    | None, None => true
    | _, _ => false
    end.

  (* rows_match: equal on every commonly named column *)
  Definition agree (lc rc : list col) (a b : list V) : bool :=
    forallb (fun n => opt_eqb (lookup lc a n) (lookup rc b n)) (shared lc rc).

  (* the cells of a right row in the columns the left table lacks *)
  Fixpoint rest (lc rc : list col) (b : list V) : list V :=
    match rc, b with
    | c :: rc', v :: b' => if mem_str (fst c) (names lc) then rest lc rc' b' else v :: rest lc rc' b'
    | _, _ => []
    end.

  (* merge_rows(.., rhs_empty = false) *)
  Definition merge (lc rc : list col) (a b : list V) : list V := a ++ rest lc rc b.
  (* merge_rows(.., rhs_row = 0, rhs_empty = true): unmatched left row *)
  Definition pad_right (lc rc : list col) (a : list V) : list V :=
    a ++ map (fun _ => vempty) (rest_cols lc rc).
  (* the row built for an unmatched right row: shared columns from the right row,
     the other left columns empty, then the right-only cells *)
  Definition pad_left (lc rc : list col) (b : list V) : list V :=
    map (fun c => match lookup rc b (fst c) with Some v => v | None => vempty end) lc
    ++ rest lc rc b.

  Definition is_nil {A} (l : list A) : bool := match l with [] => true | _ => false end.

  (* what one left row contributes, given the right rows it matches (in order) *)
  Definition emit (m : jmode) (lc rc : list col) (a : list V) (ms : list (list V)) : list (list V) :=
    match m with
    | Inner | RightOuter => map (merge lc rc a) ms
    | LeftOuter | FullOuter => if is_nil ms then [pad_right lc rc a] else map (merge lc rc a) ms
    | LeftSemi => if is_nil ms then [] else [a]
    | LeftAnti => if is_nil ms then [a] else []
    end.

  Fixpoint orb_zip (f h : list bool) : list bool :=
    match f, h with
    | x :: f', y :: h' => orb x y :: orb_zip f' h'
    | _, _ => []
    end.

  (* the nested loop: output rows and the rhs_matched flags *)
  Fixpoint join_loop (m : jmode) (lc rc : list col) (l r : list (list V)) (flags : list bool)
    : list (list V) * list bool :=
    match l with
    | [] => ([], flags)
    | a :: l' =>
        let hits := map (agree lc rc a) r in
        let '(out, fl) := join_loop m lc rc l' r (orb_zip flags hits) in
        (emit m lc rc a (filter (agree lc rc a) r) ++ out, fl)
    end.

  Definition unflagged (fl : list bool) (r : list (list V)) : list (list V) :=
    map snd (filter (fun p => negb (fst p)) (combine fl r)).

  (* build_joined_table, rows *)
  Definition join_rows (m : jmode) (lc rc : list col) (l r : list (list V)) : list (list V) :=
    let '(out, fl) := join_loop m lc rc l r (map (fun _ => false) r) in
    out ++ (if pads_left m then map (pad_left lc rc) (unflagged fl r) else []).

  (* ---- the specification: relational algebra in comprehension form ---- *)
  Definition inner_rows (lc rc : list col) (l r : list (list V)) : list (list V) :=
    flat_map (fun a => flat_map (fun b => if agree lc rc a b then [merge lc rc a b] else []) r) l.
  Definition semi_rows (lc rc : list col) (l r : list (list V)) : list (list V) :=
    filter (fun a => existsb (agree lc rc a) r) l.
  Definition anti_rows (lc rc : list col) (l r : list (list V)) : list (list V) :=
    filter (fun a => negb (existsb (agree lc rc a) r)) l.
  Definition unmatched_right (lc rc : list col) (l r : list (list V)) : list (list V) :=
    filter (fun b => negb (existsb (fun a => agree lc rc a b) l)) r.

  Definition spec_rows (m : jmode) (lc rc : list col) (l r : list (list V)) : list (list V) :=
    match m with
    | Inner => inner_rows lc rc l r
    | LeftOuter => inner_rows lc rc l r ++ map (pad_right lc rc) (anti_rows lc rc l r)
    | RightOuter => inner_rows lc rc l r ++ map (pad_left lc rc) (unmatched_right lc rc l r)
    | FullOuter => inner_rows lc rc l r ++ map (pad_right lc rc) (anti_rows lc rc l r)
                   ++ map (pad_left lc rc) (unmatched_right lc rc l r)
    | LeftSemi => semi_rows lc rc l r
    | LeftAnti => anti_rows lc rc l r
    end.

  (* a row laid out along cs, re-laid out along cs' (columns found by name) *)
  Definition realign (cs cs' : list col) (r : list V) : list V :=
    map (fun c => match lookup cs r (fst c) with Some v => v | None => vempty end) cs'.

  (* ---- row selection ---- *)
  (* 1-based row index *)
  Definition sel_ix (rows : list (list V)) (i : Z) : option (list V) :=
    if Z.leb 1 i then nth_error rows (Z.to_nat (i - 1)) else None.
  (* TableAccessRangeIndex: the rows at the given indices, in the order given *)
  Definition sel_vec (rows : list (list V)) (ixs : list Z) : option (list (list V)) :=
    map_opt (sel_ix rows) ixs.
  (* TableAccessRangeBool: the rows whose flag is set, in table order *)
  Definition sel_mask (rows : list (list V)) (mask : list bool) : list (list V) :=
    map fst (filter snd (combine rows mask)).
End Rows.

(* ---- multiset comparison ---- *)
Section Perm.
  Context {A : Type} (eqb : A -> A -> bool).
  Fixpoint remove_first (x : A) (l : list A) : option (list A) :=
    match l with
    | [] => None
    | y :: t => if eqb x y then Some t
                else match remove_first x t with Some t' => Some (y :: t') | None => None end
    end.
  Fixpoint perm_by (l1 l2 : list A) : bool :=
    match l1 with
    | [] => match l2 with [] => true | _ => false end
    | x :: t => match remove_first x l2 with Some l2' => perm_by t l2' | None => false end
    end.
  Fixpoint list_eqb (l1 l2 : list A) : bool :=
    match l1, l2 with
    | [], [] => true
    | x :: a, y :: b => andb (eqb x y) (list_eqb a b)
    | _, _ => false
    end.
  Fixpoint nodup_by (l : list A) : bool :=
    match l with
    | [] => true
    | x :: t => andb (negb (existsb (eqb x) t)) (nodup_by t)
    end.
End Perm.

(* ================= the suite ================= *)
Record table := Tbl { tcols : list col; trows : list (list sx) }.

Definition empty_cell : sx := Lx [Ax "empty"].
Definition col_eqb (a b : col) : bool := andb (String.eqb (fst a) (fst b)) (String.eqb (snd a) (snd b)).

Definition wf_table (t : table) : bool :=
  forallb (fun r => Nat.eqb (List.length r) (List.length (tcols t))) (trows t).

Definition join_table (m : jmode) (L R : table) : table :=
  Tbl (join_cols m (tcols L) (tcols R)) (join_rows sx_eqb empty_cell m (tcols L) (tcols R) (trows L) (trows R)).
Definition spec_table (m : jmode) (L R : table) : table :=
  Tbl (join_cols m (tcols L) (tcols R)) (spec_rows sx_eqb empty_cell m (tcols L) (tcols R) (trows L) (trows R)).

(* ---- decoding ---- *)
Definition decode_col (x : sx) : option col :=
  match x with
  | Lx [n; k] => match sx_str n, sx_str k with Some n', Some k' => Some (n', k') | _, _ => None end
  | _ => None
  end.

(* case side: (tbl ((name kind) ...) ((cell ...) ...)) *)
Definition decode_table (x : sx) : option table :=
  match x with
  | Lx [Ax "tbl"; Lx cs; Lx rs] =>
      match map_opt decode_col cs, map_opt sx_list rs with
      | Some cs', Some rs' => Some (Tbl cs' rs')
      | _, _ => None
      end
  | _ => None
  end.

(* observation side: (table n (name kind (cell ...)) ...), column-wise *)
Definition decode_obs_col (x : sx) : option (col * list sx) :=
  match x with
  | Lx [n; k; Lx cells] =>
      match sx_str n, sx_str k with Some n', Some k' => Some ((n', k'), cells) | _, _ => None end
  | _ => None
  end.

Definition transpose (n : nat) (cols : list (list sx)) : list (list sx) :=
  map (fun i => map (fun c => nth i c empty_cell) cols) (seq 0 n).

Definition decode_obs_table (x : sx) : option table :=
  match x with
  | Lx (Ax "table" :: Zx n :: cols) =>
      match map_opt decode_obs_col cols with
      | Some cs =>
          if andb (Z.leb 0 n) (forallb (fun c => Nat.eqb (List.length (snd c)) (Z.to_nat n)) cs)
          then Some (Tbl (map fst cs) (transpose (Z.to_nat n) (map snd cs)))
          else None
      | None => None
      end
  | _ => None
  end.

(* (record (name cell) ...) *)
Definition decode_obs_record (x : sx) : option (list (string * sx)) :=
  match x with
  | Lx (Ax "record" :: fs) =>
      map_opt (fun f => match f with
                        | Lx [n; v] => match sx_str n with Some n' => Some (n', v) | None => None end
                        | _ => None
                        end) fs
  | _ => None
  end.

Definition decode_mode (x : sx) : option jmode :=
  match x with
  | Ax "inner" => Some Inner
  | Ax "left" => Some LeftOuter
  | Ax "right" => Some RightOuter
  | Ax "full" => Some FullOuter
  | Ax "semi" => Some LeftSemi
  | Ax "anti" => Some LeftAnti
  | _ => None
  end.

Definition is_err (o : sx) : bool :=
  match o with
  | Lx (Ax "err" :: _) => true
  | Lx (Ax "panic" :: _) => true
  | _ => false
  end.

(* ---- the region the property fixes (outside: advisory) ---- *)
Definition nodup_names (cs : list col) : bool := nodup_by String.eqb (names cs).

Definition kind_of (cs : list col) (n : string) : option string :=
  match find (fun c => String.eqb (fst c) n) cs with Some c => Some (snd c) | None => None end.

Definition shared_kinds_agree (lc rc : list col) : bool :=
  forallb (fun n => match kind_of lc n, kind_of rc n with
                    | Some k, Some k' => String.eqb k k'
                    | _, _ => false
                    end) (shared lc rc).

(* f64 cells whose bit pattern is -0 or a NaN: bit equality and float equality differ there *)
Definition odd_float (c : sx) : bool :=
  match c with
  | Lx [Ax "s"; Ax k; Zx z] =>
      if orb (String.eqb k "f64") (String.eqb k "f32") then
        let w := if String.eqb k "f64" then 63%Z else 31%Z in
        let inf := if String.eqb k "f64" then 9218868437227405312%Z else 2139095040%Z in
        orb (Z.eqb z (2 ^ w)) (Z.ltb inf (z mod 2 ^ w))
      else false
  | _ => false
  end.

Definition plain_table (t : table) : bool :=
  andb (forallb (fun c => negb (ends_q (snd c))) (tcols t))
       (forallb (fun r => forallb (fun c => andb (negb (sx_eqb c empty_cell)) (negb (odd_float c))) r) (trows t)).

Definition join_region (L R : table) : option string :=
  if negb (andb (nodup_names (tcols L)) (nodup_names (tcols R))) then Some "duplicate-column-names"
  else if negb (shared_kinds_agree (tcols L) (tcols R)) then Some "shared-column-kinds-differ"
  else if negb (andb (plain_table L) (plain_table R)) then Some "optional-or-odd-float-input"
  else None.

(* ---- comparing an observed table with an expected one: same columns (as a set of
   name/kind pairs), same rows as a multiset once laid out along the expected columns *)
Definition rows_eqb : list sx -> list sx -> bool := sxs_eqb.

Definition same_table_upto (exp obs : table) : bool :=
  andb (andb (nodup_names (tcols obs)) (perm_by col_eqb (tcols exp) (tcols obs)))
       (perm_by rows_eqb (map (realign empty_cell (tcols obs) (tcols exp)) (trows obs)) (trows exp)).

Definition same_table_exact (exp obs : table) : bool :=
  andb (list_eqb col_eqb (tcols exp) (tcols obs)) (list_eqb rows_eqb (trows exp) (trows obs)).

(* rows in the expected order, columns matched by name *)
Definition same_table_ordered (exp obs : table) : bool :=
  andb (andb (nodup_names (tcols obs)) (perm_by col_eqb (tcols exp) (tcols obs)))
       (list_eqb rows_eqb (map (realign empty_cell (tcols obs) (tcols exp)) (trows obs)) (trows exp)).

Definition encode_table (t : table) : sx :=
  Lx [Ax "tbl"; Lx (map (fun c => Lx [Qx (fst c); Qx (snd c)]) (tcols t)); Lx (map Lx (trows t))].

Definition judge_join (m : jmode) (L R : table) (o : sx) : sx :=
  match join_region L R with
  | Some why => v_adv why
  | None =>
      match decode_obs_table o with
      | Some ob =>
          if same_table_upto (spec_table m L R) ob
          then if same_table_exact (join_table m L R) ob then v_ok "join" else v_ok "join-reordered"
          else v_bad "wrong-join" (encode_table (spec_table m L R))
      | None => v_bad "expected-table" (encode_table (spec_table m L R))
      end
  end.

(* ---- row selection ---- *)
Inductive selector :=
| SIx (i : Z)
| SVec (ixs : list Z)
| SMask (mask : list bool).

Definition decode_bool (x : sx) : option bool :=
  match x with Zx 0 => Some false | Zx 1 => Some true | _ => None end.

Definition decode_selector (how arg : sx) : option selector :=
  match how, arg with
  | Ax "ix", Zx i => Some (SIx i)
  | Ax "vec", Lx l => option_map SVec (map_opt sx_Z l)
  | Ax "mask", Lx l => option_map SMask (map_opt decode_bool l)
  | _, _ => None
  end.

Definition in_range (t : table) (i : Z) : bool :=
  andb (Z.leb 1 i) (Z.leb i (Z.of_nat (List.length (trows t)))).

(* what the property asks for; SNone = the property fixes nothing (index out of range,
   mask whose length is not the row count) *)
Inductive sel_result :=
| SRow (r : list sx)
| SRows (rs : list (list sx))
| SNone.

Definition spec_select (rows : list (list sx)) (s : selector) : sel_result :=
  match s with
  | SIx i => match sel_ix rows i with Some r => SRow r | None => SNone end
  | SVec ixs => match sel_vec rows ixs with Some rs => SRows rs | None => SNone end
  | SMask mask => if Nat.eqb (List.length mask) (List.length rows) then SRows (sel_mask rows mask) else SNone
  end.

(* known finding sel-singleton.  The interpreter dispatches a bracket subscript on the SHAPE of
   the index value (expressions.rs, Subscript::Bracket): shape [1,1] goes to AccessScalar ->
   TableAccessScalar, which accepts only Value::Index and answers every 1x1 index MATRIX
   (MatrixIndex / MatrixBool) with an error; a one-element range arrives at TableAccessRange as a
   non-DVector matrix and is rejected as well.  SNone here = error. *)
Definition kf_sel_singleton (s : selector) : bool :=
  match s with
  | SVec [_] => true
  | SMask [_] => true
  | _ => false
  end.

Definition impl_select (rows : list (list sx)) (s : selector) : sel_result :=
  if kf_sel_singleton s then SNone else spec_select rows s.

Definition record_matches (cs : list col) (r : list sx) (fs : list (string * sx)) : bool :=
  andb (andb (nodup_by String.eqb (map fst fs)) (perm_by String.eqb (names cs) (map fst fs)))
       (list_eqb sx_eqb
          (map (fun c => match find (fun f => String.eqb (fst f) (fst c)) fs with
                         | Some f => snd f | None => empty_cell end) cs) r).

Definition judge_sel (t : table) (s : selector) (o : sx) : sx :=
  if negb (nodup_names (tcols t)) then v_adv "duplicate-column-names" else
  match spec_select (trows t) s with
  | SNone => v_adv (match s with SMask _ => "mask-length" | _ => "index-out-of-range" end)
  | SRow r =>
      match decode_obs_record o with
      | Some fs => if record_matches (tcols t) r fs then v_ok "row" else v_bad "wrong-row" (Lx r)
      | None => v_bad "expected-record" (Lx r)
      end
  | SRows rs =>
      let e := Tbl (tcols t) rs in
      match decode_obs_table o with
      | Some ob => if same_table_ordered e ob
                   then v_ok (match s with SMask _ => "filtered" | _ => "rows" end)
                   else v_bad "wrong-rows" (encode_table e)
      | None =>
          match impl_select (trows t) s with
          | SNone => if is_err o then v_kf "sel-singleton" else v_bad "expected-table" (encode_table e)
          | _ => v_bad "expected-table" (encode_table e)
          end
      end
  end.

(* case = (join <mode> <tblL> <tblR>) | (sel <how> <tbl> <arg>);  line = (<case> <observation>) *)
Inductive c18case :=
| CJoin (m : jmode) (L R : table) (o : sx)
| CSel (T : table) (s : selector) (o : sx).

Definition decode_case (x : sx) : option c18case :=
  match x with
  | Lx [Lx [Ax "join"; m; l; r]; o] =>
      match decode_mode m, decode_table l, decode_table r with
      | Some m', Some L, Some R => if andb (wf_table L) (wf_table R) then Some (CJoin m' L R o) else None
      | _, _, _ => None
      end
  | Lx [Lx [Ax "sel"; how; t; arg]; o] =>
      match decode_table t, decode_selector how arg with
      | Some T, Some s => if wf_table T then Some (CSel T s o) else None
      | _, _ => None
      end
  | _ => None
  end.

Definition judge_case (c : c18case) : sx :=
  match c with
  | CJoin m L R o => judge_join m L R o
  | CSel T s o => judge_sel T s o
  end.

Definition judge_c18 (x : sx) : sx :=
  match decode_case x with
  | Some c => judge_case c
  | None => v_malformed
  end.

Definition run_line (s : string) : string := run_with judge_c18 s.
