(* C20 — source includes ({path.mec} lines) of .mec files.  Executable definitions only.
   Mirrors /repo/src/mechfs.rs: read_mech_source_file -> expand_mechdown_includes ->
   expand_mechdown_includes_recursive / expand_mechdown_include_tokens, and the helpers
   looks_like_mech_include, code_fence_delimiter, is_code_fence_close, standalone_braced_content.

   Texts are byte lists (list ascii).  Whitespace is the ASCII part of Rust's char::is_whitespace
   (U+0009..U+000D, U+0020); the judge only binds on 7-bit file contents.
   A file system is a finite association list from canonical paths (lists of components below a
   root) to contents; directories are the proper prefixes of file paths. *)
From Coq Require Import List Arith Ascii String Bool.
From MechV Require Import Base.Sexp Base.Obs.
Import ListNotations.
Local Open Scope list_scope.

Definition bytes := list ascii.
Definition path := list bytes.
Definition fsys := list (path * bytes).

(* ---------- equality tests ---------- *)
Fixpoint list_eqb {A} (e : A -> A -> bool) (a b : list A) : bool :=
  match a, b with
  | [], [] => true
  | x :: a', y :: b' => andb (e x y) (list_eqb e a' b')
  | _, _ => false
  end.
Definition bytes_eqb : bytes -> bytes -> bool := list_eqb Ascii.eqb.
Definition path_eqb : path -> path -> bool := list_eqb bytes_eqb.

(* ---------- characters ---------- *)
Definition c_nl : ascii := "010"%char.
Definition c_cr : ascii := "013"%char.
Definition c_tab : ascii := "009"%char.
Definition c_sp : ascii := " "%char.
Definition c_lbrace : ascii := "{"%char.
Definition c_rbrace : ascii := "}"%char.
Definition c_slash : ascii := "/"%char.
Definition c_dot : ascii := "."%char.
Definition c_tick : ascii := "`"%char.
Definition c_tilde : ascii := "~"%char.
Definition dot_mec : bytes := ["."; "m"; "e"; "c"]%char.

(* str::trim: ASCII White_Space = TAB LF VT FF CR SPACE *)
Definition is_ws (c : ascii) : bool :=
  let n := nat_of_ascii c in orb (andb (Nat.leb 9 n) (Nat.leb n 13)) (Nat.eqb n 32).

Fixpoint trim_start (s : bytes) : bytes :=
  match s with
  | c :: r => if is_ws c then trim_start r else s
  | [] => []
  end.
Definition trim_end (s : bytes) : bytes := rev (trim_start (rev s)).
Definition trim (s : bytes) : bytes := trim_end (trim_start s).

Fixpoint starts_with (pre s : bytes) : bool :=
  match pre, s with
  | [], _ => true
  | x :: p', y :: s' => andb (Ascii.eqb x y) (starts_with p' s')
  | _ :: _, [] => false
  end.
Definition ends_with (suf s : bytes) : bool := starts_with (rev suf) (rev s).

(* ---------- file system ---------- *)
Fixpoint lookup (f : fsys) (p : path) : option bytes :=
  match f with
  | [] => None
  | (q, c) :: r => if path_eqb q p then Some c else lookup r p
  end.

Definition mem_path (p : path) (l : list path) : bool := existsb (path_eqb p) l.

Fixpoint is_prefix (p q : path) : bool :=
  match p, q with
  | [], _ => true
  | x :: p', y :: q' => andb (bytes_eqb x y) (is_prefix p' q')
  | _ :: _, [] => false
  end.

(* a proper prefix of a file path is a directory; the root always is *)
Definition is_dir (f : fsys) (p : path) : bool :=
  match p with
  | [] => true
  | _ => existsb (fun e => andb (is_prefix p (fst e)) (Nat.ltb (List.length p) (List.length (fst e)))) f
  end.

(* str::split_inclusive('\n') *)
Fixpoint split_inclusive (s : bytes) : list bytes :=
  match s with
  | [] => []
  | c :: r =>
      if Ascii.eqb c c_nl then [c] :: split_inclusive r
      else match split_inclusive r with
           | [] => [[c]]
           | l :: ls => (c :: l) :: ls
           end
  end.

(* split on a separator (like Path components before normalisation); never empty *)
Fixpoint split_on (sep : ascii) (s : bytes) : list bytes :=
  match s with
  | [] => [[]]
  | c :: r =>
      if Ascii.eqb c sep then [] :: split_on sep r
      else match split_on sep r with
           | [] => [[c]]
           | h :: t => (c :: h) :: t
           end
  end.

(* Path::canonicalize of parent.join(raw) on this file system: every intermediate
   prefix must be an existing directory ("x/../y" needs x), "." and empty components
   are skipped, ".." pops (the root is its own parent), the result must be a file. *)
Fixpoint walk (f : fsys) (cur : path) (comps : list bytes) : option path :=
  match comps with
  | [] => Some cur
  | c :: r =>
      if is_dir f cur then
        if orb (bytes_eqb c []) (bytes_eqb c [c_dot]) then walk f cur r
        else if bytes_eqb c [c_dot; c_dot] then walk f (removelast cur) r
        else walk f (cur ++ [c]) r
      else None
  end.

Definition resolve (f : fsys) (dir : path) (raw : bytes) : option path :=
  let start := match raw with
               | c :: _ => if Ascii.eqb c c_slash then [] else dir
               | [] => dir
               end in
  match walk f start (split_on c_slash raw) with
  | Some p => match lookup f p with Some _ => Some p | None => None end
  | None => None
  end.

(* ---------- the transcribed helpers ---------- *)

(* line.strip_suffix('\n'): (line without newline, newline) *)
Definition strip_nl (l : bytes) : bytes * bytes :=
  match rev l with
  | c :: r => if Ascii.eqb c c_nl then (rev r, [c_nl]) else (l, [])
  | [] => (l, [])
  end.

(* standalone_braced_content *)
Definition standalone_braced_content (l : bytes) : option bytes :=
  let t := trim l in
  match t with
  | c :: r => if andb (Ascii.eqb c c_lbrace) (ends_with [c_rbrace] t) then Some (removelast r) else None
  | [] => None
  end.

(* looks_like_mech_include *)
Definition looks_like_mech_include (inner : bytes) : bool := ends_with dot_mec (trim inner).

(* the include target named by a line, if the line is a stand-alone {...mec} *)
Definition include_of_line (l : bytes) : option bytes :=
  match standalone_braced_content (fst (strip_nl l)) with
  | Some inner => if looks_like_mech_include inner then Some (trim inner) else None
  | None => None
  end.

(* code_fence_delimiter: up to 3 leading spaces, then a run of >= 3 backticks or tildes;
   returns (marker, run length, rest of the line after the run) *)
Fixpoint strip_spaces (n : nat) (s : bytes) : nat * bytes :=
  match n, s with
  | S n', c :: r => if Ascii.eqb c c_sp then let '(k, t) := strip_spaces n' r in (S k, t) else (0, s)
  | _, _ => (0, s)
  end.

Fixpoint run_of (m : ascii) (s : bytes) : nat * bytes :=
  match s with
  | c :: r => if Ascii.eqb c m then let '(k, t) := run_of m r in (S k, t) else (0, s)
  | [] => (0, [])
  end.

Definition code_fence_delimiter (line : bytes) : option (ascii * nat * bytes) :=
  let '(i, rest) := strip_spaces 4 line in
  if Nat.ltb 3 i then None
  else match rest with
       | [] => None
       | m :: _ =>
           if orb (Ascii.eqb m c_tick) (Ascii.eqb m c_tilde) then
             let '(count, after) := run_of m rest in
             if Nat.ltb count 3 then None else Some (m, count, after)
           else None
       end.

Definition is_close_ws (c : ascii) : bool :=
  orb (orb (Ascii.eqb c c_sp) (Ascii.eqb c c_tab)) (orb (Ascii.eqb c c_cr) (Ascii.eqb c c_nl)).

Definition is_code_fence_close (line : bytes) (marker : ascii) (min_len : nat) : bool :=
  match code_fence_delimiter line with
  | None => false
  | Some (m, count, after) =>
      if orb (negb (Ascii.eqb m marker)) (Nat.ltb count min_len) then false
      else forallb is_close_ws after
  end.

(* ---------- expansion ---------- *)
Inductive res : Type :=
| Ok (t : bytes)
| ErrCircular
| ErrMissing (name : bytes)
| OutOfFuel.

Definition prepend (l : bytes) (r : res) : res :=
  match r with Ok t => Ok (l ++ t) | e => e end.

Definition bind (r : res) (k : bytes -> res) : res :=
  match r with Ok t => k t | e => e end.

(* one line outside fences (the body of the loop of expand_mechdown_include_tokens) *)
Definition token_line (f : fsys) (rec : path -> res) (dir : path) (l : bytes) : res :=
  match include_of_line l with
  | Some raw =>
      match resolve f dir raw with
      | None => ErrMissing raw
      | Some q => bind (rec q) (fun t => Ok (t ++ snd (strip_nl l)))
      end
  | None => Ok l
  end.

Definition fence := option (ascii * nat).

Definition next_fence (fc : fence) (l : bytes) : fence :=
  match fc with
  | Some (m, n) => if is_code_fence_close l m n then None else fc
  | None => match code_fence_delimiter l with
            | Some (m, n, _) => Some (m, n)
            | None => None
            end
  end.

(* is the line copied verbatim because of fence tracking? (inside a fence, or opening one) *)
Definition fenced (fc : fence) (l : bytes) : bool :=
  match fc with
  | Some _ => true
  | None => match code_fence_delimiter l with Some _ => true | None => false end
  end.

(* the loop of expand_mechdown_includes_recursive, line by line (direct style) *)
Fixpoint process (f : fsys) (rec : path -> res) (dir : path) (lines : list bytes) (fc : fence) : res :=
  match lines with
  | [] => Ok []
  | l :: r =>
      if fenced fc l then prepend l (process f rec dir r (next_fence fc l))
      else bind (token_line f rec dir l) (fun t => prepend t (process f rec dir r None))
  end.

Fixpoint join_path (p : path) : bytes :=
  match p with
  | [] => []
  | [c] => c
  | c :: r => c ++ c_slash :: join_path r
  end.

(* expand_mechdown_includes_recursive.  The HashSet active_set is a list here: the path is pushed
   before the file's lines are processed and dropped on return (insert / remove of a path that
   was not in the set). *)
Fixpoint expand (fuel : nat) (f : fsys) (p : path) (active : list path) : res :=
  match fuel with
  | O => OutOfFuel
  | S n =>
      match lookup f p with
      | None => ErrMissing (join_path p)
      | Some src =>
          if mem_path p active then ErrCircular
          else process f (fun q => expand n f q (p :: active)) (removelast p) (split_inclusive src) None
      end
  end.

(* expand_mechdown_includes: empty active set; |files| + 1 units of fuel always suffice (IncludeP.expand_fuel) *)
Definition expand_root (f : fsys) (root : path) : res := expand (S (List.length f)) f root [].

(* ---- the same loop with the outside-fence buffer of the Rust code (flushes at a fence opener and at
   the end of the file through expand_mechdown_include_tokens, which re-splits the buffer) ---- *)
Fixpoint tokens (f : fsys) (rec : path -> res) (dir : path) (lines : list bytes) : res :=
  match lines with
  | [] => Ok []
  | l :: r => bind (token_line f rec dir l) (fun t => prepend t (tokens f rec dir r))
  end.

Definition flush (f : fsys) (rec : path -> res) (dir : path) (buf : bytes) : res :=
  match buf with
  | [] => Ok []
  | _ => tokens f rec dir (split_inclusive buf)
  end.

Fixpoint scan (f : fsys) (rec : path -> res) (dir : path) (lines : list bytes) (fc : fence) (buf : bytes) : res :=
  match lines with
  | [] => flush f rec dir buf
  | l :: r =>
      match fc with
      | Some (m, n) => prepend l (scan f rec dir r (if is_code_fence_close l m n then None else fc) buf)
      | None =>
          match code_fence_delimiter l with
          | Some (m, n, _) => bind (flush f rec dir buf) (fun t => prepend (t ++ l) (scan f rec dir r (Some (m, n)) []))
          | None => scan f rec dir r None (buf ++ l)
          end
      end
  end.

Fixpoint expand_buf (fuel : nat) (f : fsys) (p : path) (active : list path) : res :=
  match fuel with
  | O => OutOfFuel
  | S n =>
      match lookup f p with
      | None => ErrMissing (join_path p)
      | Some src =>
          if mem_path p active then ErrCircular
          else scan f (fun q => expand_buf n f q (p :: active)) (removelast p) (split_inclusive src) None []
      end
  end.

(* include targets of the lines that are outside fences, in order *)
Fixpoint active_includes (lines : list bytes) (fc : fence) : list bytes :=
  match lines with
  | [] => []
  | l :: r =>
      if fenced fc l then active_includes r (next_fence fc l)
      else match include_of_line l with
           | Some raw => raw :: active_includes r None
           | None => active_includes r None
           end
  end.

(* ---------- the suite ---------- *)
Local Open Scope string_scope.

Definition b_of (s : string) : bytes := list_ascii_of_string s.
Definition s_of (b : bytes) : string := string_of_list_ascii b.

(* case: (inc (((comp ...) "content") ...) (comp ...)) *)
Definition decode_path (x : sx) : option path :=
  match x with
  | Lx l => map_opt (fun c => match c with Qx s => Some (b_of s) | _ => None end) l
  | _ => None
  end.

Definition decode_file (x : sx) : option (path * bytes) :=
  match x with
  | Lx [p; Qx c] => match decode_path p with Some p' => Some (p', b_of c) | None => None end
  | _ => None
  end.

Definition decode_case (x : sx) : option (fsys * path) :=
  match x with
  | Lx [Ax "inc"; Lx files; root] =>
      match map_opt decode_file files, decode_path root with
      | Some f, Some r => Some (f, r)
      | _, _ => None
      end
  | _ => None
  end.

Inductive obs20 : Type :=
| O_ok (t : bytes)
| O_err (kind msg : bytes)
| O_other.

Definition decode_obs20 (x : sx) : obs20 :=
  match x with
  | Lx [Ax "ok"; Qx s] => O_ok (b_of s)
  | Lx [Ax "err"; Qx k; Qx m] => O_err (b_of k) (b_of m)
  | _ => O_other
  end.

(* well-formedness of a case (what the generator may materialise as a real directory tree) *)
Definition name_ok (c : bytes) : bool :=
  andb (andb (negb (bytes_eqb c [])) (andb (negb (bytes_eqb c [c_dot])) (negb (bytes_eqb c [c_dot; c_dot]))))
       (forallb (fun a => let n := nat_of_ascii a in andb (andb (Nat.ltb 0 n) (Nat.ltb n 128)) (negb (Ascii.eqb a c_slash))) c).

Definition content_ok (c : bytes) : bool := forallb (fun a => Nat.ltb (nat_of_ascii a) 128) c.

Fixpoint nodup_paths (l : list path) : bool :=
  match l with
  | [] => true
  | p :: r => andb (negb (mem_path p r)) (nodup_paths r)
  end.

Definition wf_fs (f : fsys) : bool :=
  andb (nodup_paths (map fst f))
       (forallb (fun e => andb (negb (is_dir f (fst e))) (forallb name_ok (fst e))) f).

(* include targets that could leave the scratch root (absolute, or more ".." than depth): the model
   treats the root as its own parent, the real scratch directory is not the file-system root *)
Fixpoint escapes (depth : nat) (comps : list bytes) : bool :=
  match comps with
  | [] => false
  | c :: r =>
      if bytes_eqb c [c_dot; c_dot] then match depth with O => true | S d => escapes d r end
      else if orb (bytes_eqb c []) (bytes_eqb c [c_dot]) then escapes depth r
      else escapes (S depth) r
  end.

Definition raw_unsafe (depth : nat) (raw : bytes) : bool :=
  orb (starts_with [c_slash] raw) (escapes depth (split_on c_slash raw)).

Definition file_unsafe (e : path * bytes) : bool :=
  existsb (fun l => match include_of_line l with
                    | Some raw => raw_unsafe (List.length (fst e) - 1) raw
                    | None => false
                    end) (split_inclusive (snd e)).

(* `{a} {b.mec}`: braces inside the target — the property text does not say whether such a line is a
   stand-alone include; the code treats it as one (target "a} {b.mec") *)
Definition file_brace (e : path * bytes) : bool :=
  existsb (fun l => match include_of_line l with
                    | Some raw => existsb (fun a => orb (Ascii.eqb a c_lbrace) (Ascii.eqb a c_rbrace)) raw
                    | None => false
                    end) (split_inclusive (snd e)).

(* substring test on messages *)
Fixpoint contains (needle hay : bytes) : bool :=
  orb (starts_with needle hay) (match hay with [] => false | _ :: r => contains needle r end).

Definition msg_circular : bytes := b_of "Circular include detected".
Definition msg_failed : bytes := b_of "Include failed: ".

Definition is_circular_err (msg : bytes) : bool := andb (contains msg_circular msg) (negb (contains msg_failed msg)).
Definition is_missing_err (raw msg : bytes) : bool := contains (msg_failed ++ raw)%list msg.

Definition res_eqb (a b : res) : bool :=
  match a, b with
  | Ok x, Ok y => bytes_eqb x y
  | ErrCircular, ErrCircular => true
  | ErrMissing x, ErrMissing y => bytes_eqb x y
  | OutOfFuel, OutOfFuel => true
  | _, _ => false
  end.

(* The property does not say which error wins when the graph below the root has both a cycle and a missing
   target (the code reports the one met first in depth-first line order, and so does [expand]).  An error of
   the other class is accepted when the graph really has that defect: computed here by a reachability closure. *)
Definition targets_of (f : fsys) (p : path) : list path :=
  match lookup f p with
  | Some src => flat_map (fun raw => match resolve f (removelast p) raw with Some q => [q] | None => [] end)
                         (active_includes (split_inclusive src) None)
  | None => []
  end.

Fixpoint add_new (xs : list path) (s : list path) : list path :=
  match xs with
  | [] => s
  | x :: r => if mem_path x s then add_new r s else add_new r (s ++ [x])%list
  end.

Fixpoint closure (n : nat) (f : fsys) (s : list path) : list path :=
  match n with
  | O => s
  | S n' => closure n' f (add_new (flat_map (targets_of f) s) s)
  end.

Definition reachable (f : fsys) (p : path) : list path := closure (List.length f) f [p].

Definition dangling_named (f : fsys) (msg : bytes) (q : path) : bool :=
  match lookup f q with
  | Some src => existsb (fun raw => match resolve f (removelast q) raw with
                                    | None => is_missing_err raw msg
                                    | Some _ => false
                                    end) (active_includes (split_inclusive src) None)
  | None => false
  end.

Definition alt_missing (f : fsys) (root : path) (msg : bytes) : bool :=
  existsb (dangling_named f msg) (reachable f root).

Definition alt_cycle (f : fsys) (root : path) : bool :=
  existsb (fun q => existsb (fun t => mem_path q (reachable f t)) (targets_of f q)) (reachable f root).

Definition judge_fs (f : fsys) (root : path) (o : obs20) : sx :=
  match expand_root f root, o with
  | Ok t, O_ok t' =>
      if bytes_eqb t t' then
        match lookup f root with
        | Some src => match active_includes (split_inclusive src) None with
                      | [] => v_ok "verbatim"
                      | _ => v_ok "expanded"
                      end
        | None => v_ok "expanded"
        end
      else v_bad "wrong-text" (Lx [Ax "ok"; Qx (s_of t)])
  | Ok t, _ => v_bad "expected-text" (Lx [Ax "ok"; Qx (s_of t)])
  | ErrCircular, O_err _ m =>
      if is_circular_err m then v_ok "circular"
      else if alt_missing f root m then v_ok "missing-other-order"
      else v_bad "expected-circular-error" (Ax "circular")
  | ErrCircular, _ => v_bad "expected-circular-error" (Ax "circular")
  | ErrMissing raw, O_err _ m =>
      if is_missing_err raw m then v_ok "missing"
      else if andb (is_circular_err m) (alt_cycle f root) then v_ok "circular-other-order"
      else if alt_missing f root m then v_ok "missing-other-order"
      else v_bad "expected-include-failed" (Lx [Ax "missing"; Qx (s_of raw)])
  | ErrMissing raw, _ => v_bad "expected-include-failed" (Lx [Ax "missing"; Qx (s_of raw)])
  | OutOfFuel, _ => Lx [Ax "internal"; Ax "out-of-fuel"]
  end.

Definition judge_include (x : sx) : sx :=
  match x with
  | Lx [c; o] =>
      match decode_case c with
      | None => v_malformed
      | Some (f, root) =>
          if andb (wf_fs f) (match lookup f root with Some _ => true | None => false end) then
            if negb (forallb (fun e => content_ok (snd e)) f) then v_adv "non-ascii"
            else if existsb file_unsafe f then v_adv "escapes-root"
            else if existsb file_brace f then v_adv "brace-in-target"
            else if res_eqb (expand_root f root) (expand_buf (S (List.length f)) f root []) then
                   judge_fs f root (decode_obs20 o)
                 else Lx [Ax "internal"; Ax "buffered-differs"]
          else v_malformed
      end
  | _ => v_malformed
  end.

Definition run_line (s : string) : string := run_with judge_include s.
