(* C11 — matrix construction by concatenation.  Executable definitions only.
   Mirrors src/interpreter/src/structures.rs::matrix / matrix_row and the
   horzcat / vertcat kernels: a literal is the vertical concatenation of the
   horizontal concatenations of its rows; scalars are 1x1 blocks. *)
From Coq Require Import List Arith ZArith String.
From MechV Require Import Base.Sexp Base.Obs.
Import ListNotations.

Section Cat.
  Context {A : Type}.

  Definition sum_by {B} (f : B -> nat) (l : list B) : nat := fold_right (fun b n => f b + n) 0 l.

  (* column j of a column-major matrix *)
  Definition mcol (m : mat A) (j : nat) : list A :=
    firstn (mrows m) (skipn (j * mrows m) (mdata m)).

  Definition hcat (bs : list (mat A)) : option (mat A) :=
    match bs with
    | [] => None
    | b :: _ =>
        if forallb (fun x => Nat.eqb (mrows x) (mrows b)) bs
        then Some (Mat (mrows b) (sum_by mcols bs) (List.concat (map mdata bs)))
        else None
    end.

  Definition vcat (bs : list (mat A)) : option (mat A) :=
    match bs with
    | [] => None
    | b :: _ =>
        if forallb (fun x => Nat.eqb (mcols x) (mcols b)) bs
        then Some (Mat (sum_by mrows bs) (mcols b)
                       (flat_map (fun j => flat_map (fun x => mcol x j) bs) (seq 0 (mcols b))))
        else None
    end.

  Definition literal (rows : list (list (mat A))) : option (mat A) :=
    match map_opt hcat rows with
    | Some hs => vcat hs
    | None => None
    end.

  (* the declarative side conditions of the property *)
  Definition row_height (row : list (mat A)) : nat := match row with b :: _ => mrows b | [] => 0 end.
  Definition row_width (row : list (mat A)) : nat := sum_by mcols row.
  Definition row_okb (row : list (mat A)) : bool :=
    match row with [] => false | b :: _ => forallb (fun x => Nat.eqb (mrows x) (mrows b)) row end.
  Definition tiling_okb (rows : list (list (mat A))) : bool :=
    match rows with
    | [] => false
    | r0 :: _ => andb (forallb row_okb rows)
                      (forallb (fun r => Nat.eqb (row_width r) (row_width r0)) rows)
    end.
End Cat.

(* ---- the suite: case = (cat (row (block...)...) ...) with blocks as kvals;
   observation = what the implementation returned for the rendered literal. *)
Open Scope string_scope.

Definition block_of (v : kval) : string * mat sx :=
  match v with
  | KS k e => (k, Mat 1 1 [e])
  | KM k m => (k, m)
  end.

Definition decode_row (x : sx) : option (list (string * mat sx)) :=
  match x with
  | Lx bs => map_opt (fun b => option_map block_of (decode_kval b)) bs
  | _ => None
  end.

Definition all_kinds (rows : list (list (string * mat sx))) : list string :=
  flat_map (map fst) rows.

Definition same_kind (ks : list string) : bool :=
  match ks with [] => false | k :: r => forallb (String.eqb k) r end.

(* expected value of the literal: Some value, or None = must be an error *)
Definition cat_expected (rows : list (list (string * mat sx))) : option kval :=
  if same_kind (all_kinds rows) then
    match literal (map (map snd) rows) with
    | Some m => match all_kinds rows with k :: _ => Some (KM k m) | [] => None end
    | None => None
    end
  else None.

Definition judge_rows (rs : list (list (string * mat sx))) (o : obs) : sx :=
  match cat_expected rs, o with
  | Some v, OVal v' => if kval_eqb v v' then v_ok "value" else v_bad "wrong-value" (encode_kval v)
  | Some v, _ => v_bad "expected-value" (encode_kval v)
  | None, OErr => v_ok "error"
  | None, _ => v_bad "expected-error" (Ax "err")
  end.

Definition judge_cat (x : sx) : sx :=
  match x with
  | Lx [Lx (Ax "cat" :: rows); o] =>
      match map_opt decode_row rows with
      | None => v_malformed
      | Some rs =>
          if forallb (fun r => forallb (fun b => wf_matb (snd b)) r) rs
          then judge_rows rs (decode_obs o)
          else v_malformed
      end
  | _ => v_malformed
  end.

Definition run_line (s : string) : string := run_with judge_cat s.
