(* C10 — Literate documents: prose is inert, named code fences are isolated.
   Executable definitions only.

   Mirrors src/interpreter/src/mechdown.rs:
     body/section            : the elements of a document are evaluated in order, `?` on every element
                               (the first error of the MAIN interpreter ends the document);
     section_element         : only MechCode and FencedMechCode (not disabled) execute statements;
                               paragraphs, lists, quotes, tables, titles, other code blocks are hashed only;
       MechCode(code)        : every statement with `mech_code(c, p)?` in the main interpreter;
       FencedMechCode(block) : disabled -> nothing;
                               namespace == 0 -> eval_fenced_code_block(code, p, isolate_errors = false)?
                               otherwise      -> sub_interpreters.entry(namespace).or_insert(new) and
                                                 eval_fenced_code_block(code, sub, isolate_errors = true):
                                                 the first error ends THIS fence, the result is Ok.
     mech_code               : a comment inside code is a MechCode::Comment; like every MechCode its (Empty)
                               result goes through update_ans_symbol: that is the store transformer [cmt].

   The algebra is generic in the statement semantics [exec] (a Section variable), in what a comment does to a
   store ([cmt]) and in the initial store of an interpreter ([init]).  *)
From Coq Require Import List ZArith Ascii String Bool Arith.
From MechV Require Import Base.Sexp Base.Obs.
Import ListNotations.
Open Scope string_scope.

(* result of one statement: the store it leaves, and whether it raised an error *)
Inductive res (S : Type) : Type := Ok (s : S) | Err (s : S).
Arguments Ok {S} _.
Arguments Err {S} _.

(* one line of executable code: a statement or a comment line (text kept for rendering only) *)
Inductive item (stmt : Type) : Type := Stmt (a : stmt) | Cmt (text : string).
Arguments Stmt {stmt} _.
Arguments Cmt {stmt} _.

(* ```mech | ```mech:<name> | ```mech:disabled *)
Inductive fkind : Type := FUnnamed | FNamed (n : string) | FDisabled.

Inductive elem (stmt prose : Type) : Type :=
| Prose (p : prose)                          (* title, section, paragraph, list, quote, break, table *)
| NonMech (p : prose)                        (* fenced code of another language / no language *)
| Code (l : list (item stmt))                (* code lines at the top level of the document *)
| Fence (k : fkind) (l : list (item stmt)).  (* fenced mech code *)
Arguments Prose {stmt prose} _.
Arguments NonMech {stmt prose} _.
Arguments Code {stmt prose} _.
Arguments Fence {stmt prose} _ _.

Record dstate (S : Type) : Type := DS { d_main : S; d_subs : list (string * S); d_halted : bool }.
Arguments DS {S} _ _ _.
Arguments d_main {S} _.
Arguments d_subs {S} _.
Arguments d_halted {S} _.

Section Tables.
  Context {S : Type}.
  Fixpoint lookup (n : string) (t : list (string * S)) : option S :=
    match t with
    | [] => None
    | (m, v) :: r => if String.eqb n m then Some v else lookup n r
    end.
  Fixpoint upsert (n : string) (v : S) (t : list (string * S)) : list (string * S) :=
    match t with
    | [] => [(n, v)]
    | (m, w) :: r => if String.eqb n m then (n, v) :: r else (m, w) :: upsert n v r
    end.
End Tables.

Section Run.
  Context {S stmt prose : Type}.
  Variable exec : S -> stmt -> res S.
  Variable cmt : S -> S.
  Variable init : S.

  Definition step (s : S) (it : item stmt) : res S :=
    match it with Stmt a => exec s a | Cmt _ => Ok (cmt s) end.

  (* statements in order; the first error ends the block; (store left, no error?) *)
  Fixpoint run_items (s : S) (l : list (item stmt)) : S * bool :=
    match l with
    | [] => (s, true)
    | it :: r => match step s it with
                 | Ok s' => run_items s' r
                 | Err s' => (s', false)
                 end
    end.

  Definition sub_or_init (n : string) (t : list (string * S)) : S :=
    match lookup n t with Some s => s | None => init end.

  Definition run_elem (ds : dstate S) (e : elem stmt prose) : dstate S :=
    if d_halted ds then ds else
    match e with
    | Prose _ | NonMech _ | Fence FDisabled _ => ds
    | Code l | Fence FUnnamed l =>
        let '(s', ok) := run_items (d_main ds) l in DS s' (d_subs ds) (negb ok)
    | Fence (FNamed n) l =>
        let '(s', _) := run_items (sub_or_init n (d_subs ds)) l in
        DS (d_main ds) (upsert n s' (d_subs ds)) false
    end.

  Definition run_from (ds : dstate S) (d : list (elem stmt prose)) : dstate S := fold_left run_elem d ds.
  Definition start : dstate S := DS init [] false.
  Definition run_doc (d : list (elem stmt prose)) : dstate S := run_from start d.

  (* ---- what the property says the result is determined by ---- *)
  Definition is_inert (e : elem stmt prose) : bool :=
    match e with Prose _ | NonMech _ | Fence FDisabled _ => true | _ => false end.
  Definition strip_prose (d : list (elem stmt prose)) : list (elem stmt prose) :=
    filter (fun e => negb (is_inert e)) d.

  Definition main_items_of (e : elem stmt prose) : list (item stmt) :=
    match e with Code l | Fence FUnnamed l => l | _ => [] end.
  Definition main_items (d : list (elem stmt prose)) : list (item stmt) := flat_map main_items_of d.

  Definition ns_items_of (n : string) (e : elem stmt prose) : option (list (item stmt)) :=
    match e with
    | Fence (FNamed m) l => if String.eqb n m then Some l else None
    | _ => None
    end.
  Fixpoint ns_fences (n : string) (d : list (elem stmt prose)) : list (list (item stmt)) :=
    match d with
    | [] => []
    | e :: r => match ns_items_of n e with Some l => l :: ns_fences n r | None => ns_fences n r end
    end.
  (* the store of a namespace: its fences in order, each up to its first error, starting from [init] *)
  Definition ns_store (fs : list (list (item stmt))) : S :=
    fold_left (fun s l => fst (run_items s l)) fs init.
  Definition ns_result (n : string) (d : list (elem stmt prose)) : option S :=
    match ns_fences n d with [] => None | fs => Some (ns_store fs) end.

  (* the part of a document that is evaluated: up to and including the element in which main code fails *)
  Fixpoint live (s : S) (d : list (elem stmt prose)) : list (elem stmt prose) :=
    match d with
    | [] => []
    | e :: r =>
        match e with
        | Code l | Fence FUnnamed l =>
            let '(s', ok) := run_items s l in if ok then e :: live s' r else [e]
        | _ => e :: live s r
        end
    end.

  Definition is_stmt (it : item stmt) : bool := match it with Stmt _ => true | Cmt _ => false end.
  Definition strip_cmts_items (l : list (item stmt)) : list (item stmt) := filter is_stmt l.
  Definition strip_cmts_elem (e : elem stmt prose) : elem stmt prose :=
    match e with
    | Code l => Code (strip_cmts_items l)
    | Fence k l => Fence k (strip_cmts_items l)
    | _ => e
    end.
  Definition strip_cmts (d : list (elem stmt prose)) : list (elem stmt prose) := map strip_cmts_elem d.

  Definition keep_ns (n : string) (d : list (elem stmt prose)) : list (elem stmt prose) :=
    filter (fun e => match ns_items_of n e with Some _ => true | None => false end) d.

  Fixpoint names (seen : list string) (d : list (elem stmt prose)) : list string :=
    match d with
    | [] => []
    | Fence (FNamed n) _ :: r =>
        if existsb (String.eqb n) seen then names seen r else n :: names (n :: seen) r
    | _ :: r => names seen r
    end.
End Run.

(* ------------------------------------------------------------------------
   Instance 1: a small concrete statement semantics, for the examples and for the refutation of
   "comments never change any value": a store is the variable table plus the `ans` register that
   update_ans_symbol maintains (Interpreter::new starts it at Empty = None). *)
Inductive texpr : Type := TLit (z : Z) | TVar (x : string) | TAdd (a b : texpr).
Inductive tstmt : Type := TDef (x : string) (e : texpr).
Record tstore : Type := TS { t_vars : list (string * Z); t_ans : option Z }.

Fixpoint teval (vars : list (string * Z)) (e : texpr) : option Z :=
  match e with
  | TLit z => Some z
  | TVar x => lookup x vars
  | TAdd a b => match teval vars a, teval vars b with Some u, Some v => Some (u + v)%Z | _, _ => None end
  end.

Definition texec (s : tstore) (a : tstmt) : res tstore :=
  match a with
  | TDef x e =>
      match teval (t_vars s) e, lookup x (t_vars s) with
      | Some v, None => Ok (TS (upsert x v (t_vars s)) (Some v))
      | _, _ => Err s                   (* undefined variable / already defined *)
      end
  end.
Definition tcmt (s : tstore) : tstore := TS (t_vars s) None.
Definition tinit : tstore := TS [] None.
Definition trun (d : list (elem tstmt string)) : dstate tstore := run_doc texec tcmt tinit d.

(* ------------------------------------------------------------------------
   Instance 2 (used by the judge): statements are opaque texts with a flag "the generator made this one fail";
   a store is the trace of the lines that were executed successfully.  [run_doc] over this instance computes
   WHICH lines reach which interpreter; their values come from the implementation. *)
Definition jstmt : Type := (string * bool)%type.            (* source text, fails *)
Definition jtrace : Type := list (item jstmt).
Definition jexec (t : jtrace) (a : jstmt) : res jtrace := if snd a then Err t else Ok (t ++ [Stmt a])%list.
Definition jcmt (t : jtrace) : jtrace := (t ++ [Cmt ""])%list.
Definition jrun (d : list (elem jstmt string)) : dstate jtrace := run_doc jexec jcmt [] d.

Definition last_is_cmt (t : jtrace) : bool :=
  match List.rev t with Cmt _ :: _ => true | _ => false end.

(* ---- rendering (the judge re-renders every source and compares it with the text the harness echoes) ---- *)
Record layout : Type := LY { l_sep : string; l_ind : string; l_sig : string; l_lang : string }.
Definition ly0 : layout := LY "" "" "```" "mech".
Definition jelem : Type := (layout * elem jstmt string)%type.

Definition nl : string := String "010"%char EmptyString.

Definition item_text (it : item jstmt) : string :=
  match it with Stmt a => fst a | Cmt t => t end.
Definition render_items (ind : string) (l : list (item jstmt)) : string :=
  String.concat "" (map (fun it => ind ++ item_text it ++ nl) l).
Definition fence_tag (k : fkind) : string :=
  match k with FUnnamed => "" | FNamed n => ":" ++ n | FDisabled => ":disabled" end.
Definition render_elem (ly : layout) (e : elem jstmt string) : string :=
  match e with
  | Prose p | NonMech p => p
  | Code l => render_items (l_ind ly) l
  | Fence k l => l_ind ly ++ l_sig ly ++ l_lang ly ++ fence_tag k ++ nl
                 ++ render_items (l_ind ly) l ++ l_ind ly ++ l_sig ly ++ nl
  end.
Definition render_doc (jd : list jelem) : string :=
  String.concat "" (map (fun le => l_sep (fst le) ++ render_elem (fst le) (snd le)) jd).

(* code-only documents prescribed by the model; plain layout, a blank line between fences *)
Definition render_plain (d : list (elem jstmt string)) : string :=
  String.concat nl (map (render_elem ly0) d).

Definition doc_of (jd : list jelem) : list (elem jstmt string) := map snd jd.

(* main code only: every main line in document order, comments removed, as one block of plain code *)
Definition main_only (d : list (elem jstmt string)) : string :=
  render_items "" (strip_cmts_items (main_items d)).
(* namespace n only: the fences named n that are reached, comments removed *)
Definition ns_only (n : string) (d : list (elem jstmt string)) : string :=
  render_plain (strip_cmts (keep_ns n (live jexec jcmt [] d))).
(* namespace n flattened: the statements that n's interpreter executed successfully, as plain main code *)
Definition ns_flat (n : string) (d : list (elem jstmt string)) : string :=
  render_items "" (strip_cmts_items (sub_or_init [] n (d_subs (jrun d)))).
Definition ns_names (d : list (elem jstmt string)) : list string := names [] (live jexec jcmt [] d).

(* ---- validity of a case ---- *)
Definition mem (x : string) (l : list string) : bool := existsb (String.eqb x) l.
Definition layout_ok (ly : layout) : bool :=
  mem (l_sep ly) [""; nl; nl ++ nl] && mem (l_ind ly) [""; " "; "  "; "    "]
  && mem (l_sig ly) ["```"; "~~~"] && mem (l_lang ly) ["mech"; "mec"].
Definition has_stmt (l : list (item jstmt)) : bool := existsb (@is_stmt jstmt) l.
Definition elem_ok (e : elem jstmt string) : bool :=
  match e with
  | Code l | Fence FDisabled l => negb (match l with [] => true | _ => false end)
  | Fence _ l => has_stmt l
  | _ => true
  end.
Definition case_ok (jd : list jelem) : bool :=
  forallb (fun le => layout_ok (fst le) && elem_ok (snd le)) jd.

(* ---- decoding the case ---- *)
Definition decode_item (x : sx) : option (item jstmt) :=
  match x with
  | Lx [Ax "stmt"; Qx t; Zx f] => Some (Stmt (t, negb (Z.eqb f 0)))
  | Lx [Ax "cmt"; Qx t] => Some (Cmt t)
  | _ => None
  end.
Definition decode_body (x : sx) : option (elem jstmt string) :=
  match x with
  | Lx [Ax "prose"; Qx p] => Some (Prose p)
  | Lx [Ax "nonmech"; Qx p] => Some (NonMech p)
  | Lx (Ax "code" :: its) => option_map Code (map_opt decode_item its)
  | Lx (Ax "fence" :: Qx n :: its) =>
      option_map (Fence (if String.eqb n "" then FUnnamed else FNamed n)) (map_opt decode_item its)
  | Lx (Ax "disabled" :: its) => option_map (Fence FDisabled) (map_opt decode_item its)
  | _ => None
  end.
Definition decode_elem (x : sx) : option jelem :=
  match x with
  | Lx [Ax "el"; Qx sep; Qx ind; Qx sig; Qx lang; b] =>
      option_map (fun e => (LY sep ind sig lang, e)) (decode_body b)
  | _ => None
  end.

(* ---- decoding the observation: (doc "src" <res> (syms row...) (subs ("name" (syms row...))...)) ---- *)
Record dobs : Type := DO { o_src : string; o_res : sx; o_main : list sx; o_subs : list (string * list sx) }.

(* a row (name mut aliasclass value) without its alias class *)
Definition strip_row (x : sx) : sx :=
  match x with Lx [n; m; _; v] => Lx [n; m; v] | _ => x end.
Definition decode_syms (x : sx) : option (list sx) :=
  match x with Lx (Ax "syms" :: rows) => Some (map strip_row rows) | _ => None end.
Definition decode_sub (x : sx) : option (string * list sx) :=
  match x with
  | Lx [Qx n; t] => option_map (fun rows => (n, rows)) (decode_syms t)
  | _ => None
  end.
Definition decode_dobs (x : sx) : option dobs :=
  match x with
  | Lx [Ax "doc"; Qx src; r; m; Lx (Ax "subs" :: ss)] =>
      match decode_syms m, map_opt decode_sub ss with
      | Some rows, Some subs => Some (DO src r rows subs)
      | _, _ => None
      end
  | _ => None
  end.

Definition is_perr (r : sx) : bool :=
  match r with Lx (Ax "perr" :: _) => true | Lx [Ax "panic"; Ax "parse"] => true | _ => false end.

(* the known wrong behaviour `comment-resets-ans`: the table the code-only document gives, with ans := Empty *)
Definition set_ans_empty (rows : list sx) : list sx :=
  map (fun r => match r with
                | Lx [Qx "ans"; m; _] => Lx [Qx "ans"; m; Lx [Ax "empty"]]
                | _ => r
                end) rows.

Inductive tcheck : Type := TEq | TKf | TBad.
(* [got] from the document, [want] from the code-only document, [c] = model: the last line that the store
   executed is a comment *)
Definition table_check (c : bool) (got want : list sx) : tcheck :=
  if sxs_eqb got want then TEq
  else if c && sxs_eqb got (set_ans_empty want) then TKf
  else TBad.

Definition tc_and (a b : tcheck) : tcheck :=
  match a, b with
  | TBad, _ | _, TBad => TBad
  | TKf, _ | _, TKf => TKf
  | TEq, TEq => TEq
  end.

(* one namespace: its table in the document  vs  in the document reduced to its fences  vs  as plain code *)
Definition ns_check (d : list (elem jstmt string)) (D : dobs) (n : string) (Na Nb : dobs) : option tcheck :=
  if String.eqb (o_src Na) (ns_only n d) && String.eqb (o_src Nb) (ns_flat n d) then
    match lookup n (o_subs D), lookup n (o_subs Na) with
    | Some t, Some ta =>
        let c := last_is_cmt (sub_or_init [] n (d_subs (jrun d))) in
        Some (tc_and (table_check c t ta) (table_check c t (o_main Nb)))
    | _, _ => Some TBad
    end
  else None.

Fixpoint ns_checks (d : list (elem jstmt string)) (D : dobs) (ns : list string) (rest : list dobs)
  : option tcheck :=
  match ns, rest with
  | [], [] => Some TEq
  | n :: ns', Na :: Nb :: rest' =>
      match ns_check d D n Na Nb, ns_checks d D ns' rest' with
      | Some a, Some b => Some (tc_and a b)
      | _, _ => None
      end
  | _, _ => None
  end.

(* the known finding `list-then-dash-line`: unordered_list() skips the blank lines after its last item and then
   commits to a further item as soon as the next line starts with a dash; a `-- comment` line or a line such as
   `-3 + x` is not "dash, space": "Expects space after dash" is logged and the whole document is a parse error.
   Class: a prose block whose last line is a bullet (dash, space), directly followed by top-level code whose first line
   starts with a dash. *)
Fixpoint skip_spaces (s : string) : string :=
  match s with String " "%char r => skip_spaces r | _ => s end.
Definition starts_dash (s : string) : bool :=
  match skip_spaces s with String "-"%char _ => true | _ => false end.
Definition starts_bullet (s : string) : bool :=
  match skip_spaces s with String "-"%char (String " "%char _) => true | _ => false end.
(* does the last non-empty line of a text start with a dash?  [cur] = the line being read, [lastl] = last complete one *)
Fixpoint last_line_dash_go (s : string) (cur : string -> string) (lastl : string) : bool :=
  match s with
  | EmptyString => match cur EmptyString with EmptyString => starts_bullet lastl | l => starts_bullet l end
  | String "010"%char r =>
      last_line_dash_go r (fun t => t) (match cur EmptyString with EmptyString => lastl | l => l end)
  | String c r => last_line_dash_go r (fun t => cur (String c t)) lastl
  end.
Definition last_line_dash (s : string) : bool := last_line_dash_go s (fun t => t) EmptyString.
Fixpoint kf_list_dash (d : list (elem jstmt string)) : bool :=
  match d with
  | Prose p :: ((Code (it :: _) :: _) as r) =>
      (last_line_dash p && starts_dash (item_text it)) || kf_list_dash r
  | _ :: r => kf_list_dash r
  | [] => false
  end.

Definition stream_ok (s : string) : bool := mem s ["plain"; "codelike"; "layout"].

(* None = the observation does not belong to this case (internal error of the machinery) *)
Definition judge_doc (stream : string) (jd : list jelem) (os : list dobs) : option sx :=
  let d := doc_of jd in
  match os with
  | D :: M :: rest =>
      if negb (String.eqb (o_src D) (render_doc jd) && String.eqb (o_src M) (main_only d)) then None else
      if is_perr (o_res M) then Some (v_bad "code-only-document-does-not-parse" (Lx []))
      else if is_perr (o_res D) then
        if negb (String.eqb stream "plain") then Some (v_adv (stream ++ "-parse-error"))
        else if kf_list_dash d then Some (v_kf "list-then-dash-line")
        else Some (v_bad "plain-prose-parse-error" (Lx []))
      else
        match ns_checks d D (ns_names d) rest with
        | None => None
        | Some nsr =>
            let mainr := table_check (last_is_cmt (d_main (jrun d))) (o_main D) (o_main M) in
            if negb (sx_eqb (o_res D) (o_res M)) then Some (v_bad "result-differs" (o_res M))
            else if negb (Nat.eqb (List.length (o_subs D)) (List.length (ns_names d)))
            then Some (v_bad "unexpected-namespaces" (Lx (map Qx (ns_names d))))
            else match mainr, nsr with
                 | TBad, _ => Some (v_bad "main-table-differs" (Lx (o_main M)))
                 | _, TBad => Some (v_bad "namespace-table-differs" (Lx []))
                 | TKf, _ | _, TKf => Some (v_kf "comment-resets-ans")
                 | TEq, TEq => Some (v_ok stream)
                 end
        end
  | _ => None
  end.

Definition judge_c10 (x : sx) : sx :=
  match x with
  | Lx [Lx (Ax "docase" :: Ax stream :: els); Lx (Ax "docs" :: obs)] =>
      match map_opt decode_elem els, map_opt decode_dobs obs with
      | Some jd, Some os =>
          if stream_ok stream && case_ok jd then
            match judge_doc stream jd os with Some v => v | None => v_malformed end
          else v_malformed
      | _, _ => v_malformed
      end
  | _ => v_malformed
  end.

Definition run_line (s : string) : string := run_with judge_c10 s.
