(* C07 — constant payloads: ConstElem::write_le / from_le (src/core/src/program/compiler/constants.rs) for the
   scalar kinds and for dense matrices, and ParsedProgram::decode_const_entries (program.rs) on top of the
   container model: per entry the encoding / bounds / alignment / type-id checks, then the payload decoder
   selected by the TypeTag found in the type section.
   Executable definitions only. *)
From Coq Require Import List NArith ZArith Arith Bool.
From MechV Require Import Model.Crc32 Model.Loader Model.Container.
Import ListNotations.
Open Scope Z_scope.

Inductive skind := KU8 | KU16 | KU32 | KU64 | KU128 | KI8 | KI16 | KI32 | KI64 | KI128
                 | KF32 | KF64 | KC64 | KR64 | KString | KBool | KIndex.

(* payload of one element.  Integers as Z; f32/f64 as their IEEE bit pattern (an unsigned integer);
   r64 as (numerator, denominator); c64 as (re bits, im bits); strings as UTF-8 bytes *)
Inductive sval := VZ (z : Z) | VB (b : bool) | VS (s : bytes) | VP (a b : Z).

Inductive cval :=
| CScalar (k : skind) (v : sval)
| CMatrix (k : skind) (rows cols : N) (elems : list sval).     (* column-major *)

Inductive dres (A : Type) := DOk (a : A) | DErr | DPanic | DUnknown.
Arguments DOk {A} _. Arguments DErr {A}. Arguments DPanic {A}. Arguments DUnknown {A}.

(* width in bytes of the fixed-size kinds (strings: 0, variable) *)
Definition kwidth (k : skind) : nat :=
  match k with
  | KU8 | KI8 | KBool => 1 | KU16 | KI16 => 2 | KU32 | KI32 | KF32 => 4
  | KU64 | KI64 | KF64 | KIndex => 8 | KU128 | KI128 | KC64 | KR64 => 16 | KString => 0
  end%nat.

Definition ksigned (k : skind) : bool :=
  match k with KI8 | KI16 | KI32 | KI64 | KI128 => true | _ => false end.

(* two's complement little-endian *)
Definition enc_int (w : nat) (z : Z) : bytes := le w (Z.to_N (z mod 2 ^ (8 * Z.of_nat w))).
Definition dec_int (signed : bool) (w : nat) (l : bytes) : Z :=
  let u := Z.of_N (unle l) in
  if signed && (2 ^ (8 * Z.of_nat w - 1) <=? u) then u - 2 ^ (8 * Z.of_nat w) else u.

Definition in_i64 (z : Z) : bool := (- 2 ^ 63 <=? z) && (z <? 2 ^ 63).

(* num_rational::Ratio::new: panics on a zero denominator, reduces, makes the denominator positive
   (results that do not fit an i64 overflow, i.e. panic in the dev profile) *)
Definition ratio_new (n d : Z) : dres sval :=
  if d =? 0 then DPanic
  else
    let g := Z.gcd n d in
    let n' := n / g in let d' := d / g in
    let '(n2, d2) := if d' <? 0 then (- n', - d') else (n', d') in
    if in_i64 n2 && in_i64 d2 then DOk (VP n2 d2) else DPanic.

(* ---- write_le ---- *)
Definition encode_elem (k : skind) (v : sval) : bytes :=
  match k, v with
  | KBool, VB b => [if b then 1%N else 0%N]
  | KString, VS s => le 4 (N.of_nat (List.length s)) ++ s
  | KR64, VP a b => enc_int 8 a ++ enc_int 8 b
  | KC64, VP a b => enc_int 8 a ++ enc_int 8 b
  | (KBool | KString | KR64 | KC64), _ => []
  | _, VZ z => enc_int (kwidth k) z
  | _, _ => []
  end.

(* ---- from_le on a prefix of the given bytes: (value, rest); every failure is a PANIC in the Rust code ---- *)
Definition decode_elem (k : skind) (l : bytes) : dres (sval * bytes) :=
  match k with
  | KBool => match l with b :: r => DOk (VB (negb (b =? 0)%N), r) | [] => DPanic end
  | KString =>
      match take 4 l with
      | Some (n4, r) =>
          let n := unle n4 in
          if (N.of_nat (List.length r) <? n)%N then DPanic
          else match take (N.to_nat n) r with
               | Some (s, r') => if utf8_valid s then DOk (VS s, r') else DPanic
               | None => DPanic
               end
      | None => DPanic
      end
  | KR64 =>
      match take 8 l with
      | Some (a, r) =>
          match take 8 r with
          | Some (b, r') =>
              match ratio_new (dec_int true 8 a) (dec_int true 8 b) with
              | DOk v => DOk (v, r') | DErr => DErr | DPanic => DPanic | DUnknown => DUnknown
              end
          | None => DPanic
          end
      | None => DPanic
      end
  | KC64 =>
      match take 8 l with
      | Some (a, r) =>
          match take 8 r with
          | Some (b, r') => DOk (VP (dec_int false 8 a) (dec_int false 8 b), r')
          | None => DPanic
          end
      | None => DPanic
      end
  | _ =>
      match take (kwidth k) l with
      | Some (a, r) => DOk (VZ (dec_int (ksigned k) (kwidth k) a), r)
      | None => DPanic
      end
  end.

(* ---- scalar constants: the arms of decode_const_entries (exact size checks, then the decoder) ---- *)
Definition scalar_size_ok (k : skind) (data : bytes) : bool :=
  match k with
  | KString => Nat.leb 4 (List.length data)
  | _ => Nat.eqb (List.length data) (kwidth k)
  end.

Definition decode_scalar (k : skind) (data : bytes) : dres cval :=
  if scalar_size_ok k data then
    match decode_elem k data with
    | DOk (v, _) => DOk (CScalar k v) | DErr => DErr | DPanic => DPanic | DUnknown => DUnknown
    end
  else DErr.

(* ---- matrices: rows u32, cols u32, rows*cols elements column-major (Matrix<T>::from_le) ---- *)
Definition encode_matrix (k : skind) (rows cols : N) (elems : list sval) : bytes :=
  le 4 rows ++ le 4 cols ++ flat_map (encode_elem k) elems.

(* n elements; fuel S (length l) is always enough: every element consumes at least one byte, so running out
   of fuel means running out of bytes, which is the same panic *)
Fixpoint decode_elems (fuel : nat) (k : skind) (n : N) (l : bytes) : dres (list sval) :=
  if (n =? 0)%N then DOk []
  else match fuel with
       | O => DPanic
       | S f =>
           match decode_elem k l with
           | DOk (v, r) =>
               match decode_elems f k (n - 1)%N r with
               | DOk vs => DOk (v :: vs) | e => e
               end
           | _ => DPanic
           end
       end.

(* minimum payload length below which decode_const_entries returns ConstantTooShort instead of calling from_le *)
Definition matrix_min_len (k : skind) : nat :=
  match k with
  | KBool | KU8 | KI8 => 1 | KU16 | KI16 => 2 | KU32 | KI32 | KF32 => 4
  | KU128 => 16 | _ => 8
  end%nat.

Definition decode_matrix (k : skind) (data : bytes) : dres cval :=
  if Nat.ltb (List.length data) (matrix_min_len k) then DErr
  else
    match take 4 data with
    | Some (r4, d1) =>
        match take 4 d1 with
        | Some (c4, d2) =>
            let rows := unle r4 in let cols := unle c4 in
            match decode_elems (S (List.length d2)) k (rows * cols)%N d2 with
            | DOk vs => if ((rows =? 0) || (cols =? 0))%N then DPanic else DOk (CMatrix k rows cols vs)
            | _ => DPanic
            end
        | None => DPanic
        end
    | None => DPanic
    end.

Definition encode_const (v : cval) : bytes :=
  match v with
  | CScalar k x => encode_elem k x
  | CMatrix k rows cols elems => encode_matrix k rows cols elems
  end.

(* ---- TypeTag -> decoder ---- *)
Inductive tkind := TScalar (k : skind) | TMatrix (k : skind) | TOpaque | TUnsupported.

Definition kind_of_tag (t : N) : tkind :=
  match t with
  | 1 => TScalar KU8 | 2 => TScalar KU16 | 3 => TScalar KU32 | 4 => TScalar KU64 | 5 => TScalar KU128
  | 6 => TScalar KI8 | 7 => TScalar KI16 | 8 => TScalar KI32 | 9 => TScalar KI64 | 10 => TScalar KI128
  | 11 => TScalar KF32 | 12 => TScalar KF64 | 13 => TScalar KC64 | 14 => TScalar KR64
  | 15 => TScalar KString | 16 => TScalar KBool | 18 => TScalar KIndex
  | 21 => TMatrix KU8 | 22 => TMatrix KU16 | 23 => TMatrix KU32 | 24 => TMatrix KU64 | 25 => TMatrix KU128
  | 26 => TMatrix KI8 | 27 => TMatrix KI16 | 28 => TMatrix KI32 | 29 => TMatrix KI64 | 30 => TMatrix KI128
  | 31 => TMatrix KF32 | 32 => TMatrix KF64 | 33 => TMatrix KC64 | 34 => TMatrix KR64 | 35 => TMatrix KBool
  | 36 => TMatrix KString | 37 => TMatrix KIndex
  | 42 | 45 => TOpaque          (* Table, Set: decoded by the implementation, not modelled *)
  | _ => TUnsupported           (* every other tag: UnsupportedConstantType *)
  end%N.

Definition tag_of_kind (v : cval) : N :=
  match v with
  | CScalar k _ =>
      match k with
      | KU8 => 1 | KU16 => 2 | KU32 => 3 | KU64 => 4 | KU128 => 5 | KI8 => 6 | KI16 => 7 | KI32 => 8 | KI64 => 9
      | KI128 => 10 | KF32 => 11 | KF64 => 12 | KC64 => 13 | KR64 => 14 | KString => 15 | KBool => 16 | KIndex => 18
      end
  | CMatrix k _ _ _ =>
      match k with
      | KU8 => 21 | KU16 => 22 | KU32 => 23 | KU64 => 24 | KU128 => 25 | KI8 => 26 | KI16 => 27 | KI32 => 28
      | KI64 => 29 | KI128 => 30 | KF32 => 31 | KF64 => 32 | KC64 => 33 | KR64 => 34 | KBool => 35 | KString => 36
      | KIndex => 37
      end
  end%N.

Definition decode_tagged (tag : N) (data : bytes) : dres cval :=
  match kind_of_tag tag with
  | TScalar k => decode_scalar k data
  | TMatrix k => decode_matrix k data
  | TOpaque => DUnknown
  | TUnsupported => DErr
  end.

(* ---- one constant-table entry against the blob and the type section ---- *)
Definition decode_entry (types : list tentry) (blob : bytes) (e : list N) : dres cval :=
  match e with
  | [type_id; enc; align; _; _; offset; length] =>
      if negb (enc =? 1)%N then DErr                                         (* ConstEncoding::Inline *)
      else if (2 ^ 64 <=? offset + length)%N then DErr                        (* checked_add *)
      else if (N.of_nat (List.length blob) <? offset + length)%N then DErr    (* end > blob_len *)
      else if (align =? 0)%N || negb (offset mod align =? 0)%N then DErr      (* check_alignment *)
      else
        let data := firstn (N.to_nat length) (skipn (N.to_nat offset) blob) in
        if (N.of_nat (List.length types) <=? type_id)%N then DErr            (* types.entries.get(type_id) *)
        else match nth_error types (N.to_nat type_id) with
             | Some t => decode_tagged (fst t) data
             | None => DErr
             end
  | _ => DErr
  end.

(* decode_const_entries: entries in order, the first error or panic ends the run.
   Result: the values decoded so far (None where the kind is opaque to the model) and how the run ended. *)
Inductive run_end := REnd | RErr | RPanic.

Fixpoint decode_consts_from (types : list tentry) (blob : bytes) (es : list (list N)) : list (option cval) * run_end :=
  match es with
  | [] => ([], REnd)
  | e :: es' =>
      match decode_entry types blob e with
      | DErr => ([], RErr)
      | DPanic => ([], RPanic)
      | DOk v => let '(vs, x) := decode_consts_from types blob es' in (Some v :: vs, x)
      | DUnknown => let '(vs, x) := decode_consts_from types blob es' in (None :: vs, x)
      end
  end.

Definition decode_consts (p : program) : list (option cval) * run_end :=
  decode_consts_from (p_types p) (p_blob p) (p_consts p).

(* ---- well-formed values (what write_le is ever applied to) ---- *)
Definition wf_sval (k : skind) (v : sval) : bool :=
  match k, v with
  | KBool, VB _ => true
  | KString, VS s => (N.of_nat (List.length s) <? 2 ^ 32)%N && bytesb s && utf8_valid s
  | KR64, VP n d => in_i64 n && in_i64 d && (0 <? d) && (Z.gcd n d =? 1)
  | KC64, VP a b => (0 <=? a) && (a <? 2 ^ 64) && (0 <=? b) && (b <? 2 ^ 64)
  | (KBool | KString | KR64 | KC64), _ => false
  | _, VZ z =>
      if ksigned k then (- 2 ^ (8 * Z.of_nat (kwidth k) - 1) <=? z) && (z <? 2 ^ (8 * Z.of_nat (kwidth k) - 1))
      else (0 <=? z) && (z <? 2 ^ (8 * Z.of_nat (kwidth k)))
  | _, _ => false
  end.

Definition wf_cval (v : cval) : bool :=
  match v with
  | CScalar k x => wf_sval k x
  | CMatrix k rows cols elems =>
      (1 <=? rows)%N && (rows <? 2 ^ 32)%N && (1 <=? cols)%N && (cols <? 2 ^ 32)%N
      && (N.of_nat (List.length elems) =? rows * cols)%N && forallb (wf_sval k) elems
  end.
