(* C07 — byte-level model of the bytecode container (src/core/src/program/program.rs,
   program/compiler/sections.rs): little-endian fields, the fixed-size header,
   the instruction stream codec, constant-table entries, and a bounds-checked
   loader for header + sections.  Executable definitions only. *)
From Coq Require Import List NArith Arith Bool.
From MechV Require Import Model.Crc32.
Import ListNotations.
Open Scope N_scope.

Definition byte := N.
Definition bytes := list N.

(* ---------- little-endian integers ---------- *)
Fixpoint le (k : nat) (v : N) : bytes :=
  match k with
  | O => []
  | S k' => (v mod 256) :: le k' (v / 256)
  end.

Fixpoint unle (l : bytes) : N :=
  match l with
  | [] => 0
  | b :: r => b + 256 * unle r
  end.

Definition is_byte (b : N) : bool := b <? 256.

(* take exactly n bytes, or fail: no defaults, no padding *)
Definition take (n : nat) (l : bytes) : option (bytes * bytes) :=
  if Nat.leb n (List.length l) then Some (firstn n l, skipn n l) else None.

(* slice [off, off+len) of a buffer, with explicit bounds check *)
Definition slice (off len : nat) (l : bytes) : option bytes :=
  if Nat.leb (off + len) (List.length l) then Some (firstn len (skipn off l)) else None.

(* ---------- instructions ---------- *)
Inductive instr : Type :=
| IConstLoad (dst cid : N)
| INullOp (f dst : N)
| IUnOp (f dst src : N)
| IBinOp (f dst lhs rhs : N)
| ITernOp (f dst a b c : N)
| IQuadOp (f dst a b c d : N)
| IVarArg (f dst : N) (args : list N)
| IRet (src : N).

Definition OP_CONSTLOAD := 1.   (* 0x01 *)
Definition OP_NULLOP := 16.     (* 0x10 *)
Definition OP_UNOP := 32.       (* 0x20 *)
Definition OP_BINOP := 48.      (* 0x30 *)
Definition OP_TERNOP := 64.     (* 0x40 *)
Definition OP_QUADOP := 80.     (* 0x50 *)
Definition OP_VARARG := 96.     (* 0x60 *)
Definition OP_RETURN := 255.    (* 0xFF *)

Definition encode_instr (i : instr) : bytes :=
  match i with
  | IConstLoad dst cid => OP_CONSTLOAD :: le 4 dst ++ le 4 cid
  | INullOp f dst => OP_NULLOP :: le 8 f ++ le 4 dst
  | IUnOp f dst src => OP_UNOP :: le 8 f ++ le 4 dst ++ le 4 src
  | IBinOp f dst l r => OP_BINOP :: le 8 f ++ le 4 dst ++ le 4 l ++ le 4 r
  | ITernOp f dst a b c => OP_TERNOP :: le 8 f ++ le 4 dst ++ le 4 a ++ le 4 b ++ le 4 c
  | IQuadOp f dst a b c d => OP_QUADOP :: le 8 f ++ le 4 dst ++ le 4 a ++ le 4 b ++ le 4 c ++ le 4 d
  | IVarArg f dst args => OP_VARARG :: le 8 f ++ le 4 dst ++ le 4 (N.of_nat (List.length args)) ++ flat_map (le 4) args
  | IRet src => OP_RETURN :: le 4 src
  end.

Definition encode_instrs (is : list instr) : bytes := flat_map encode_instr is.

Inductive res (A : Type) : Type := Ok (a : A) | Err | OutOfFuel.
Arguments Ok {A} _.
Arguments Err {A}.
Arguments OutOfFuel {A}.

(* read n little-endian u32 values *)
Fixpoint take_u32s (n : nat) (l : bytes) : option (list N * bytes) :=
  match n with
  | O => Some ([], l)
  | S n' =>
      match take 4 l with
      | Some (w, r) =>
          match take_u32s n' r with
          | Some (ws, r') => Some (unle w :: ws, r')
          | None => None
          end
      | None => None
      end
  end.

(* fields: list of widths -> list of values *)
Fixpoint take_fields (ws : list nat) (l : bytes) : option (list N * bytes) :=
  match ws with
  | [] => Some ([], l)
  | w :: ws' =>
      match take w l with
      | Some (f, r) =>
          match take_fields ws' r with
          | Some (fs, r') => Some (unle f :: fs, r')
          | None => None
          end
      | None => None
      end
  end.

(* one instruction; mirrors decode_instructions: fewer than 8 remaining bytes is an
   error before the opcode is even looked at; VarArg's count is bounded by what is left
   (the model never requests more than the stream holds). *)
Definition decode_instr (l : bytes) : option (instr * bytes) :=
  if Nat.ltb (List.length l) 8 then None else
  match l with
  | [] => None
  | op :: r =>
      if op =? OP_CONSTLOAD then
        match take_fields [4;4]%nat r with Some ([d; c], r') => Some (IConstLoad d c, r') | _ => None end
      else if op =? OP_RETURN then
        match take_fields [4]%nat r with Some ([s], r') => Some (IRet s, r') | _ => None end
      else if op =? OP_NULLOP then
        match take_fields [8;4]%nat r with Some ([f; d], r') => Some (INullOp f d, r') | _ => None end
      else if op =? OP_UNOP then
        match take_fields [8;4;4]%nat r with Some ([f; d; s], r') => Some (IUnOp f d s, r') | _ => None end
      else if op =? OP_BINOP then
        match take_fields [8;4;4;4]%nat r with Some ([f; d; a; b], r') => Some (IBinOp f d a b, r') | _ => None end
      else if op =? OP_TERNOP then
        match take_fields [8;4;4;4;4]%nat r with Some ([f; d; a; b; c], r') => Some (ITernOp f d a b c, r') | _ => None end
      else if op =? OP_QUADOP then
        match take_fields [8;4;4;4;4;4]%nat r with Some ([f; d; a; b; c; e], r') => Some (IQuadOp f d a b c e, r') | _ => None end
      else if op =? OP_VARARG then
        match take_fields [8;4;4]%nat r with
        | Some ([f; d; n], r') =>
            if N.leb (4 * n) (N.of_nat (List.length r')) then
              match take_u32s (N.to_nat n) r' with
              | Some (args, r'') => Some (IVarArg f d args, r'')
              | None => None
              end
            else None
        | _ => None
        end
      else None
  end.

Fixpoint decode_instrs (fuel : nat) (l : bytes) : res (list instr) :=
  match l with
  | [] => Ok []
  | _ =>
      match fuel with
      | O => OutOfFuel
      | S f =>
          match decode_instr l with
          | Some (i, r) =>
              match decode_instrs f r with
              | Ok is => Ok (i :: is)
              | e => e
              end
          | None => Err
          end
      end
  end.

Definition wf_instr (i : instr) : bool :=
  let u32 x := x <? 2 ^ 32 in
  let u64 x := x <? 2 ^ 64 in
  match i with
  | IConstLoad d c => u32 d && u32 c
  | INullOp f d => u64 f && u32 d
  | IUnOp f d s => u64 f && u32 d && u32 s
  | IBinOp f d a b => u64 f && u32 d && u32 a && u32 b
  | ITernOp f d a b c => u64 f && u32 d && u32 a && u32 b && u32 c
  | IQuadOp f d a b c e => u64 f && u32 d && u32 a && u32 b && u32 c && u32 e
  | IVarArg f d args => u64 f && u32 d && (N.of_nat (List.length args) <? 2 ^ 32) && forallb u32 args
  | IRet s => u32 s
  end.

Definition is_ret (i : instr) : bool := match i with IRet _ => true | _ => false end.

(* ---------- header ---------- *)
(* field widths in the order ByteCodeHeader::write_to writes them (magic as one 4-byte field) *)
Definition header_widths : list nat :=
  [4; 1; 2; 2; 4; 4; 4; 8; 4; 8; 4; 8; 8; 8; 8; 8; 8; 8; 8; 8; 8; 4]%nat.
Definition HEADER_SIZE : nat := fold_right Nat.add 0%nat header_widths.

Definition header := list N.   (* one value per field, in write order *)

Fixpoint encode_fields (ws : list nat) (vs : list N) : bytes :=
  match ws, vs with
  | w :: ws', v :: vs' => le w v ++ encode_fields ws' vs'
  | _, _ => []
  end.

Definition encode_header (h : header) : bytes := encode_fields header_widths h.
Definition decode_header (l : bytes) : option header :=
  match take_fields header_widths l with Some (h, _) => Some h | None => None end.

Fixpoint wf_fields (ws : list nat) (vs : list N) : bool :=
  match ws, vs with
  | [], [] => true
  | w :: ws', v :: vs' => (v <? 2 ^ (8 * N.of_nat w)) && wf_fields ws' vs'
  | _, _ => false
  end.

Definition MAGIC : N := unle [77; 69; 67; 72].   (* "MECH" *)

(* named accessors (0-based positions in write order) *)
Definition hfield (h : header) (k : nat) : N := nth k h 0.
Definition h_magic h := hfield h 0.
Definition h_const_count h := hfield h 10.
Definition h_const_tbl_off h := hfield h 11.
Definition h_const_tbl_len h := hfield h 12.
Definition h_const_blob_off h := hfield h 13.
Definition h_const_blob_len h := hfield h 14.
Definition h_symbols_len h := hfield h 15.
Definition h_symbols_off h := hfield h 16.
Definition h_instr_off h := hfield h 17.
Definition h_instr_len h := hfield h 18.
Definition h_dict_off h := hfield h 19.
Definition h_dict_len h := hfield h 20.

(* ---------- constant table entries: 24 bytes each ---------- *)
Definition const_entry_widths : list nat := [4; 1; 1; 1; 1; 8; 8]%nat.
Fixpoint decode_const_entries (n : nat) (l : bytes) : option (list (list N)) :=
  match n with
  | O => Some []
  | S n' =>
      match take_fields const_entry_widths l with
      | Some (e, r) => match decode_const_entries n' r with Some es => Some (e :: es) | None => None end
      | None => None
      end
  end.

(* ---------- a bounds-checked loader for header, constant table and instructions ----------
   Returns the decoded parts and the ledger of buffer sizes it asked for: every
   request is checked against the file length first. *)
Record loaded := { l_header : header; l_consts : list (list N); l_blob : bytes; l_instrs : list instr }.

Definition section (file : bytes) (off len : N) : option bytes :=
  if (off =? 0) || (len =? 0) then Some []
  else slice (N.to_nat off) (N.to_nat len) (firstn (List.length file - 4) file).

Definition load (file : bytes) : res loaded * list nat :=
  if negb (verify file) then (Err, [])
  else
    match decode_header file with
    | None => (Err, [HEADER_SIZE])
    | Some h =>
        if negb (h_magic h =? MAGIC) then (Err, [HEADER_SIZE]) else
        let n := List.length file in
        (* every section must lie inside the file: checked BEFORE anything is allocated *)
        let fits off len := (off =? 0) || (len =? 0) || (N.leb (off + len) (N.of_nat (n - 4))) in
        if negb (fits (h_const_tbl_off h) (h_const_tbl_len h) && fits (h_const_blob_off h) (h_const_blob_len h)
                 && fits (h_instr_off h) (h_instr_len h) && fits (h_symbols_off h) (h_symbols_len h)
                 && fits (h_dict_off h) (h_dict_len h))
        then (Err, [HEADER_SIZE])
        else
          let req off len := if (off =? 0) || (len =? 0) then 0%nat else N.to_nat len in
          let ledger := [HEADER_SIZE; req (h_const_tbl_off h) (h_const_tbl_len h);
                         req (h_const_blob_off h) (h_const_blob_len h); req (h_instr_off h) (h_instr_len h)] in
          match section file (h_const_tbl_off h) (h_const_tbl_len h),
                section file (h_const_blob_off h) (h_const_blob_len h),
                section file (h_instr_off h) (h_instr_len h) with
          | Some tbl, Some blob, Some ib =>
              if N.ltb (N.of_nat (List.length tbl)) (24 * h_const_count h) then (Err, ledger) else
              match decode_const_entries (N.to_nat (h_const_count h)) tbl, decode_instrs (S (List.length ib)) ib with
              | Some cs, Ok is => (Ok {| l_header := h; l_consts := cs; l_blob := blob; l_instrs := is |}, ledger)
              | _, _ => (Err, ledger)
              end
          | _, _, _ => (Err, ledger)
          end
    end.
