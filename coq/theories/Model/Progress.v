(* C09 (deepening) — progress analysis of the real parser's grammar.  Executable definitions only.

   The translator translators/parser_grammar.py turns every parser function of /repo/src/syntax/src/*.rs into one
   entry of `Gen.ParserGrammar.grammar : list (string * pexp)`.  This file defines

   (1) the AST.  `pexp` is a parser (input -> result), `stmt` is the body of a function / closure in continuation
       form over *position variables*: `SApp p x y e kok kerr kfail` runs parser p on the input state held by x;
       on Ok the rest is bound to y and kok continues, on Err::Error / Err::Failure the error's remaining input is
       bound to e and kerr / kfail continue (kfail = None: same as kerr); `SReturn m x` returns Ok / Err / Failure /
       "the result as it is" at the position of x.  `SGuard nom site y a k` compares the length of the input left at y
       with the length at the entry of the enclosing function: equal -> a, otherwise k.  With nom = true it is nom 7's
       `if i1.input_len() == len { return Err(Err::Error(..)) }` inside many0 / many1 / many_till / separated_list0/1;
       with nom = false it is a progress check written in the source (mechdown.rs::body).
       nom's repetitions and the hand-written `loop`s are *recursive entries* of the grammar, so the only source of
       non-termination in the semantics is recursion, and "every loop makes progress" = "no cycle of calls without
       consumption".  The derived forms PSeq / PAlt / POpt / PPeek / PNot / PCut spell out nom's tuple / alt / opt /
       peek / not / cut in the core forms.
   (2) the semantics `evalp / evals`: a fuel (= recursion depth) evaluator over an abstract input (list of graphemes).
       Primitive leaves (ParseString::consume_one & co.), unknown nodes and opaque conditions are ORACLES: arbitrary functions
       constrained only by `oracle_ok` (a result is a suffix of the input; a leaf marked consuming returns a strict
       suffix on success).  Unknown results and conditions may depend on the evaluation depth as well, i.e. they are
       not assumed to be functions of the position.
   (3) the analysis: `nullp / nulls` (may succeed without consuming, given the nullability `nu` of the callees),
       `fcallsp / fcallss` (the functions that can be called before anything is consumed), `guardsp / guardss`
       (nom guards that are not shown to be dead), and the driver `analyse`, which computes `nu` and a rank for every
       entry by fixpoint iteration and lists what it cannot justify.

   Proofs: Proofs/ProgressP.v. *)
From Coq Require Import List Arith String Ascii Bool PArith FMapPositive.
Import ListNotations.
Open Scope list_scope.

(* finite maps keyed by strings, for the fixpoint computations only (no theorem depends on their behaviour: the
   theorems hold for ANY nu / rk that pass the checks): a string is turned into a positive, 8 bits per character *)
Module SM.
  Definition bit (b : bool) (p : positive) : positive := if b then xI p else xO p.
  Fixpoint key (s : string) : positive :=
    match s with
    | EmptyString => xH
    | String (Ascii b0 b1 b2 b3 b4 b5 b6 b7) s' =>
        bit b0 (bit b1 (bit b2 (bit b3 (bit b4 (bit b5 (bit b6 (bit b7 (key s'))))))))
    end.
  Definition t (A : Type) : Type := PositiveMap.t A.
  Definition empty (A : Type) : t A := PositiveMap.empty A.
  Definition add {A} (k : string) (v : A) (m : t A) : t A := PositiveMap.add (key k) v m.
  Definition find {A} (k : string) (m : t A) : option A := PositiveMap.find (key k) m.
  Definition mem {A} (k : string) (m : t A) : bool := PositiveMap.mem (key k) m.
End SM.

(* ====================================================================== *)
(* (1) syntax                                                              *)
(* ====================================================================== *)

Inductive rmode : Type := AsOk | AsErr | AsFail | AsIs.

Inductive pexp : Type :=
| PLeaf (name : string) (consuming : bool)
| PUnknown (site : string)
| PCall (f : string)
| PEof
| PAltBest (flags : list bool) (alts : list pexp)
| PBlock (s : stmt)
with stmt : Type :=
| SReturn (m : rmode) (x : nat)
| SApp (p : pexp) (x y e : nat) (kok kerr : stmt) (kfail : option stmt)
| SIf (site : string) (a b : stmt)
| SGuard (nom : bool) (site : string) (y : nat) (a k : stmt)
| SUnknown (site : string)
| SPanic (site : string).             (* panic!() / unreachable!() / unwrap() on an error: no result at all *)

(* nom::sequence::tuple / pair / preceded / delimited ...: each parser on the rest of the previous one, `?` on errors *)
Fixpoint seq_stmt (l : list pexp) (x v : nat) : stmt :=
  match l with
  | [] => SReturn AsOk x
  | p :: l' => SApp p x v (S v) (seq_stmt l' v (S (S v))) (SReturn AsIs (S v)) None
  end.
Definition PSeq (l : list pexp) : pexp := PBlock (seq_stmt l 0 1).

(* nom::branch::alt: alternatives in order on the same input; Err::Error -> next one, Err::Failure / Ok -> returned;
   when all fail the error returned is one of the alternatives' errors (ParseError::or picks by cause range: modelled
   as an opaque choice) *)
Fixpoint pick_err (site : string) (es : list nat) : stmt :=
  match es with
  | [] => SReturn AsErr 0
  | [e] => SReturn AsIs e
  | e :: es' => SIf site (SReturn AsIs e) (pick_err site es')
  end.
Fixpoint alt_stmt (site : string) (l : list pexp) (v : nat) (errs : list nat) : stmt :=
  match l with
  | [] => pick_err site errs
  | p :: l' => SApp p 0 v (S v) (SReturn AsOk v) (alt_stmt site l' (S (S v)) (S v :: errs)) (Some (SReturn AsIs (S v)))
  end.
Definition PAlt (site : string) (l : list pexp) : pexp := PBlock (alt_stmt site l 1 []).

(* nom::combinator::opt / peek / not / cut *)
Definition POpt (p : pexp) : pexp := PBlock (SApp p 0 1 2 (SReturn AsOk 1) (SReturn AsOk 0) (Some (SReturn AsIs 2))).
Definition PPeek (p : pexp) : pexp := PBlock (SApp p 0 1 2 (SReturn AsOk 0) (SReturn AsIs 2) None).
Definition PNot (p : pexp) : pexp := PBlock (SApp p 0 1 2 (SReturn AsErr 0) (SReturn AsOk 0) (Some (SReturn AsIs 2))).
Definition PCut (p : pexp) : pexp := PBlock (SApp p 0 1 2 (SReturn AsOk 1) (SReturn AsFail 2) (Some (SReturn AsIs 2))).

Definition grammar_t : Type := list (string * pexp).

Fixpoint lookup (f : string) (G : grammar_t) : option pexp :=
  match G with
  | [] => None
  | (g, b) :: G' => if String.eqb f g then Some b else lookup f G'
  end.

(* ====================================================================== *)
(* (2) semantics                                                           *)
(* ====================================================================== *)

Definition input : Type := list nat.             (* the graphemes left to parse; what a grapheme is does not matter *)

Inductive res : Type := ROk (i : input) | RErr (i : input) | RFail (i : input) | RPanic.
Definition pos (r : res) : input := match r with ROk i => i | RErr i => i | RFail i => i | RPanic => [] end.
Definition is_ok (r : res) : bool := match r with ROk _ => true | _ => false end.

Record oracle : Type := {
  o_leaf : string -> bool -> input -> res;       (* name, consuming flag, input *)
  o_unk  : string -> nat -> input -> res;        (* site, depth, input *)
  o_cond : string -> nat -> input -> bool        (* site, depth, entry input of the enclosing function *)
}.

Definition env : Type := nat -> res.
Definition upd (r : env) (x : nat) (v : res) : env := fun z => if Nat.eqb z x then v else r z.
Definition retv (m : rmode) (v : res) : res :=
  match v with
  | RPanic => RPanic
  | _ => match m with AsOk => ROk (pos v) | AsErr => RErr (pos v) | AsFail => RFail (pos v) | AsIs => v end
  end.

Fixpoint all_some {A} (l : list (option A)) : option (list A) :=
  match l with
  | [] => Some []
  | None :: _ => None
  | Some a :: l' => match all_some l' with Some r => Some (a :: r) | None => None end
  end.

(* lib.rs::alt_best: every alternative is run on the same input; the success that got furthest wins unless a Failure got
   at least as far; a success of an alternative labelled "mech_code" (flag) is returned at once; without successes the
   furthest Failure, then the furthest Error; `>` on cursors = `<` on the lengths of the rests *)
Definition better (j : input) (b : option input) : option input :=
  match b with
  | None => Some j
  | Some k => if List.length j <? List.length k then Some j else Some k
  end.
Definition ab_final (i : input) (bs bf be : option input) : res :=
  match bs with
  | Some s => match bf with
              | Some f => if List.length s <? List.length f then ROk s else RFail f
              | None => ROk s
              end
  | None => match bf with
            | Some f => RFail f
            | None => match be with Some e => RErr e | None => RErr i end
            end
  end.
Fixpoint ab_scan (i : input) (fl : list bool) (rs : list res) (bs bf be : option input) : res :=
  match rs with
  | [] => ab_final i bs bf be
  | r :: rs' =>
      match r with
      | ROk j => if hd false fl then ROk j else ab_scan i (tl fl) rs' (better j bs) bf be
      | RFail j => ab_scan i (tl fl) rs' bs (better j bf) be
      | RErr j => ab_scan i (tl fl) rs' bs bf (better j be)
      | RPanic => RPanic
      end
  end.

(* gd site = true: nom's guard at that repetition as it is; false: the same parser with that guard removed *)
Definition all_on : string -> bool := fun _ => true.
Fixpoint evalp (O : oracle) (G : grammar_t) (gd : string -> bool) (n : nat) (p : pexp) (i : input) {struct n} : option res :=
  match n with
  | 0 => None
  | S n' =>
      match p with
      | PLeaf nm c => Some (o_leaf O nm c i)
      | PUnknown s => Some (o_unk O s n' i)
      | PCall f => match lookup f G with
                   | Some b => evalp O G gd n' b i
                   | None => Some (RErr i)
                   end
      | PEof => Some (match i with [] => ROk i | _ :: _ => RErr i end)
      | PAltBest fl l =>
          match all_some (map (fun q => evalp O G gd n' q i) l) with
          | Some rs => Some (ab_scan i fl rs None None None)
          | None => None
          end
      | PBlock s => evals O G gd n' s i (fun _ => ROk i)
      end
  end
with evals (O : oracle) (G : grammar_t) (gd : string -> bool) (n : nat) (s : stmt) (e0 : input) (r : env) {struct n} : option res :=
  match n with
  | 0 => None
  | S n' =>
      match s with
      | SReturn m x => Some (retv m (r x))
      | SApp p x y e kok kerr kfail =>
          match evalp O G gd n' p (pos (r x)) with
          | None => None
          | Some (ROk j) => evals O G gd n' kok e0 (upd r y (ROk j))
          | Some (RErr j) => evals O G gd n' kerr e0 (upd r e (RErr j))
          | Some (RFail j) => evals O G gd n' (match kfail with Some kf => kf | None => kerr end) e0 (upd r e (RFail j))
          | Some RPanic => Some RPanic
          end
      | SIf site a b => if o_cond O site n' e0 then evals O G gd n' a e0 r else evals O G gd n' b e0 r
      | SGuard nom site y a k =>
          if nom && negb (gd site) then evals O G gd n' k e0 r
          else if List.length (pos (r y)) =? List.length e0 then evals O G gd n' a e0 r
          else evals O G gd n' k e0 r
      | SUnknown site => Some (o_unk O site n' e0)
      | SPanic _ => Some RPanic
      end
  end.

(* ====================================================================== *)
(* (3) analysis                                                            *)
(* ====================================================================== *)

(* abstract value of a position variable: (known to be strictly shorter than the entry input, may hold an Ok result) *)
Definition aval : Type := (bool * bool)%type.
Definition aenv : Type := nat -> aval.
Definition a0 : aenv := fun _ => (false, true).
Definition aupd (a : aenv) (x : nat) (v : aval) : aenv := fun z => if Nat.eqb z x then v else a z.
Definition a_ok (a : aenv) (x y : nat) (pnull : bool) : aenv := aupd a y (fst (a x) || negb pnull, true).
Definition a_err (a : aenv) (x e : nat) : aenv := aupd a e (fst (a x), false).
Definition a_cons (a : aenv) (y : nat) : aenv := aupd a y (true, snd (a y)).

(* may the parser succeed without consuming input?  nu: the answer for the entries of the grammar *)
Fixpoint nullp (nu : string -> bool) (p : pexp) : bool :=
  match p with
  | PLeaf _ c => negb c
  | PUnknown _ => true
  | PCall f => nu f
  | PEof => true
  | PAltBest _ l => existsb (nullp nu) l
  | PBlock s => nulls nu a0 s
  end
with nulls (nu : string -> bool) (a : aenv) (s : stmt) : bool :=
  match s with
  | SReturn m x => match m with
                | AsOk => negb (fst (a x))
                | AsIs => negb (fst (a x)) && snd (a x)
                | _ => false
                end
  | SApp p x y e kok kerr kfail =>
      nulls nu (a_ok a x y (nullp nu p)) kok
      || nulls nu (a_err a x e) kerr
      || match kfail with Some kf => nulls nu (a_err a x e) kf | None => false end
  | SIf _ s1 s2 => nulls nu a s1 || nulls nu a s2
  | SGuard _ _ y s1 s2 => nulls nu a s1 || nulls nu (a_cons a y) s2
  | SUnknown _ => true
  | SPanic _ => false
  end.

(* the entries that can be called while nothing has been consumed since the entry of the enclosing function *)
Fixpoint fcallsp (nu : string -> bool) (p : pexp) : list string :=
  match p with
  | PCall f => [f]
  | PAltBest _ l => flat_map (fcallsp nu) l
  | PBlock s => fcallss nu a0 s
  | _ => []
  end
with fcallss (nu : string -> bool) (a : aenv) (s : stmt) : list string :=
  match s with
  | SApp p x y e kok kerr kfail =>
      (if fst (a x) then [] else fcallsp nu p)
      ++ fcallss nu (a_ok a x y (nullp nu p)) kok
      ++ fcallss nu (a_err a x e) kerr
      ++ match kfail with Some kf => fcallss nu (a_err a x e) kf | None => [] end
  | SIf _ s1 s2 => fcallss nu a s1 ++ fcallss nu a s2
  | SGuard _ _ y s1 s2 => fcallss nu a s1 ++ fcallss nu (a_cons a y) s2
  | _ => []
  end.

(* nom guards whose position is not shown to be strictly shorter than the entry: they may fire (a spurious
   Err::Error(Many0 / Many1 / ManyTill / SeparatedList), not a hang) *)
Fixpoint guardsp (nu : string -> bool) (p : pexp) : list string :=
  match p with
  | PAltBest _ l => flat_map (guardsp nu) l
  | PBlock s => guardss nu a0 s
  | _ => []
  end
with guardss (nu : string -> bool) (a : aenv) (s : stmt) : list string :=
  match s with
  | SApp p x y e kok kerr kfail =>
      guardsp nu p
      ++ guardss nu (a_ok a x y (nullp nu p)) kok
      ++ guardss nu (a_err a x e) kerr
      ++ match kfail with Some kf => guardss nu (a_err a x e) kf | None => [] end
  | SIf _ s1 s2 => guardss nu a s1 ++ guardss nu a s2
  | SGuard nom site y s1 s2 =>
      (if nom && negb (fst (a y)) then [site] else [])
      ++ guardss nu a s1 ++ guardss nu (a_cons a y) s2
  | _ => []
  end.

(* sizes (for the depth bound) *)
Fixpoint sizep (p : pexp) : nat :=
  match p with
  | PAltBest _ l => S (list_sum (map sizep l))
  | PBlock s => S (sizes s)
  | _ => 1
  end
with sizes (s : stmt) : nat :=
  match s with
  | SApp p _ _ _ kok kerr kfail => S (sizep p + sizes kok + sizes kerr + match kfail with Some kf => sizes kf | None => 0 end)
  | SIf _ a b => S (sizes a + sizes b)
  | SGuard _ _ _ a k => S (sizes a + sizes k)
  | _ => 1
  end.

(* unknown nodes (reported as evidence) *)
Fixpoint unkp (p : pexp) : list string :=
  match p with
  | PUnknown s => [s]
  | PAltBest _ l => flat_map unkp l
  | PBlock s => unks s
  | _ => []
  end
with unks (s : stmt) : list string :=
  match s with
  | SApp p _ _ _ kok kerr kfail => unkp p ++ unks kok ++ unks kerr ++ match kfail with Some kf => unks kf | None => [] end
  | SIf _ a b => unks a ++ unks b
  | SGuard _ _ _ a k => unks a ++ unks k
  | SUnknown s => [s]
  | _ => []
  end.

(* ---- the facts a pair (nu, rk) must satisfy; everything below only *computes* a candidate pair ---- *)

(* nu is consistent: an entry declared non-nullable has a body that is non-nullable given nu *)
Definition nu_bad (nu : string -> bool) (G : grammar_t) : list string :=
  flat_map (fun fb => if negb (nu (fst fb)) && nullp nu (snd fb) then [fst fb] else []) G.

(* rk is a ranking: every call that can happen before consumption goes to an entry of smaller rank *)
Definition bad_calls (rk : string -> nat) (r : nat) (l : list string) : list string :=
  filter (fun g => negb (rk g <? r)) l.
Definition rank_bad (nu : string -> bool) (rk : string -> nat) (G : grammar_t) : list (string * string) :=
  flat_map (fun fb => map (fun g => (fst fb, g)) (bad_calls rk (rk (fst fb)) (fcallsp nu (snd fb)))) G.

Definition guards_live (nu : string -> bool) (G : grammar_t) : list string :=
  flat_map (fun fb => guardsp nu (snd fb)) G.

Definition max_rank (rk : string -> nat) (G : grammar_t) : nat := fold_right (fun fb m => Nat.max (rk (fst fb)) m) 0 G.
Definition max_size (G : grammar_t) : nat := fold_right (fun fb m => Nat.max (sizep (snd fb)) m) 0 G.

(* ---- computing nu: least fixpoint, from "nothing is nullable" upwards ---- *)
Definition look_b (m : SM.t bool) (d : bool) (f : string) : bool := match SM.find f m with Some b => b | None => d end.
Definition look_n (m : SM.t nat) (f : string) : nat := match SM.find f m with Some n => n | None => 0 end.

Definition nu_step (G : grammar_t) (m : SM.t bool) : SM.t bool * bool :=
  fold_left (fun acc fb =>
               let b := nullp (look_b m true) (snd fb) in
               (SM.add (fst fb) b (fst acc), snd acc || negb (Bool.eqb b (look_b m true (fst fb)))))
            G (m, false).
Fixpoint nu_iter (k : nat) (G : grammar_t) (m : SM.t bool) : SM.t bool :=
  match k with
  | 0 => m
  | S k' => let r := nu_step G m in if snd r then nu_iter k' G (fst r) else m
  end.
Definition nu_init (G : grammar_t) : SM.t bool := fold_left (fun m fb => SM.add (fst fb) false m) G (SM.empty bool).
Definition compute_nu (G : grammar_t) : string -> bool := look_b (nu_iter (S (List.length G)) G (nu_init G)) true.

(* ---- computing rk: rank f = 1 + max rank of what f can call before consuming (longest-path iteration) ---- *)
Definition edges_of (nu : string -> bool) (G : grammar_t) : list (string * list string) :=
  map (fun fb => (fst fb, fcallsp nu (snd fb))) G.
Definition rk_step (cap : nat) (E : list (string * list string)) (m : SM.t nat) : SM.t nat * bool :=
  fold_left (fun acc fe =>
               let r := fold_right (fun g mx => Nat.max (S (look_n m g)) mx) 0 (snd fe) in
               let r := Nat.min r cap in
               (SM.add (fst fe) r (fst acc), snd acc || negb (r =? look_n m (fst fe))))
            E (m, false).
Fixpoint rk_iter (k cap : nat) (E : list (string * list string)) (m : SM.t nat) : SM.t nat :=
  match k with
  | 0 => m
  | S k' => let r := rk_step cap E m in if snd r then rk_iter k' cap E (fst r) else m
  end.
(* ranks are capped at (number of entries + 1): an entry that reaches the cap lies on or above a cycle *)
Definition compute_rk (nu : string -> bool) (G : grammar_t) : string -> nat :=
  let cap := S (List.length G) in
  look_n (rk_iter (S cap) cap (edges_of nu G) (SM.empty nat)).

(* ---- the report ---- *)
Record report : Type := {
  r_nu_bad : list string;                 (* always [] when the iteration converged *)
  r_cycles : list (string * string);      (* calls f -> g that may happen without consumption and are not ranked: loops without progress / left recursion *)
  r_guards : list string;                 (* nom guards that may fire *)
}.
Definition analyse (G : grammar_t) : report :=
  let nu := compute_nu G in
  let rk := compute_rk nu G in
  {| r_nu_bad := nu_bad nu G; r_cycles := rank_bad nu rk G; r_guards := guards_live nu G |}.

(* entries that lie on a cycle of calls-before-consumption (precise diagnosis; the ranking above flags every edge into
   such a cycle as well) *)
Fixpoint reach (k : nat) (edges : string -> list string) (todo : list string) (seen : SM.t unit) : SM.t unit :=
  match k with
  | 0 => seen
  | S k' =>
      match todo with
      | [] => seen
      | f :: todo' =>
          if SM.mem f seen then reach k' edges todo' seen
          else reach k' edges (edges f ++ todo') (SM.add f tt seen)
      end
  end.
Definition on_cycle (nu : string -> bool) (G : grammar_t) : list string :=
  let em := fold_left (fun m fb => SM.add (fst fb) (fcallsp nu (snd fb)) m) G (SM.empty (list string)) in
  let edges := fun f => match SM.find f em with Some l => l | None => [] end in
  let nedges := list_sum (map (fun fb => List.length (edges (fst fb))) G) in
  filter (fun f => SM.mem f (reach (S (nedges + List.length G)) edges (edges f) (SM.empty unit))) (map fst G).

(* replace the bodies of the listed entries by assumed leaves (name, consuming): the "cut" under which the remaining
   grammar is analysed; what is assumed about them is exactly `oracle_ok` for these leaves *)
Definition cut (assumed : list (string * bool)) (G : grammar_t) : grammar_t :=
  map (fun fb => match find (fun ab => String.eqb (fst ab) (fst fb)) assumed with
                 | Some ab => (fst fb, PLeaf (String.append "assumed:" (fst fb)) (snd ab))
                 | None => fb
                 end) G.

Definition nullable_entries (G : grammar_t) : list string :=
  let nu := compute_nu G in filter nu (map fst G).
