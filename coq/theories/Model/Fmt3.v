(* C08 — formatting a program does not change what it means.  Executable definitions only.
   (Model/Fmt2.v extended by STATE MACHINES: the specification `#name(in<k>) ⇒ <k> :=` + state list, the implementation
   `#name(in) -> :Start(args)` + state arms with transitions `->`, outputs `=>`, asynchronous transitions `~>` and guard
   lists `├ guard -> …` / `└ * -> …`, and the instance expression `#name(args)`; see the section "state machines" below.)

   Modelled subset of the Mech grammar (src/core/src/nodes.rs, src/syntax/src/{expressions,structures,
   literals,statements,functions}.rs) and of the formatter (src/syntax/src/formatter.rs, text mode):

     literals      number (opaque numeric text: integer, float, 0x/0b/0o/0d, rational, `5u8`, `1+2i`),
                   string, boolean, atom `:a`; typed literal `7<i8>`
     variables     `x`, `x<u8>`                      kinds: `<u8>` and `<[u8]:2,3>`
     formulas      every binary operator of expressions.rs (38, on the 7 precedence levels l1..l7, each level a
                   flat chain `lhs (op rhs)*` exactly as Term{lhs,rhs}), parentheses, negation `-`, not `¬`, transpose `'`
     ranges        `a..b`, `a..=b`, `a..s..b` (RangeExpression with increment)
     structures    matrix (0, 1 or many rows), set, tuple, record (fields with optional kind)
     calls         `f(a, n: b)` (positional and named arguments)
     slices        `x.a`, `x[i,j]`, `x[:,1..3]`, chains `x[1][2].a`
     statements    `~x<k> := e`, `x[..] = e`, `x[..] += e` (+= -= *= /= ^=), expression statement
     program       statements, one per line

   [fmt false] is the canonical printer: token for token what formatter.rs emits for every construct on which it
   is right, and the text the grammar requires where formatter.rs is wrong.  [fmt true] is the faithful model of
   formatter.rs including its defects (their syntactic classes are [c_multirow], [c_named], ... below):
     * Formatter::matrix prints the elements column by column, separated by blanks, without any row separator
       (a 2x3 literal becomes a 1x6 one); it indexes every row with the column count of the first row (panic on
       a shorter row);
     * Formatter::argument prints `name` and the expression without the `: ` in between;
     * Formatter::range_expression prints start, operator, terminal and *then* the increment (`1..2..10` -> `1..10..2`);
     * comparison_op prints StrictNotEqual as `=/=` (grammar: `=!=`), set_op prints Subset / Superset as `⊂` / `⊃`
       (which the grammar reads as the proper relations), vec_op prints Cross as `×` (which the grammar reads as Mul).
   Tokens: whitespace is significant in Mech (matrix elements, `x/2` vs `x / 2`), so blanks are tokens; the text of
   a token list is the concatenation of the token texts.  [parse_tok] is a recursive-descent parser over these tokens
   that follows the level table of expressions.rs (l1..l7, factor); where the grammar uses longest-match alternatives
   ([alt_best]) the model parser reads an expression first and decides by the token that follows it. *)
From Coq Require Import List Arith ZArith String Ascii Bool.
From MechV Require Import Base.Sexp Base.Obs.
Import ListNotations.
Open Scope string_scope.
Open Scope list_scope.

(* ------------------------------------------------------------------ syntax *)
Inductive binop :=
| OAnd | OOr | OXor                                                     (* l1 *)
| OEq | OSEq | OSNeq | ONeq | OGt | OGe | OLt | OLe                      (* l2 *)
| OAdd | OSub                                                           (* l3 *)
| OMul | ODiv | OMod | OMatMul | OSolve | ODot | OCross                  (* l4 *)
| OPow                                                                  (* l5 *)
| OJoin | OLJoin | ORJoin | OFJoin | OSemiJoin | OAntiJoin               (* l6 *)
| OUnion | OInter | ODiff | OCompl | OSubset | OSuperset | OPSubset | OPSuperset | OElem | ONotElem | OSymDiff. (* l7 *)

Definition op_level (o : binop) : nat :=
  match o with
  | OAnd | OOr | OXor => 1
  | OEq | OSEq | OSNeq | ONeq | OGt | OGe | OLt | OLe => 2
  | OAdd | OSub => 3
  | OMul | ODiv | OMod | OMatMul | OSolve | ODot | OCross => 4
  | OPow => 5
  | OJoin | OLJoin | ORJoin | OFJoin | OSemiJoin | OAntiJoin => 6
  | _ => 7
  end.

Inductive aop := AAdd | ASub | AMul | ADiv | AExp.

Inductive sym :=
| LP | RP | LB | RB | LC | RC | Comma | Semi | Colon | Dot | DD | DDE | Apos | Tilde | Define | Assign | NotS
| Bar | Quest | FatArrow | DArrow | BrT | BrL | LArrow | Ellip
| SOp (o : binop) | SAop (a : aop)
| SOther (s : string)      (* text outside the vocabulary of the modelled grammar (only the defective printer emits it) *)
| SPanic                   (* the formatter panics here *)
| Hash | Arrow | TArrow.   (* state machines: `#`, transition `->`, asynchronous transition `~>` *)

Inductive tok := TSp | TNl | TId (s : string) | TNum (s : string) | TStr (s : string) | TBool (b : bool) | TSym (s : sym)
| TCom (s : string).      (* a comment: the sigil `--` and the rest of the line *)

Definition op_text (o : binop) : string :=
  match o with
  | OAnd => "&&" | OOr => "||" | OXor => "⊻"
  | OEq => "⩵" | OSEq => "=:=" | OSNeq => "=!=" | ONeq => "≠" | OGt => ">" | OGe => "≥" | OLt => "<" | OLe => "≤"
  | OAdd => "+" | OSub => "-"
  | OMul => "*" | ODiv => "/" | OMod => "%" | OMatMul => "**" | OSolve => "\" | ODot => "·" | OCross => "⨯"
  | OPow => "^"
  | OJoin => "⋈" | OLJoin => "⟕" | ORJoin => "⟖" | OFJoin => "⟗" | OSemiJoin => "⋉" | OAntiJoin => "▷"
  | OUnion => "∪" | OInter => "∩" | ODiff => "∖" | OCompl => "∁" | OSubset => "⊆" | OSuperset => "⊇"
  | OPSubset => "⊊" | OPSuperset => "⊋" | OElem => "∈" | ONotElem => "∉" | OSymDiff => "Δ"
  end.

Definition aop_text (a : aop) : string :=
  match a with AAdd => "+=" | ASub => "-=" | AMul => "*=" | ADiv => "/=" | AExp => "^=" end.

Definition sym_text (s : sym) : string :=
  match s with
  | LP => "(" | RP => ")" | LB => "[" | RB => "]" | LC => "{" | RC => "}" | Comma => "," | Semi => ";" | Colon => ":"
  | Dot => "." | DD => ".." | DDE => "..=" | Apos => "'" | Tilde => "~" | Define => ":=" | Assign => "=" | NotS => "¬"
  | Bar => "|" | Quest => "?" | FatArrow => "=>" | DArrow => "⇒" | BrT => "├" | BrL => "└" | LArrow => "←" | Ellip => "…"
  | SOp o => op_text o | SAop a => aop_text a | SOther s => s | SPanic => "<panic>"
  | Hash => "#" | Arrow => "->" | TArrow => "~>"
  end.

Definition nl : string := String "010"%char EmptyString.
Definition dq : string := String """"%char EmptyString.

Definition tok_text (t : tok) : string :=
  match t with
  | TSp => " " | TNl => nl | TId s => s | TNum s => s | TStr s => (dq ++ s ++ dq)%string
  | TBool true => "true" | TBool false => "false" | TSym s => sym_text s
  | TCom s => ("--" ++ s)%string
  end.

Definition render (ts : list tok) : string := String.concat "" (map tok_text ts).

Inductive kind := KScalar (s : string) | KMatrix (s : string) (dims : list string).
Inductive lit := LNum (s : string) | LStr (s : string) | LBool (b : bool) | LAtom (s : string).

(* patterns (patterns.rs): array items are a wildcard, a literal or a variable *)
Inductive pitem := IWild | ILit (l : lit) (k : option kind) | IVar (x : string) (k : option kind).
Inductive atail := ANone | ASpread (suf : list pitem) | ARest (b : pitem).     (* [a b]   [a … z]   [h | t] *)
Inductive pat :=
| PItem (i : pitem)
| PTup (ps : list pat)                           (* (p, q) *)
| PTupS (n : string) (ps : list pat)             (* :name(p, q) *)
| PArr (pre : list pitem) (tl : atail).

Inductive ex :=
| ELit (l : lit) (k : option kind)
| EVar (x : string) (k : option kind)
| EParen (e : ex) | ENeg (e : ex) | ENot (e : ex) | ETrans (e : ex)
| ETerm (l : ex) (r : list (binop * ex))
| EMat (rows : list (list ex))
| ESet (es : list ex)
| ETup (es : list ex)
| ERec (bs : list (string * option kind * ex))
| EMap (ms : list (ex * ex))                     (* {k: v, ...};  {:} when empty *)
| ETupS (n : string) (e : ex)                    (* tuple-struct / enum value :name(e) *)
| ECall (f : string) (args : list (option string * ex))
| ESlice (x : string) (subs : list ex)          (* subs: EDot / EBrk only *)
| EDot (s : string)
| EBrk (ixs : list ex)                          (* entries: EAll, a range or a formula *)
| EAll
| ERange (a : ex) (inc : option (bool * ex)) (incl : bool) (b : ex)
| EFsm (n : string) (args : option (list (option string * ex))).   (* state-machine instance #n / #n(a, k: b): an expression, not a formula *)
   (* a..b : ERange a None false b;  a..s..=b : ERange a (Some (false, s)) true b  (flag = inclusive operator) *)

(* comprehension qualifiers *)
Inductive qual := QGen (p : pat) (e : ex) | QLet (x : string) (k : option kind) (e : ex) | QFilt (e : ex).

(* the right-hand side of a statement: an expression, or one of the forms that the model admits only here *)
Inductive rhs :=
| RExp (e : ex)
| RTable (fs : list (string * kind)) (rows : list (list ex))          (* | a<f64> b<string> | 1 "x" | 2 "y" | *)
| RMatch (src : ex) (arms : list (bool * pat * option ex * ex))        (* x? ├p, guard ⇒ e └* ⇒ e.   flag = last arm *)
| RCompr (mat : bool) (e : ex) (qs : list qual).                       (* { e | q, q }   [ e | q, q ] *)
Coercion RExp : ex >-> rhs.

(* ---- state machines (state_machines.rs).  A pattern of a state machine is patterns.rs::pattern: the leaves are
   arbitrary expressions (`n - 1u64`, `a > b`); array items are a wildcard, a literal or a variable as in [pat]. *)
Inductive fpat :=
| FWild                                           (* * *)
| FExp (e : ex)                                   (* Pattern::Expression *)
| FTup (ps : list fpat)                           (* (p, q) *)
| FTupS (n : string) (ps : list fpat)             (* :State(p, q) *)
| FArr (pre : list pitem) (tl : atail).           (* [a b]  [a … z]  [h | t] *)

(* -> p     => p     ~> p;   KOutD: an output transition that the canonical printer must write `⇒ p` (see [gchain]) *)
Inductive tkind := KNext | KOut | KAsync | KOutD.
Definition trans := (tkind * fpat)%type.
Definition guard := (bool * fpat * list trans)%type.      (* ├ cond -> p => q      flag = printed with └ *)
Inductive arm :=
| ATrans (p : fpat) (ts : list trans)             (*   :S(x) -> :T(x) => x *)
| AGuard (p : fpat) (gs : list guard).            (*   :S(x) <newline> ├ g -> …  └ g -> … *)
Definition fvar := (string * option kind)%type.   (* input / state variable  x<k>  or  x *)
Definition fstate := (bool * string * option (list fvar))%type.   (* ├ :S(x<k>, y)   └ :T     flag = last state *)

Inductive stmt :=
| SDefine (mut : bool) (x : string) (k : option kind) (e : rhs)
| SAssign (x : string) (subs : list ex) (e : rhs)
| SOpAssign (x : string) (subs : list ex) (a : aop) (e : rhs)
| SExpr (e : rhs)
| SComment (s : string)                                                (* -- text *)
| SEnum (n : string) (vs : list (string * option kind))                (* <n> := :a<k> | :b *)
| SFun (f : string) (args : list (string * kind)) (out : kind) (arms : list (bool * pat * ex))
    (* f(x<k>) => <k>  ├ p => e  └ p => e.    flag = last arm *)
| SFsmSpec (n : string) (ins : list fvar) (out : option kind) (states : list fstate)
    (* #n(x<k>, y) ⇒ <k> :=  ├ :S(a<k>)  └ :T.        flag = last state *)
| SFsmImpl (n : string) (ins : list fvar) (start : fpat) (arms : list arm).
    (* #n(x) -> :S(x)    :S(p) -> :T(e) => e    :T(p)  ├ g -> :S(e)  └ * => e. *)

Definition prog := list stmt.

(* ------------------------------------------------------------------ printers *)
(* formatter.rs spells StrictNotEqual "=/=" (grammar: "=!="), Subset "⊂" and Superset "⊃" (which the grammar reads as
   alternative spellings of the *proper* relations "⊊" / "⊋"), Cross "×" (which the grammar reads as Mul). *)
Definition opsym (impl : bool) (o : binop) : sym :=
  if impl then
    match o with
    | OSNeq => SOther "=/="
    | OSubset => SOther "⊂"
    | OSuperset => SOther "⊃"
    | OCross => SOther "×"
    | _ => SOp o
    end
  else SOp o.

Fixpoint join {A} (sep : list A) (ls : list (list A)) : list A :=
  match ls with
  | [] => []
  | [x] => x
  | x :: r => x ++ sep ++ join sep r
  end.

Definition fmt_kind (k : kind) : list tok :=
  match k with
  | KScalar s => [TSym (SOp OLt); TId s; TSym (SOp OGt)]
  | KMatrix s [] => [TSym (SOp OLt); TSym LB; TId s; TSym RB; TSym (SOp OGt)]
  | KMatrix s (d :: ds) =>
      [TSym (SOp OLt); TSym LB; TId s; TSym RB; TSym Colon; TNum d] ++ flat_map (fun x => [TSym Comma; TNum x]) ds ++ [TSym (SOp OGt)]
  end.

Definition fmt_okind (k : option kind) : list tok := match k with Some k => fmt_kind k | None => [] end.

Definition fmt_lit (l : lit) : list tok :=
  match l with
  | LNum s => [TNum s] | LStr s => [TStr s] | LBool b => [TBool b] | LAtom s => [TSym Colon; TId s]
  end.

Definition rop (incl : bool) : tok := TSym (if incl then DDE else DD).

(* column-major walk of Formatter::matrix: for col in 0..len(rows[0]) { for row in rows { row[col] } } *)
Definition col_major {A} (pan : A) (rows : list (list A)) : list A :=
  match rows with
  | [] => []
  | r0 :: _ => flat_map (fun c => map (fun row => nth c row pan) rows) (seq 0 (List.length r0))
  end.

Fixpoint fmt (i : bool) (e : ex) : list tok :=
  match e with
  | ELit l k => fmt_lit l ++ fmt_okind k
  | EVar x k => TId x :: fmt_okind k
  | EParen e => TSym LP :: fmt i e ++ [TSym RP]
  | ENeg e => TSym (SOp OSub) :: fmt i e
  | ENot e => TSym NotS :: fmt i e
  | ETrans e => fmt i e ++ [TSym Apos]
  | ETerm l r => fmt i l ++ flat_map (fun p => TSp :: TSym (opsym i (fst p)) :: TSp :: fmt i (snd p)) r
  | EMat rows =>
      if i then TSym LB :: join [TSp] (col_major [TSym SPanic] (map (map (fmt i)) rows)) ++ [TSym RB]
      else TSym LB :: join [TSym Semi; TSp] (map (fun row => join [TSp] (map (fmt i) row)) rows) ++ [TSym RB]
  | ESet es => TSym LC :: join [TSym Comma; TSp] (map (fmt i) es) ++ [TSym RC]
  | ETup es => TSym LP :: join [TSym Comma] (map (fmt i) es) ++ [TSym RP]
  | ERec bs =>
      TSym LC :: join [TSym Comma; TSp]
                   (map (fun b => TId (fst (fst b)) :: fmt_okind (snd (fst b)) ++ TSym Colon :: TSp :: fmt i (snd b)) bs) ++ [TSym RC]
  | EMap ms =>
      match ms with
      | [] => [TSym LC; TSym Colon; TSym RC]
      | _ => TSym LC :: join [TSym Comma; TSp] (map (fun m => fmt i (fst m) ++ TSym Colon :: TSp :: fmt i (snd m)) ms) ++ [TSym RC]
      end
  | ETupS n e => TSym Colon :: TId n :: TSym LP :: fmt i e ++ [TSym RP]
  | ECall f args =>
      TId f :: TSym LP ::
        join [TSym Comma; TSp]
          (map (fun a => match fst a with
                         | Some n => if i then TId n :: fmt i (snd a) else TId n :: TSym Colon :: TSp :: fmt i (snd a)
                         | None => fmt i (snd a)
                         end) args) ++ [TSym RP]
  | ESlice x subs => TId x :: flat_map (fmt i) subs
  | EDot s => [TSym Dot; TId s]
  | EBrk ixs => TSym LB :: join [TSym Comma] (map (fmt i) ixs) ++ [TSym RB]
  | EAll => [TSym Colon]
  | ERange a None incl b => fmt i a ++ rop incl :: fmt i b
  | ERange a (Some (incl1, s)) incl2 b =>
      if i then fmt i a ++ rop incl2 :: fmt i b ++ rop incl1 :: fmt i s
      else fmt i a ++ rop incl1 :: fmt i s ++ rop incl2 :: fmt i b
  | EFsm n None => [TSym Hash; TId n]
  | EFsm n (Some args) =>
      (* Formatter::fsm_instance prints a named argument as `name: e` (unlike Formatter::argument) *)
      TSym Hash :: TId n :: TSym LP ::
        join [TSym Comma; TSp]
          (map (fun a => match fst a with
                         | Some nm => TId nm :: TSym Colon :: TSp :: fmt i (snd a)
                         | None => fmt i (snd a)
                         end) args) ++ [TSym RP]
  end.

Definition fmt_subs (i : bool) (subs : list ex) : list tok := flat_map (fmt i) subs.

(* patterns: the formatter is right on all of them, one printer *)
Definition fmt_item (p : pitem) : list tok :=
  match p with
  | IWild => [TSym (SOp OMul)]
  | ILit l k => fmt_lit l ++ fmt_okind k
  | IVar x k => TId x :: fmt_okind k
  end.

Inductive apart := AI (i : pitem) | AEll | ABar.
Definition fmt_apart (a : apart) : list tok :=
  match a with AI i => fmt_item i | AEll => [TSym Ellip] | ABar => [TSym Bar] end.
Definition parts (pre : list pitem) (tl : atail) : list apart :=
  map AI pre ++ match tl with ANone => [] | ASpread suf => AEll :: map AI suf | ARest b => [ABar; AI b] end.

Fixpoint fmt_pat (p : pat) : list tok :=
  match p with
  | PItem i => fmt_item i
  | PTup ps => TSym LP :: join [TSym Comma; TSp] (map fmt_pat ps) ++ [TSym RP]
  | PTupS n ps => TSym Colon :: TId n :: TSym LP :: join [TSym Comma; TSp] (map fmt_pat ps) ++ [TSym RP]
  | PArr pre tl => TSym LB :: join [TSp] (map fmt_apart (parts pre tl)) ++ [TSym RB]
  end.

Definition fmt_field (fk : string * kind) : list tok := TId (fst fk) :: fmt_kind (snd fk).
Definition br (last : bool) : tok := TSym (if last then BrL else BrT).

Definition fmt_qual (i : bool) (q : qual) : list tok :=
  match q with
  | QGen p e => fmt_pat p ++ TSp :: TSym LArrow :: TSp :: fmt i e
  | QLet x k e => TId x :: fmt_okind k ++ TSp :: TSym Define :: TSp :: fmt i e
  | QFilt e => fmt i e
  end.

Definition fmt_marm (i : bool) (a : bool * pat * option ex * ex) : list tok :=
  let '(last, p, g, e) := a in
  br last :: fmt_pat p ++ match g with Some g => TSym Comma :: TSp :: fmt i g | None => [] end ++ TSp :: TSym DArrow :: TSp :: fmt i e.

Definition fmt_farm (i : bool) (a : bool * pat * ex) : list tok :=
  let '(last, p, e) := a in
  TSp :: TSp :: br last :: TSp :: fmt_pat p ++ TSp :: TSym FatArrow :: TSp :: fmt i e.

Definition fmt_row (i : bool) (row : list ex) : list tok := TSp :: join [TSp] (map (fmt i) row) ++ [TSp; TSym Bar].

Definition fmt_rhs (i : bool) (r : rhs) : list tok :=
  match r with
  | RExp e => fmt i e
  | RTable fs rows => TSym Bar :: TSp :: join [TSp] (map fmt_field fs) ++ TSp :: TSym Bar :: flat_map (fmt_row i) rows
  | RMatch src arms => fmt i src ++ TSym Quest :: TNl :: TNl :: join [TNl] (map (fmt_marm i) arms) ++ [TSym Dot; TNl]
  | RCompr mat e qs =>
      TSym (if mat then LB else LC) :: TSp :: fmt i e ++ TSp :: TSym Bar :: TSp ::
        join [TSym Comma; TSp] (map (fmt_qual i) qs) ++ [TSp; TSym (if mat then RB else RC)]
  end.

Definition fmt_variant (v : string * option kind) : list tok := TSym Colon :: TId (fst v) :: fmt_okind (snd v).
Definition arg_ex (a : string * kind) : option string * ex := (None, EVar (fst a) (Some (snd a))).

(* ---- state machines: Formatter::pattern / transition / guard / fsm_arm / fsm_implementation / state_definition /
   fsm_specification, text mode *)
Fixpoint fmt_fpat (i : bool) (p : fpat) : list tok :=
  match p with
  | FWild => [TSym (SOp OMul)]
  | FExp e => fmt i e
  | FTup ps => TSym LP :: join [TSym Comma; TSp] (map (fmt_fpat i) ps) ++ [TSym RP]
  | FTupS n ps => TSym Colon :: TId n :: TSym LP :: join [TSym Comma; TSp] (map (fmt_fpat i) ps) ++ [TSym RP]
  | FArr pre tl => TSym LB :: join [TSp] (map fmt_apart (parts pre tl)) ++ [TSym RB]
  end.

(* Formatter::transition prints every output transition `=>`.  In a guard, state_machines.rs::fsm_guard tries a
   statement transition `-> statement` first: after `-> x` (x an assignable target) the text ` => e` is read as the
   assignment `x = > e`, whose failure is fatal.  There the grammar needs the spelling `⇒`: the canonical printer writes
   it for the transitions marked KOutD (well-formedness puts the mark exactly there, [gchain]). *)
Definition tsym (i : bool) (k : tkind) : sym :=
  match k with KNext => Arrow | KOut => FatArrow | KAsync => TArrow | KOutD => if i then FatArrow else DArrow end.
Definition fmt_trans (i : bool) (t : trans) : list tok := TSp :: TSym (tsym i (fst t)) :: TSp :: fmt_fpat i (snd t).
Definition fmt_transs (i : bool) (ts : list trans) : list tok := flat_map (fmt_trans i) ts.

(* `    ├ cond -> …` : four blanks, the branch glyph, a blank, the condition, the transitions *)
Definition fmt_guard (i : bool) (g : guard) : list tok :=
  let '(last, c, ts) := g in
  TSp :: TSp :: TSp :: TSp :: br last :: TSp :: fmt_fpat i c ++ fmt_transs i ts.

(* Formatter::fsm_arm: the FIRST guard is printed `├ g` + newline whatever the number of guards, the last one of two or
   more `└ g` without a newline: a single guard leaves a line break in front of the arm terminator *)
Definition fmt_arm (i : bool) (a : arm) : list tok :=
  match a with
  | ATrans p ts => TSp :: TSp :: fmt_fpat i p ++ fmt_transs i ts
  | AGuard p gs =>
      TSp :: TSp :: fmt_fpat i p ++ TNl :: join [TNl] (map (fmt_guard i) gs) ++
        match gs with [_] => [TNl] | _ => [] end
  end.

Definition fmt_fvar (v : fvar) : list tok := TId (fst v) :: fmt_okind (snd v).
Definition var_arg (v : fvar) : option string * ex := (None, EVar (fst v) (snd v)).
Definition fsm_head (n : string) (ins : list fvar) : ex := EFsm n (Some (map var_arg ins)).

Definition fmt_state (s : fstate) : list tok :=
  let '(last, n, vs) := s in
  TSp :: TSp :: TSp :: TSp :: br last :: TSp :: TSym Colon :: TId n ::
    match vs with
    | Some vs => TSym LP :: join [TSym Comma; TSp] (map fmt_fvar vs) ++ [TSym RP]
    | None => []
    end.

Definition fmt_stmt (i : bool) (s : stmt) : list tok :=
  match s with
  | SDefine m x k e => (if m then [TSym Tilde] else []) ++ TId x :: fmt_okind k ++ TSp :: TSym Define :: TSp :: fmt_rhs i e
  | SAssign x subs e => TId x :: fmt_subs i subs ++ TSp :: TSym Assign :: TSp :: fmt_rhs i e
  | SOpAssign x subs a e => TId x :: fmt_subs i subs ++ TSp :: TSym (SAop a) :: TSp :: fmt_rhs i e
  | SExpr e => fmt_rhs i e
  | SComment s => [TCom s]
  | SEnum n vs =>
      TSym (SOp OLt) :: TId n :: TSym (SOp OGt) :: TSp :: TSym Define :: TSp :: join [TSp; TSym Bar; TSp] (map fmt_variant vs)
  | SFun f args out arms =>
      fmt i (ECall f (map arg_ex args)) ++ TSp :: TSym FatArrow :: TSp :: fmt_kind out ++ TNl ::
        join [TNl] (map (fmt_farm i) arms) ++ [TSym Dot]
  | SFsmSpec n ins out states =>
      fmt i (fsm_head n ins) ++
        match out with Some k => TSp :: TSym DArrow :: TSp :: fmt_kind k | None => [] end ++
        TSp :: TSym Define :: TNl :: join [TNl] (map fmt_state states) ++ [TSym Dot; TNl]
  | SFsmImpl n ins start arms =>
      fmt i (fsm_head n ins) ++ TSp :: TSym Arrow :: TSp :: fmt_fpat i start ++ TNl ::
        join [TNl] (map (fmt_arm i) arms) ++ [TSym Dot]
  end.

Definition fmt_prog (i : bool) (p : prog) : list tok := flat_map (fun s => fmt_stmt i s ++ [TNl]) p.


(* ------------------------------------------------------------------ token-level parser *)
Definition parser (A : Type) := list tok -> option (A * list tok).

(* (sep p)* with an iteration bound; total: stops at the first position where [sep p] does not apply *)
Fixpoint psep {A} (m : nat) (sepf : list tok -> option (list tok)) (p : parser A) (ts : list tok) : list A * list tok :=
  match m with
  | 0 => ([], ts)
  | S m' =>
      match sepf ts with
      | Some r => match p r with
                  | Some (x, r') => let '(xs, r'') := psep m' sepf p r' in (x :: xs, r'')
                  | None => ([], ts)
                  end
      | None => ([], ts)
      end
  end.

Definition plist1 {A} (m : nat) (sepf : list tok -> option (list tok)) (p : parser A) : parser (list A) := fun ts =>
  match p ts with
  | Some (x, r) => let '(xs, r') := psep m sepf p r in Some (x :: xs, r')
  | None => None
  end.

Definition sep_none (ts : list tok) : option (list tok) := Some ts.
Definition sep_comma (ts : list tok) := match ts with TSym Comma :: r => Some r | _ => None end.
Definition sep_comma_sp (ts : list tok) := match ts with TSym Comma :: TSp :: r => Some r | _ => None end.
Definition sep_sp (ts : list tok) := match ts with TSp :: r => Some r | _ => None end.
Definition sep_semi_sp (ts : list tok) := match ts with TSym Semi :: TSp :: r => Some r | _ => None end.

Definition pnum : parser string := fun ts => match ts with TNum d :: r => Some (d, r) | _ => None end.

(* kind-annotation (scalar and matrix kinds) *)
Definition pkind : parser kind := fun ts =>
  match ts with
  | TSym (SOp OLt) :: TId s :: TSym (SOp OGt) :: r => Some (KScalar s, r)
  | TSym (SOp OLt) :: TSym LB :: TId s :: TSym RB :: TSym (SOp OGt) :: r => Some (KMatrix s [], r)
  | TSym (SOp OLt) :: TSym LB :: TId s :: TSym RB :: TSym Colon :: TNum d :: r =>
      let '(ds, r') := psep (List.length r) sep_comma pnum r in
      match r' with TSym (SOp OGt) :: r'' => Some (KMatrix s (d :: ds), r'') | _ => None end
  | _ => None
  end.

Definition optkind (ts : list tok) : option kind * list tok :=
  match pkind ts with Some (k, r) => (Some k, r) | None => (None, ts) end.

(* one `␣op␣ operand` step of a level-k chain *)
Definition pop (k : nat) (operand : parser ex) : parser (binop * ex) := fun ts =>
  match ts with
  | TSp :: TSym (SOp o) :: TSp :: r =>
      if Nat.eqb (op_level o) k
      then match operand r with Some (x, r') => Some ((o, x), r') | None => None end
      else None
  | _ => None
  end.

(* lN := l(N+1), (opN, l(N+1))*   — a Term only when there is at least one operator *)
Definition chain (m k : nat) (operand : parser ex) : parser ex := fun ts =>
  match operand ts with
  | Some (a, r) => let '(xs, r') := psep m sep_none (pop k operand) r in
                   Some (match xs with [] => a | _ => ETerm a xs end, r')
  | None => None
  end.

(* lev j = level (8-j) of expressions.rs: lev 0 = factor, lev 1 = l7 (set operators), ..., lev 7 = l1 = formula *)
Fixpoint lev (j m : nat) (base : parser ex) : parser ex :=
  match j with 0 => base | S j' => chain m (7 - j') (lev j' m base) end.

Definition prop_ : parser bool := fun ts =>
  match ts with TSym DD :: r => Some (false, r) | TSym DDE :: r => Some (true, r) | _ => None end.

(* range-expression | formula *)
Definition pexp0 (m : nat) (base : parser ex) : parser ex := fun ts =>
  match lev 7 m base ts with
  | Some (a, r) =>
      match prop_ r with
      | Some (i1, r1) =>
          match lev 7 m base r1 with
          | Some (x, r2) =>
              match prop_ r2 with
              | Some (i2, r3) =>
                  match lev 7 m base r3 with
                  | Some (y, r4) => Some (ERange a (Some (i1, x)) i2 y, r4)
                  | None => None
                  end
              | None => Some (ERange a None i1 x, r2)
              end
          | None => None
          end
      | None => Some (a, r)
      end
  | None => None
  end.

(* head-of-input tests (boolean, so that they can be rewritten with in proofs) *)
Definition hd_is (P : tok -> bool) (ts : list tok) : bool := match ts with t :: _ => P t | [] => false end.
Definition t_apos (t : tok) : bool := match t with TSym Apos => true | _ => false end.
Definition t_lp (t : tok) : bool := match t with TSym LP => true | _ => false end.

(* argument of a state-machine instance := identifier ":" expression | expression   (the expression is not itself an
   instance: the model does not nest `#a(#b(1))` directly) *)
Definition parg0 (m : nat) (base : parser ex) : parser (option string * ex) := fun ts =>
  match pexp0 m base ts with
  | Some (e, r) =>
      match r with
      | TSym Colon :: TSp :: r2 =>
          match e with
          | EVar n None => match pexp0 m base r2 with Some (v, r3) => Some ((Some n, v), r3) | None => None end
          | _ => None
          end
      | _ => Some ((None, e), r)
      end
  | None => None
  end.

(* fsm-instance := "#", identifier, fsm-args?      (the input is what follows the `#`) *)
Definition pfsm (m : nat) (base : parser ex) : parser ex := fun r =>
  match r with
  | TId x :: r1 =>
      if hd_is t_lp r1 then
        let r2 := List.tl r1 in
        match plist1 m sep_comma_sp (parg0 m base) r2 with
        | Some (args, TSym RP :: r3) => Some (EFsm x (Some args), r3)
        | Some _ => None
        | None => match r2 with TSym RP :: r3 => Some (EFsm x (Some []), r3) | _ => None end
        end
      else Some (EFsm x None, r1)
  | _ => None
  end.

(* expression := fsm-pipe | range-expression | formula      (expressions.rs::expression tries the pipe first) *)
Definition pexp (m : nat) (base : parser ex) : parser ex := fun ts =>
  match ts with
  | TSym Hash :: r => pfsm m base r
  | _ => pexp0 m base ts
  end.

(* bracket-subscript entry := range | formula | select-all *)
Definition pix (m : nat) (base : parser ex) : parser ex := fun ts =>
  match pexp m base ts with
  | Some res => Some res
  | None => match ts with TSym Colon :: r => Some (EAll, r) | _ => None end
  end.

Definition psub (m : nat) (base : parser ex) : parser ex := fun ts =>
  match ts with
  | TSym Dot :: TId s :: r => Some (EDot s, r)
  | TSym LB :: r =>
      match plist1 m sep_comma (pix m base) r with
      | Some (ixs, TSym RB :: r') => Some (EBrk ixs, r')
      | _ => None
      end
  | _ => None
  end.

(* binding := identifier, kind?, ":", expression   — read as an expression first, a binding if a colon follows *)
Definition pbind (m : nat) (base : parser ex) : parser (string * option kind * ex) := fun ts =>
  match pexp m base ts with
  | Some (e, r) =>
      match r with
      | TSym Colon :: TSp :: r2 =>
          match e with
          | EVar n k => match pexp m base r2 with Some (v, r3) => Some ((n, k, v), r3) | None => None end
          | _ => None
          end
      | _ => None
      end
  | None => None
  end.

(* call argument := identifier ":" expression | expression *)
Definition parg (m : nat) (base : parser ex) : parser (option string * ex) := fun ts =>
  match pexp m base ts with
  | Some (e, r) =>
      match r with
      | TSym Colon :: TSp :: r2 =>
          match e with
          | EVar n None => match pexp m base r2 with Some (v, r3) => Some ((Some n, v), r3) | None => None end
          | _ => None
          end
      | _ => Some ((None, e), r)
      end
  | None => None
  end.

(* mapping := expression ":" expression *)
Definition pmapping (m : nat) (base : parser ex) : parser (ex * ex) := fun ts =>
  match pexp m base ts with
  | Some (k, TSym Colon :: TSp :: r2) =>
      match pexp m base r2 with Some (v, r3) => Some ((k, v), r3) | None => None end
  | _ => None
  end.

Definition with_kind (mk : option kind -> ex) (r : list tok) : option (ex * list tok) :=
  let '(k, r') := optkind r in Some (mk k, r').

(* factor without the optional transpose; [pf] parses nested factors, [m] bounds the loops *)
Definition pcore (m : nat) (pf : parser ex) : parser ex := fun ts =>
  let pe := pexp m pf in
  match ts with
  | TSym LP :: r =>
      match pe r with
      | Some (e, TSym RP :: r') => Some (EParen e, r')
      | Some (e, TSym Comma :: r') =>
          match plist1 m sep_comma pe r' with
          | Some (es, TSym RP :: r'') => Some (ETup (e :: es), r'')
          | _ => None
          end
      | Some _ => None
      | None => match r with TSym RP :: r' => Some (ETup [], r') | _ => None end
      end
  | TSym (SOp OSub) :: r => match pf r with Some (e, r') => Some (ENeg e, r') | None => None end
  | TSym NotS :: r => match pf r with Some (e, r') => Some (ENot e, r') | None => None end
  | TSym LB :: r =>
      match plist1 m sep_semi_sp (plist1 m sep_sp pe) r with
      | Some (rows, TSym RB :: r') => Some (EMat rows, r')
      | Some _ => None
      | None => match r with TSym RB :: r' => Some (EMat [], r') | _ => None end
      end
  | TSym LC :: r =>
      match plist1 m sep_comma_sp (pbind m pf) r with
      | Some (bs, TSym RC :: r') => Some (ERec bs, r')
      | _ =>
          match plist1 m sep_comma_sp (pmapping m pf) r with
          | Some (ms, TSym RC :: r') => Some (EMap ms, r')
          | _ =>
              match plist1 m sep_comma_sp pe r with
              | Some (es, TSym RC :: r') => Some (ESet es, r')
              | Some _ => None
              | None =>
                  match r with
                  | TSym RC :: r' => Some (ESet [], r')
                  | TSym Colon :: TSym RC :: r' => Some (EMap [], r')
                  | _ => None
                  end
              end
          end
      end
  | TSym Colon :: TId a :: r =>
      if hd_is t_lp r then
        match pe (List.tl r) with Some (e, TSym RP :: r') => Some (ETupS a e, r') | _ => None end
      else with_kind (ELit (LAtom a)) r
  | TNum s :: r => with_kind (ELit (LNum s)) r
  | TStr s :: r => with_kind (ELit (LStr s)) r
  | TBool b :: r => with_kind (ELit (LBool b)) r
  | TId x :: r =>
      if hd_is t_lp r then
        let r1 := List.tl r in
        match plist1 m sep_comma_sp (parg m pf) r1 with
        | Some (args, TSym RP :: r2) => Some (ECall x args, r2)
        | Some _ => None
        | None => match r1 with TSym RP :: r2 => Some (ECall x [], r2) | _ => None end
        end
      else
        match psep m sep_none (psub m pf) r with
        | ([], _) => with_kind (EVar x) r
        | (subs, r') => Some (ESlice x subs, r')
        end
  | _ => None
  end.

(* factor := (parenthetical | negate | not | structure | call | literal | slice | var), transpose? *)
Fixpoint pfac (n : nat) : parser ex := fun ts =>
  match n with
  | 0 => None
  | S m =>
      match pcore m (pfac m) ts with
      | Some (c, r) => if hd_is t_apos r then Some (ETrans c, List.tl r) else Some (c, r)
      | None => None
      end
  end.

Definition pexpr (n : nat) : parser ex := pexp n (pfac n).

(* ---- patterns *)
Definition pitem_p : parser pitem := fun ts =>
  match ts with
  | TSym (SOp OMul) :: r => Some (IWild, r)
  | TSym Colon :: TId a :: r => let '(k, r') := optkind r in Some (ILit (LAtom a) k, r')
  | TNum s :: r => let '(k, r') := optkind r in Some (ILit (LNum s) k, r')
  | TStr s :: r => let '(k, r') := optkind r in Some (ILit (LStr s) k, r')
  | TBool b :: r => let '(k, r') := optkind r in Some (ILit (LBool b) k, r')
  | TId x :: r => let '(k, r') := optkind r in Some (IVar x k, r')
  | _ => None
  end.

Definition papart : parser apart := fun ts =>
  match ts with
  | TSym Ellip :: r => Some (AEll, r)
  | TSym Bar :: r => Some (ABar, r)
  | _ => match pitem_p ts with Some (i, r) => Some (AI i, r) | None => None end
  end.

Fixpoint all_items (l : list apart) : option (list pitem) :=
  match l with
  | [] => Some []
  | AI i :: r => match all_items r with Some q => Some (i :: q) | None => None end
  | _ => None
  end.

(* the token list of an array pattern -> prefix, spread/rest, suffix (pattern_array in patterns.rs) *)
Fixpoint assemble (l : list apart) : option (list pitem * atail) :=
  match l with
  | [] => Some ([], ANone)
  | AI i :: r => match assemble r with Some (pre, tl) => Some (i :: pre, tl) | None => None end
  | AEll :: r => match all_items r with Some suf => Some ([], ASpread suf) | None => None end
  | ABar :: r => match r with [AI b] => Some ([], ARest b) | _ => None end
  end.

(* pattern := atom-struct | wildcard | array | tuple | expression (here: literal or variable) *)
Fixpoint ppat (n : nat) : parser pat := fun ts =>
  match n with
  | 0 => None
  | S m =>
      let pit := match pitem_p ts with Some (i, r) => Some (PItem i, r) | None => None end in
      match ts with
      | TSym LP :: r =>
          match plist1 m sep_comma_sp (ppat m) r with
          | Some (ps, TSym RP :: r') => Some (PTup ps, r')
          | _ => None
          end
      | TSym LB :: r =>
          match plist1 m sep_sp papart r with
          | Some (l, TSym RB :: r') =>
              match assemble l with Some (pre, tl) => Some (PArr pre tl, r') | None => None end
          | Some _ => None
          | None => match r with TSym RB :: r' => Some (PArr [] ANone, r') | _ => None end
          end
      | TSym Colon :: TId a :: r =>
          if hd_is t_lp r then
            match plist1 m sep_comma_sp (ppat m) (List.tl r) with
            | Some (ps, TSym RP :: r') => Some (PTupS a ps, r')
            | _ => None
            end
          else pit
      | _ => pit
      end
  end.

(* ---- right-hand sides *)
Definition sep_nl (ts : list tok) := match ts with TNl :: r => Some r | _ => None end.
Definition sep_bar (ts : list tok) := match ts with TSp :: TSym Bar :: TSp :: r => Some r | _ => None end.
(* a blank that separates two cells of a table row (not the blank in front of the closing bar) *)
Definition sep_cell (ts : list tok) := match ts with TSp :: TSym Bar :: _ => None | TSp :: r => Some r | _ => None end.

Definition pfield : parser (string * kind) := fun ts =>
  match ts with
  | TId n :: r => match pkind r with Some (k, r') => Some ((n, k), r') | None => None end
  | _ => None
  end.

Definition prow (n : nat) : parser (list ex) := fun ts =>
  match ts with
  | TSp :: r =>
      match plist1 n sep_cell (pexpr n) r with
      | Some (row, TSp :: TSym Bar :: r') => Some (row, r')
      | _ => None
      end
  | _ => None
  end.

Definition ptable (n : nat) : parser rhs := fun r =>
  match plist1 n sep_sp pfield r with
  | Some (fs, TSp :: TSym Bar :: r1) =>
      match plist1 n sep_none (prow n) r1 with
      | Some (rows, r2) => Some (RTable fs rows, r2)
      | None => None
      end
  | _ => None
  end.

(* qualifier := pattern "←" expression | variable-define | expression *)
Definition pqual (n : nat) : parser qual := fun ts =>
  match ppat n ts with
  | Some (p, TSp :: TSym LArrow :: TSp :: r) =>
      match pexpr n r with Some (e, r') => Some (QGen p e, r') | None => None end
  | _ =>
      match pexpr n ts with
      | Some (EVar x k, TSp :: TSym Define :: TSp :: r) =>
          match pexpr n r with Some (e, r') => Some (QLet x k e, r') | None => None end
      | Some (e, r) => Some (QFilt e, r)
      | None => None
      end
  end.

Definition pcompr (n : nat) (mat : bool) : parser rhs := fun r =>
  match pexpr n r with
  | Some (e, TSp :: TSym Bar :: TSp :: r1) =>
      match plist1 n sep_comma_sp (pqual n) r1 with
      | Some (qs, TSp :: TSym cl :: r2) =>
          match mat, cl with
          | true, RB | false, RC => Some (RCompr mat e qs, r2)
          | _, _ => None
          end
      | _ => None
      end
  | _ => None
  end.

Definition pbr : parser bool := fun ts =>
  match ts with TSym BrT :: r => Some (false, r) | TSym BrL :: r => Some (true, r) | _ => None end.

(* match-arm := branch, pattern, ("," expression)?, "⇒", expression *)
Definition pmarm (n : nat) : parser (bool * pat * option ex * ex) := fun ts =>
  match pbr ts with
  | Some (last, r) =>
      match ppat n r with
      | Some (p, TSym Comma :: TSp :: r1) =>
          match pexpr n r1 with
          | Some (g, TSp :: TSym DArrow :: TSp :: r2) =>
              match pexpr n r2 with Some (e, r3) => Some ((last, p, Some g, e), r3) | None => None end
          | _ => None
          end
      | Some (p, TSp :: TSym DArrow :: TSp :: r2) =>
          match pexpr n r2 with Some (e, r3) => Some ((last, p, None, e), r3) | None => None end
      | _ => None
      end
  | None => None
  end.

Definition pfarm (n : nat) : parser (bool * pat * ex) := fun ts =>
  match ts with
  | TSp :: TSp :: r0 =>
      match pbr r0 with
      | Some (last, TSp :: r) =>
          match ppat n r with
          | Some (p, TSp :: TSym FatArrow :: TSp :: r2) =>
              match pexpr n r2 with Some (e, r3) => Some ((last, p, e), r3) | None => None end
          | _ => None
          end
      | _ => None
      end
  | _ => None
  end.

(* an expression (possibly the source of a match), else a table or a comprehension *)
Definition prhs (n : nat) : parser rhs := fun ts =>
  match pexpr n ts with
  | Some (e, TSym Quest :: TNl :: TNl :: r) =>
      match plist1 n sep_nl (pmarm n) r with
      | Some (arms, TSym Dot :: TNl :: r') => Some (RMatch e arms, r')
      | _ => None
      end
  | Some (e, r) => Some (RExp e, r)
  | None =>
      match ts with
      | TSym Bar :: TSp :: r => ptable n r
      | TSym LC :: TSp :: r => pcompr n false r
      | TSym LB :: TSp :: r => pcompr n true r
      | _ => None
      end
  end.

Definition pvariant : parser (string * option kind) := fun ts =>
  match ts with
  | TSym Colon :: TId a :: r => let '(k, r') := optkind r in Some ((a, k), r')
  | _ => None
  end.

Fixpoint cvt_args (l : list (option string * ex)) : option (list (string * kind)) :=
  match l with
  | [] => Some []
  | (None, EVar x (Some k)) :: r => match cvt_args r with Some q => Some ((x, k) :: q) | None => None end
  | _ => None
  end.

(* ---- state machines *)
Definition pfexp (n : nat) : parser fpat := fun ts =>
  match pexpr n ts with Some (e, r) => Some (FExp e, r) | None => None end.

(* pattern := atom-struct | wildcard | array | tuple | expression      (patterns.rs::pattern, in this order) *)
Fixpoint pfpat (n : nat) : parser fpat := fun ts =>
  match n with
  | 0 => None
  | S m =>
      match ts with
      | TSym (SOp OMul) :: r => Some (FWild, r)
      | TSym LP :: r =>
          match plist1 m sep_comma_sp (pfpat m) r with
          | Some (ps, TSym RP :: r') => Some (FTup ps, r')
          | _ => None
          end
      | TSym LB :: r =>
          match plist1 m sep_sp papart r with
          | Some (l, TSym RB :: r') =>
              match assemble l with Some (pre, tl) => Some (FArr pre tl, r') | None => None end
          | Some _ => None
          | None => match r with TSym RB :: r' => Some (FArr [] ANone, r') | _ => None end
          end
      | TSym Colon :: TId a :: r =>
          if hd_is t_lp r then
            match plist1 m sep_comma_sp (pfpat m) (List.tl r) with
            | Some (ps, TSym RP :: r') => Some (FTupS a ps, r')
            | _ => None
            end
          else pfexp m ts
      | _ => pfexp m ts
      end
  end.

Definition tkind_of (s : sym) : option tkind :=
  match s with Arrow => Some KNext | FatArrow => Some KOut | TArrow => Some KAsync | DArrow => Some KOutD | _ => None end.

Definition is_alpha (c : ascii) : bool :=
  let n := nat_of_ascii c in (Nat.leb 65 n && Nat.leb n 90) || (Nat.leb 97 n && Nat.leb n 122).
Definition is_digit (c : ascii) : bool := let n := nat_of_ascii c in Nat.leb 48 n && Nat.leb n 57.

Fixpoint all_chars (P : ascii -> bool) (s : string) : bool :=
  match s with EmptyString => true | String c r => P c && all_chars P r end.

(* after a leading `¬` the identifier may continue with letters, digits and `/`: `¬22/7` is an identifier *)
Definition idtail_num (s : string) : bool :=
  all_chars (fun c => is_alpha c || is_digit c || Ascii.eqb c "/") s.

(* an assignable target as the statement grammar lexes it: an identifier with optional subscripts and no kind annotation;
   `true`, `false` and a negation `¬x`, `¬¬x`, `¬true`, `¬5`, `¬10.25` (= `¬10` `.25`), `¬-x`, `¬x[1]` are identifiers
   there (the identifier symbols include `¬ - + /`) *)
Fixpoint nid_tail (e : ex) : bool :=
  match e with
  | EVar _ None | ELit (LBool _) None | ELit (LNum _) None | ESlice _ _ => true
  | ENot e | ENeg e => nid_tail e
  | _ => false
  end.
Definition is_target (e : ex) : bool :=
  match e with
  | EVar _ None | ESlice _ _ | ELit (LBool _) None => true
  | ENot e' => nid_tail e'
  | _ => false
  end.
Definition is_ftarget (p : fpat) : bool := match p with FExp e => is_target e | _ => false end.
Definition next_target (t : trans) : bool := match fst t with KNext => is_ftarget (snd t) | _ => false end.
Definition starts_fat (r : list tok) : bool := match r with TSp :: TSym FatArrow :: _ => true | _ => false end.

(* transition := ("->" | "=>" | "~>"), pattern *)
Definition ptrans (n : nat) : parser trans := fun ts =>
  match ts with
  | TSp :: TSym s :: TSp :: r =>
      match tkind_of s with
      | Some k => match pfpat n r with Some (p, r') => Some ((k, p), r') | None => None end
      | None => None
      end
  | _ => None
  end.

(* a transition of a guard: `-> x => e` is read as the statement transition `-> x = > e` and fails *)
Definition ptrans_g (n : nat) : parser trans := fun ts =>
  match ptrans n ts with
  | Some (t, r) => if next_target t && starts_fat r then None else Some (t, r)
  | None => None
  end.

(* guard := guard-operator, pattern, transition+ *)
Definition pguard (n : nat) : parser guard := fun ts =>
  match ts with
  | TSp :: TSp :: TSp :: TSp :: r0 =>
      match pbr r0 with
      | Some (last, TSp :: r) =>
          match pfpat n r with
          | Some (c, r1) =>
              match plist1 n sep_none (ptrans_g n) r1 with
              | Some (tr, r2) => Some ((last, c, tr), r2)
              | None => None
              end
          | None => None
          end
      | _ => None
      end
  | _ => None
  end.

Definition t_nl (t : tok) : bool := match t with TNl => true | _ => false end.

(* fsm-arm := pattern, guard+ | pattern, transition+       (a single guard is followed by one more line break) *)
Definition parm (n : nat) : parser arm := fun ts =>
  match ts with
  | TSp :: TSp :: r =>
      match pfpat n r with
      | Some (p, r1) =>
          if hd_is t_nl r1 then
            match plist1 n sep_nl (pguard n) (List.tl r1) with
            | Some (gs, r2) =>
                match gs with
                | [_] => match r2 with TNl :: r3 => Some (AGuard p gs, r3) | _ => None end
                | _ => Some (AGuard p gs, r2)
                end
            | None => None
            end
          else
            match plist1 n sep_none (ptrans n) r1 with
            | Some (tr, r2) => Some (ATrans p tr, r2)
            | None => None
            end
      | None => None
      end
  | _ => None
  end.

Definition pfvar : parser fvar := fun ts =>
  match ts with
  | TId x :: r => let '(k, r') := optkind r in Some ((x, k), r')
  | _ => None
  end.

(* state-definition := guard-operator, atom, ("(", list1(",", var), ")")? *)
Definition pstate (n : nat) : parser fstate := fun ts =>
  match ts with
  | TSp :: TSp :: TSp :: TSp :: r0 =>
      match pbr r0 with
      | Some (last, TSp :: TSym Colon :: TId a :: r) =>
          if hd_is t_lp r then
            match plist1 n sep_comma_sp pfvar (List.tl r) with
            | Some (vs, TSym RP :: r') => Some ((last, a, Some vs), r')
            | _ => None
            end
          else Some ((last, a, None), r)
      | _ => None
      end
  | _ => None
  end.

(* the header `#name(x<k>, y)` is read as an instance expression; its arguments must be variables *)
Fixpoint cvt_vars (l : list (option string * ex)) : option (list fvar) :=
  match l with
  | [] => Some []
  | (None, EVar x k) :: r => match cvt_vars r with Some q => Some ((x, k) :: q) | None => None end
  | _ => None
  end.

Definition pspec_states (n : nat) (nm : string) (ins : list fvar) (out : option kind) : parser stmt := fun r =>
  match plist1 n sep_nl (pstate n) r with
  | Some (sts, TSym Dot :: TNl :: r') => Some (SFsmSpec nm ins out sts, r')
  | _ => None
  end.

Definition pimpl (n : nat) (nm : string) (ins : list fvar) : parser stmt := fun r =>
  match pfpat n r with
  | Some (st, TNl :: r1) =>
      match plist1 n sep_nl (parm n) r1 with
      | Some (arms, TSym Dot :: r2) => Some (SFsmImpl nm ins st arms, r2)
      | _ => None
      end
  | _ => None
  end.

Definition fsm_header (e : ex) : option (string * list fvar) :=
  match e with
  | EFsm nm (Some args) => match cvt_vars args with Some ins => Some (nm, ins) | None => None end
  | _ => None
  end.

(* statement: comment and enum by their first token; otherwise read an expression, then decide by what follows it *)
Definition pstmt_main (n : nat) : parser stmt := fun ts =>
  let '(mut, ts1) := match ts with TSym Tilde :: r => (true, r) | _ => (false, ts) end in
  match pexpr n ts1 with
  | Some (e, TSp :: TSym Define :: TSp :: r2) =>
      match e with
      | EVar x k => match prhs n r2 with Some (v, r3) => Some (SDefine mut x k v, r3) | None => None end
      | _ => None
      end
  | Some (e, TSp :: TSym Assign :: TSp :: r2) =>
      if mut then None else
      match e with
      | EVar x None => match prhs n r2 with Some (v, r3) => Some (SAssign x [] v, r3) | None => None end
      | ESlice x subs => match prhs n r2 with Some (v, r3) => Some (SAssign x subs v, r3) | None => None end
      | _ => None
      end
  | Some (e, TSp :: TSym (SAop a) :: TSp :: r2) =>
      if mut then None else
      match e with
      | EVar x None => match prhs n r2 with Some (v, r3) => Some (SOpAssign x [] a v, r3) | None => None end
      | ESlice x subs => match prhs n r2 with Some (v, r3) => Some (SOpAssign x subs a v, r3) | None => None end
      | _ => None
      end
  | Some (e, TSp :: TSym FatArrow :: TSp :: r2) =>
      if mut then None else
      match e with
      | ECall fn args =>
          match cvt_args args, pkind r2 with
          | Some a, Some (out, TNl :: r3) =>
              match plist1 n sep_nl (pfarm n) r3 with
              | Some (arms, TSym Dot :: r4) => Some (SFun fn a out arms, r4)
              | _ => None
              end
          | _, _ => None
          end
      | _ => None
      end
  | Some (e, TSp :: TSym Arrow :: TSp :: r2) =>
      (* fsm-implementation := "#", identifier, "(", list0(",", var), ")", "->", pattern, fsm-arm+, "." *)
      if mut then None else
      match fsm_header e with Some (nm, ins) => pimpl n nm ins r2 | None => None end
  | Some (e, TSp :: TSym DArrow :: TSp :: r2) =>
      (* fsm-specification := "#", identifier, "(", list0(",", var), ")", "⇒", kind-annotation, ":=", state-definition+, "." *)
      if mut then None else
      match fsm_header e, pkind r2 with
      | Some (nm, ins), Some (k, TSp :: TSym Define :: TNl :: r3) => pspec_states n nm ins (Some k) r3
      | _, _ => None
      end
  | Some (e, TSp :: TSym Define :: TNl :: r2) =>
      if mut then None else
      match fsm_header e with Some (nm, ins) => pspec_states n nm ins None r2 | None => None end
  | _ => if mut then None else match prhs n ts1 with Some (v, r) => Some (SExpr v, r) | None => None end
  end.

Definition pstmt (n : nat) : parser stmt := fun ts =>
  match ts with
  | TCom s :: r => Some (SComment s, r)
  | TSym (SOp OLt) :: TId nm :: TSym (SOp OGt) :: TSp :: TSym Define :: TSp :: r =>
      match plist1 n sep_bar pvariant r with
      | Some (vs, r') => Some (SEnum nm vs, r')
      | None => None
      end
  | _ => pstmt_main n ts
  end.

Definition pline (n : nat) : parser stmt := fun ts =>
  match pstmt n ts with Some (s, TNl :: r) => Some (s, r) | _ => None end.

(* the whole token list must be consumed; the fuel is the number of tokens *)
Definition parse_tok (ts : list tok) : option prog :=
  let n := List.length ts in
  match psep n sep_none (pline n) ts with
  | (p, []) => Some p
  | _ => None
  end.

(* ------------------------------------------------------------------ well-formedness (the trees the grammar produces) *)
Definition is_term (e : ex) : bool := match e with ETerm _ _ => true | _ => false end.
Definition is_range (e : ex) : bool := match e with ERange _ _ _ _ => true | _ => false end.
Definition is_sub (e : ex) : bool := match e with EDot _ | EBrk _ => true | _ => false end.
Definition is_fac (e : ex) : bool :=
  match e with ETerm _ _ | ERange _ _ _ _ | EDot _ | EBrk _ | EAll | EFsm _ _ => false | _ => true end.
Definition is_core (e : ex) : bool :=
  match e with ENeg _ | ENot _ | ETrans _ => false | _ => is_fac e end.
Definition is_formula (e : ex) : bool := is_fac e || is_term e.
Definition is_expr (e : ex) : bool := is_formula e || is_range e.
Definition is_neg (e : ex) : bool := match e with ENeg _ => true | _ => false end.
(* expression := fsm-pipe | range | formula: the positions of the grammar that take an `expression` (matrix / set / tuple
   elements, record / map values, call arguments, tuple-struct values, statement right-hand sides) take an instance *)
Definition is_fsm (e : ex) : bool := match e with EFsm _ _ => true | _ => false end.
Definition is_exprF (e : ex) : bool := is_expr e || is_fsm e.

(* precedence level of a formula: 1..7 for a Term (level of its operators), 8 for a factor, 0 otherwise *)
Definition elvl (e : ex) : nat :=
  match e with
  | ETerm _ ((o, _) :: _) => op_level o
  | ETerm _ [] => 0
  | _ => if is_fac e then 8 else 0
  end.

Fixpoint wf (e : ex) : bool :=
  match e with
  | ELit _ _ | EVar _ _ | EDot _ | EAll => true
  | EParen e => wf e && is_formula e
  | ENeg e => wf e && is_fac e && negb (is_neg e)
  | ENot e => wf e && is_fac e
  | ETrans e => wf e && is_core e
  | ETerm l r =>
      match r with
      | [] => false
      | (o, _) :: _ =>
          let k := op_level o in
          wf l && Nat.ltb k (elvl l) &&
          forallb (fun p => Nat.eqb (op_level (fst p)) k && wf (snd p) && Nat.ltb k (elvl (snd p))) r
      end
  | EMat rows => forallb (fun row => negb (Nat.eqb (List.length row) 0) && forallb (fun x => wf x && is_exprF x) row) rows
  | ESet es => forallb (fun x => wf x && is_exprF x) es
  | ETup es => negb (Nat.eqb (List.length es) 1) && forallb (fun x => wf x && is_exprF x) es
  | ERec bs => negb (Nat.eqb (List.length bs) 0) && forallb (fun b => wf (snd b) && is_exprF (snd b)) bs
  | EMap ms =>
      (* `{a: 1, ...}` with a variable as first key is read as a record (or, mixed, is outside the model) *)
      match ms with (EVar _ _, _) :: _ => false | _ => true end &&
      forallb (fun m => wf (fst m) && is_expr (fst m) && wf (snd m) && is_exprF (snd m)) ms
  | ETupS _ e => wf e && is_exprF e
  | ECall _ args => forallb (fun a => wf (snd a) && is_exprF (snd a)) args
  | ESlice _ subs => negb (Nat.eqb (List.length subs) 0) && forallb (fun s => wf s && is_sub s) subs
  | EBrk ixs => negb (Nat.eqb (List.length ixs) 0) &&
                forallb (fun x => match x with EAll => true | _ => wf x && is_expr x end) ixs
  | ERange a inc _ b =>
      wf a && is_formula a && wf b && is_formula b &&
      match inc with Some (_, s) => wf s && is_formula s | None => true end
  | EFsm _ args =>
      match args with
      | Some l => forallb (fun a => wf (snd a) && is_expr (snd a)) l
      | None => true
      end
  end.

Definition wf_target (subs : list ex) : bool :=
  forallb (fun s => wf s && is_sub s) subs.

Fixpoint wf_pat (p : pat) : bool :=
  match p with
  | PItem _ | PArr _ _ => true
  | PTup ps | PTupS _ ps => negb (Nat.eqb (List.length ps) 0) && forallb wf_pat ps
  end.

(* the arms carry the branch glyph they are printed with: ├ for all but the last, └ for the last *)
Fixpoint last_flags (l : list bool) : bool :=
  match l with
  | [] => false
  | [b] => b
  | b :: r => negb b && last_flags r
  end.

Definition wfe (e : ex) : bool := wf e && is_expr e.
Definition is_kvar (e : ex) : bool := match e with EVar _ (Some _) => true | _ => false end.
(* a filter qualifier is modelled when it is a comparison-like formula beginning with a variable: `x > 2`, `x ∈ s` *)
Definition filt_ok (e : ex) : bool := match e with ETerm (EVar _ _) _ => true | _ => false end.

Definition wf_qual (q : qual) : bool :=
  match q with
  | QGen p e => wf_pat p && wfe e
  | QLet _ _ e => wfe e
  | QFilt e => wfe e && filt_ok e
  end.

Definition wf_rhs (r : rhs) : bool :=
  match r with
  | RExp e => wf e && is_exprF e
  | RTable fs rows =>
      negb (Nat.eqb (List.length fs) 0) && negb (Nat.eqb (List.length rows) 0) &&
      forallb (fun row => negb (Nat.eqb (List.length row) 0) && forallb (fun c => wfe c && negb (is_kvar c)) row) rows
  | RMatch src arms =>
      wf src && is_fac src && last_flags (map (fun a => fst (fst (fst a))) arms) &&
      forallb (fun a => let '(_, p, g, e) := a in
                        wf_pat p && match g with Some g => wfe g | None => true end && wfe e) arms
  | RCompr _ e qs => wfe e && negb (Nat.eqb (List.length qs) 0) && forallb wf_qual qs
  end.

Fixpoint exists_ex (P : ex -> bool) (e : ex) : bool :=
  P e ||
  match e with
  | EParen e | ENeg e | ENot e | ETrans e => exists_ex P e
  | ETerm l r => exists_ex P l || existsb (fun p => exists_ex P (snd p)) r
  | EMat rows => existsb (fun row => existsb (exists_ex P) row) rows
  | ESet es | ETup es | EBrk es => existsb (exists_ex P) es
  | ERec bs => existsb (fun b => exists_ex P (snd b)) bs
  | EMap ms => existsb (fun m => exists_ex P (fst m) || exists_ex P (snd m)) ms
  | ETupS _ e => exists_ex P e
  | ECall _ args => existsb (fun a => exists_ex P (snd a)) args
  | ESlice _ subs => existsb (exists_ex P) subs
  | ERange a inc _ b =>
      exists_ex P a || exists_ex P b || match inc with Some (_, s) => exists_ex P s | None => false end
  | EFsm _ (Some args) => existsb (fun a => exists_ex P (snd a)) args
  | _ => false
  end.

(* ---- state machines *)
(* a pattern that is an expression must not begin like one of the alternatives that patterns.rs::pattern tries first
   (`(` tuple, `[` array, `:name(` tuple-struct): `(a + b) * 2` is read as the tuple pattern `(a + b)` *)
Definition head_ok (ts : list tok) : bool :=
  match ts with
  | [] => false
  | TSym LP :: _ | TSym LB :: _ | TSym (SOp OMul) :: _ | TSym Hash :: _ => false
  | [TSym Colon] => false
  | TSym Colon :: TId _ :: TSym LP :: _ => false
  | _ => true
  end.

(* val = true: a value position (start state, target of `->` `=>` `~>`): state_machines.rs::fsm_value refuses the
   wildcard and array spread / rest there;  val = false: a matching position (state pattern of an arm, guard condition).
   An instance `#m(x)` inside a state machine would take the transitions that follow it as its own pipe: not modelled. *)
Fixpoint wf_fpat (val : bool) (p : fpat) : bool :=
  match p with
  | FWild => negb val
  | FExp e => wfe e && negb (exists_ex is_fsm e) && head_ok (fmt false e)
  | FTup ps | FTupS _ ps => negb (Nat.eqb (List.length ps) 0) && forallb (wf_fpat val) ps
  | FArr pre tl =>
      if val then match tl with ANone => true | _ => false end &&
                  forallb (fun i => match i with IWild => false | _ => true end) pre
      else true
  end.

Definition is_koutd (t : trans) : bool := match fst t with KOutD => true | _ => false end.

(* the transitions of a plain arm: the spelling `=>` parses everywhere (fsm_transition tries the state transition first) *)
Definition wf_transs (ts : list trans) : bool :=
  negb (Nat.eqb (List.length ts) 0) && forallb (fun t => wf_fpat true (snd t) && negb (is_koutd t)) ts.

(* the transitions of a guard: an output transition carries the mark KOutD exactly when it follows `-> target` *)
Fixpoint gchain (ts : list trans) : bool :=
  match ts with
  | t1 :: ((t2 :: _) as r) => Bool.eqb (is_koutd t2) (next_target t1 && match fst t2 with KOut | KOutD => true | _ => false end) && gchain r
  | _ => true
  end.
Definition wf_gtranss (ts : list trans) : bool :=
  match ts with
  | [] => false
  | t :: _ => negb (is_koutd t) && forallb (fun t => wf_fpat true (snd t)) ts && gchain ts
  end.

(* the guards carry the glyph they are printed with: a single guard ├, otherwise ├ … ├ └ *)
Definition guard_flags (l : list bool) : bool := match l with [b] => negb b | _ => last_flags l end.

Definition wf_guard (g : guard) : bool := let '(_, c, ts) := g in wf_fpat false c && wf_gtranss ts.

Definition wf_arm (a : arm) : bool :=
  match a with
  | ATrans p ts => wf_fpat false p && wf_transs ts
  | AGuard p gs => wf_fpat false p && guard_flags (map (fun g => fst (fst g)) gs) && forallb wf_guard gs
  end.

Definition wf_state (s : fstate) : bool := match snd s with Some [] => false | _ => true end.

Definition wf_stmt (s : stmt) : bool :=
  match s with
  | SDefine _ _ _ e => wf_rhs e
  | SAssign _ subs e => wf_target subs && wf_rhs e
  | SOpAssign _ subs _ e => wf_target subs && wf_rhs e
  | SExpr e => wf_rhs e
  | SComment _ => true
  | SEnum _ vs => negb (Nat.eqb (List.length vs) 0)
  | SFun _ _ _ arms =>
      last_flags (map (fun a => fst (fst a)) arms) && forallb (fun a => wf_pat (snd (fst a)) && wfe (snd a)) arms
  | SFsmSpec _ _ _ states => last_flags (map (fun s => fst (fst s)) states) && forallb wf_state states
  | SFsmImpl _ _ start arms => wf_fpat true start && negb (Nat.eqb (List.length arms) 0) && forallb wf_arm arms
  end.

Definition wf_prog (p : prog) : bool := forallb wf_stmt p.

(* ------------------------------------------------------------------ the syntactic classes of the known formatter defects *)
Definition qual_expr (q : qual) : ex := match q with QGen _ e | QLet _ _ e | QFilt e => e end.
Definition marm_exprs (a : bool * pat * option ex * ex) : list ex :=
  match snd (fst a) with Some g => [g; snd a] | None => [snd a] end.

Definition rhs_exprs (r : rhs) : list ex :=
  match r with
  | RExp e => [e]
  | RTable _ rows => List.concat rows
  | RMatch src arms => src :: flat_map marm_exprs arms
  | RCompr _ e qs => e :: map qual_expr qs
  end.

Fixpoint fpat_exprs (p : fpat) : list ex :=
  match p with
  | FExp e => [e]
  | FTup ps | FTupS _ ps => flat_map fpat_exprs ps
  | _ => []
  end.
Definition transs_exprs (ts : list trans) : list ex := flat_map (fun t => fpat_exprs (snd t)) ts.
Definition guard_exprs (g : guard) : list ex := fpat_exprs (snd (fst g)) ++ transs_exprs (snd g).
Definition arm_exprs (a : arm) : list ex :=
  match a with
  | ATrans p ts => fpat_exprs p ++ transs_exprs ts
  | AGuard p gs => fpat_exprs p ++ flat_map guard_exprs gs
  end.

Definition stmt_exprs (s : stmt) : list ex :=
  match s with
  | SDefine _ _ _ e | SExpr e => rhs_exprs e
  | SAssign _ subs e | SOpAssign _ subs _ e => subs ++ rhs_exprs e
  | SComment _ | SEnum _ _ => []
  | SFun _ _ _ arms => map (fun a => snd a) arms
  | SFsmSpec _ _ _ _ => []
  | SFsmImpl _ _ start arms => fpat_exprs start ++ flat_map arm_exprs arms
  end.

Definition exists_prog (P : ex -> bool) (p : prog) : bool :=
  existsb (fun s => existsb (exists_ex P) (stmt_exprs s)) p.

Definition has_op (Q : binop -> bool) (e : ex) : bool :=
  match e with ETerm _ r => existsb (fun p => Q (fst p)) r | _ => false end.

Definition c_multirow (e : ex) : bool := match e with EMat (_ :: _ :: _) => true | _ => false end.
Definition c_named (e : ex) : bool :=
  match e with ECall _ args => existsb (fun a => match fst a with Some _ => true | None => false end) args | _ => false end.
Definition c_rangeinc (e : ex) : bool := match e with ERange _ (Some _) _ _ => true | _ => false end.
Definition c_sneq : ex -> bool := has_op (fun o => match o with OSNeq => true | _ => false end).
Definition c_subset : ex -> bool := has_op (fun o => match o with OSubset | OSuperset => true | _ => false end).
Definition c_cross : ex -> bool := has_op (fun o => match o with OCross => true | _ => false end).

Definition model_classes : list (string * (ex -> bool)) :=
  [ ("matrix-rows", c_multirow); ("named-arg-colon", c_named); ("range-increment-order", c_rangeinc);
    ("strict-neq-spelling", c_sneq); ("subset-spelling", c_subset); ("cross-spelling", c_cross) ].

Definition c_any (e : ex) : bool := existsb (fun c => snd c e) model_classes.

(* the state-machine class: a guard with an output transition directly after `-> target` (formatter.rs prints `=>`) *)
Definition guard_koutd (g : guard) : bool := existsb is_koutd (snd g).
Definition arm_koutd (a : arm) : bool :=
  match a with ATrans _ ts => existsb is_koutd ts | AGuard _ gs => existsb guard_koutd gs end.
Definition stmt_koutd (s : stmt) : bool := match s with SFsmImpl _ _ _ arms => existsb arm_koutd arms | _ => false end.
Definition prog_koutd (p : prog) : bool := existsb stmt_koutd p.

(* a program outside every class: on these formatter.rs and the canonical printer agree (Proofs/Fmt3Q.v) *)
Definition defect_free (p : prog) : bool := negb (exists_prog c_any p) && negb (prog_koutd p).

(* A defect below the token level: Formatter::tuple and Formatter::bracket join the elements with a bare ","; when an
   element ends in a dot subscript `.a` and the next one begins with an identifier, the grammar's swizzle rule
   (".", identifier, ",", identifier ...) reads `x.a,y` as one swizzled slice: `(x.a, y)` is printed `(x.a,y)`.
   The token model keeps `.a` `,` `y` apart, so this class is recognised on the tree: *)
Fixpoint ends_dot (e : ex) : bool :=
  match e with
  | ESlice _ subs => match List.last subs EAll with EDot _ => true | _ => false end
  | ENeg e | ENot e => ends_dot e
  | ETerm l r =>
      (fix lastd (q : list (binop * ex)) : bool :=
         match q with [] => false | [p] => ends_dot (snd p) | _ :: q' => lastd q' end) r
  | ERange _ _ _ b => ends_dot b
  | _ => false
  end.

Fixpoint starts_ident (e : ex) : bool :=
  match e with
  | EVar _ _ | ECall _ _ | ESlice _ _ | ELit (LBool _) _ => true
  | ENot _ => true                      (* `¬` begins an identifier: `x.a,¬y` is a swizzle too *)
  | ETrans e => starts_ident e
  | ETerm l _ => starts_ident l
  | ERange a _ _ _ => starts_ident a
  | _ => false
  end.

Fixpoint adjacent_swizzle (es : list ex) : bool :=
  match es with
  | a :: ((b :: _) as r) => (ends_dot a && starts_ident b) || adjacent_swizzle r
  | _ => false
  end.

Definition c_commaswizzle (e : ex) : bool :=
  match e with
  | ETup es | EBrk es => adjacent_swizzle es
  | ECall _ args => adjacent_swizzle (map snd args)      (* f(x.a,y): the same clash between call arguments *)
  | ESet es => adjacent_swizzle es                       (* {x.a,y}: only when the source is written without the blank *)
  | EMap ms => adjacent_swizzle (flat_map (fun m => [fst m; snd m]) ms)
  | ERec bs => (fix go (l : list (string * option kind * ex)) : bool :=
                  match l with
                  | a :: ((_ :: _) as r) => ends_dot (snd a) || go r      (* {p: x.a,q: 1}: a field name follows *)
                  | _ => false
                  end) bs
  | _ => false
  end.

Definition all_classes : list (string * (ex -> bool)) := model_classes ++ [("comma-swizzle", c_commaswizzle)].

Definition class_of (p : prog) : option string :=
  match filter (fun c => exists_prog (snd c) p) all_classes with
  | c :: _ => Some (fst c)
  | [] => if prog_koutd p then Some "fsm-guard-arrow-reads-as-assignment" else None
  end.

Definition is_panic (t : tok) : bool := match t with TSym SPanic => true | _ => false end.

(* ------------------------------------------------------------------ lexical side conditions (the token texts must
   lex back to the same tokens; checked by the judge on every case, not used by the token-level theorems) *)
Fixpoint last_char (s : string) (d : ascii) : ascii :=
  match s with EmptyString => d | String c r => last_char r c end.

Definition ident_ok (s : string) : bool :=
  match s with
  | EmptyString => false
  | String c r =>
      is_alpha c &&
      all_chars (fun c => is_alpha c || is_digit c || Ascii.eqb c "/" || Ascii.eqb c "-") r &&
      (let l := last_char s c in is_alpha l || is_digit l) &&
      negb (String.eqb s "true") && negb (String.eqb s "false")
  end.

Definition num_ok (s : string) : bool :=
  match s with
  | EmptyString => false
  | String c r =>
      is_digit c &&
      all_chars (fun c => is_alpha c || is_digit c || Ascii.eqb c "." || Ascii.eqb c "/" || Ascii.eqb c "+") r &&
      (let l := last_char s c in is_alpha l || is_digit l)
  end.

Definition str_ok (s : string) : bool :=
  all_chars (fun c => let n := nat_of_ascii c in Nat.leb 32 n && negb (Nat.eqb n 34) && negb (Nat.eqb n 92) && negb (Nat.eqb n 127)) s.

Definition kind_ok (k : option kind) : bool :=
  match k with
  | None => true
  | Some (KScalar s) => ident_ok s
  | Some (KMatrix s ds) => ident_ok s && forallb (fun d => all_chars is_digit d && negb (String.eqb d "")) ds
  end.

Definition lex_node (e : ex) : bool :=
  match e with
  | ELit (LNum s) k => num_ok s && kind_ok k
  | ELit (LStr s) k => str_ok s && kind_ok k
  | ELit (LBool _) k => kind_ok k
  | ELit (LAtom s) k => ident_ok s && kind_ok k
  | EVar x k => ident_ok x && kind_ok k
  | ERec bs => forallb (fun b => ident_ok (fst (fst b)) && kind_ok (snd (fst b))) bs
  | ECall f args => ident_ok f && forallb (fun a => match fst a with Some n => ident_ok n | None => true end) args
  | ESlice x _ => ident_ok x
  | EDot s => ident_ok s
  | ETupS n _ => ident_ok n
  | EFsm n args =>
      ident_ok n &&
      match args with
      | Some l => forallb (fun a => match fst a with Some n => ident_ok n | None => true end) l
      | None => true
      end
  | _ => true
  end.

Definition lex_item (i : pitem) : bool :=
  match i with
  | IWild => true
  | ILit (LNum s) k => num_ok s && kind_ok k
  | ILit (LStr s) k => str_ok s && kind_ok k
  | ILit (LBool _) k => kind_ok k
  | ILit (LAtom s) k => ident_ok s && kind_ok k
  | IVar x k => ident_ok x && kind_ok k
  end.

Fixpoint lex_pat (p : pat) : bool :=
  match p with
  | PItem i => lex_item i
  | PTup ps => forallb lex_pat ps
  | PTupS n ps => ident_ok n && forallb lex_pat ps
  | PArr pre tl =>
      forallb lex_item pre &&
      match tl with ANone => true | ASpread suf => forallb lex_item suf | ARest b => lex_item b end
  end.

Fixpoint lex_fpat (p : fpat) : bool :=
  match p with
  | FWild | FExp _ => true            (* the expressions are checked by [lex_node] through [stmt_exprs] *)
  | FTup ps => forallb lex_fpat ps
  | FTupS n ps => ident_ok n && forallb lex_fpat ps
  | FArr pre tl =>
      forallb lex_item pre &&
      match tl with ANone => true | ASpread suf => forallb lex_item suf | ARest b => lex_item b end
  end.
Definition lex_transs (ts : list trans) : bool := forallb (fun t => lex_fpat (snd t)) ts.
Definition lex_arm (a : arm) : bool :=
  match a with
  | ATrans p ts => lex_fpat p && lex_transs ts
  | AGuard p gs => lex_fpat p && forallb (fun g => lex_fpat (snd (fst g)) && lex_transs (snd g)) gs
  end.
Definition lex_fvar (v : fvar) : bool := ident_ok (fst v) && kind_ok (snd v).

(* comment text: letters, digits, blanks and a little punctuation (no Mechdown inline markup) *)
Definition com_ok (s : string) : bool :=
  all_chars (fun c => is_alpha c || is_digit c || existsb (Ascii.eqb c) [" "; ","; "."; ":"; ";"; "="; "("; ")"; "'"]%char) s.

Definition lex_rhs (r : rhs) : bool :=
  match r with
  | RExp _ => true
  | RTable fs _ => forallb (fun fk => ident_ok (fst fk) && kind_ok (Some (snd fk))) fs
  | RMatch _ arms => forallb (fun a => lex_pat (snd (fst (fst a)))) arms
  | RCompr _ _ qs =>
      forallb (fun q => match q with QGen p _ => lex_pat p | QLet x k _ => ident_ok x && kind_ok k | QFilt _ => true end) qs
  end.

Definition lex_stmt (s : stmt) : bool :=
  match s with
  | SDefine _ x k r => ident_ok x && kind_ok k && lex_rhs r
  | SAssign x _ r | SOpAssign x _ _ r => ident_ok x && lex_rhs r
  | SExpr r => lex_rhs r
  | SComment s => com_ok s
  | SEnum n vs => ident_ok n && forallb (fun v => ident_ok (fst v) && kind_ok (snd v)) vs
  | SFun f args out arms =>
      ident_ok f && forallb (fun a => ident_ok (fst a) && kind_ok (Some (snd a))) args && kind_ok (Some out) &&
      forallb (fun a => lex_pat (snd (fst a))) arms
  | SFsmSpec n ins out states =>
      ident_ok n && forallb lex_fvar ins && kind_ok out &&
      forallb (fun s => ident_ok (snd (fst s)) && match snd s with Some vs => forallb lex_fvar vs | None => true end) states
  | SFsmImpl n ins start arms => ident_ok n && forallb lex_fvar ins && lex_fpat start && forallb lex_arm arms
  end.

Definition lex_ok (p : prog) : bool :=
  forallb lex_stmt p && negb (exists_prog (fun e => negb (lex_node e)) p).

(* ------------------------------------------------------------------ decoding the case S-expression *)
Definition dec_op (s : string) : option binop :=
  let t := [("and", OAnd); ("or", OOr); ("xor", OXor); ("eq", OEq); ("seq", OSEq); ("sneq", OSNeq); ("neq", ONeq);
            ("gt", OGt); ("ge", OGe); ("lt", OLt); ("le", OLe); ("add", OAdd); ("sub", OSub); ("mul", OMul);
            ("div", ODiv); ("mod", OMod); ("matmul", OMatMul); ("solve", OSolve); ("dot", ODot); ("cross", OCross);
            ("pow", OPow); ("join", OJoin); ("ljoin", OLJoin); ("rjoin", ORJoin); ("fjoin", OFJoin);
            ("semijoin", OSemiJoin); ("antijoin", OAntiJoin); ("union", OUnion); ("inter", OInter); ("diff", ODiff);
            ("compl", OCompl); ("subset", OSubset); ("superset", OSuperset); ("psubset", OPSubset);
            ("psuperset", OPSuperset); ("elem", OElem); ("notelem", ONotElem); ("symdiff", OSymDiff)] in
  match filter (fun p => String.eqb (fst p) s) t with p :: _ => Some (snd p) | [] => None end.

Definition dec_aop (s : string) : option aop :=
  if String.eqb s "add" then Some AAdd else if String.eqb s "sub" then Some ASub else
  if String.eqb s "mul" then Some AMul else if String.eqb s "div" then Some ADiv else
  if String.eqb s "exp" then Some AExp else None.

Definition sx_q (x : sx) : option string := match x with Qx s => Some s | _ => None end.
Definition sx_bool (x : sx) : option bool := match x with Zx 0 => Some false | Zx 1 => Some true | _ => None end.

Definition dec_kind (x : sx) : option (option kind) :=
  match x with
  | Lx [Ax t] => if String.eqb t "nok" then Some None else None
  | Lx [Ax t; Qx s] => if String.eqb t "ks" then Some (Some (KScalar s)) else None
  | Lx [Ax t; Qx s; Lx ds] =>
      if String.eqb t "km" then match map_opt sx_q ds with Some l => Some (Some (KMatrix s l)) | None => None end else None
  | _ => None
  end.

Fixpoint dec_ex (x : sx) : option ex :=
  let dl := fix dl (l : list sx) : option (list ex) :=
    match l with
    | [] => Some []
    | y :: r => match dec_ex y, dl r with Some a, Some b => Some (a :: b) | _, _ => None end
    end in
  match x with
  | Lx (Ax t :: args) =>
      if String.eqb t "lit" then
        match args with
        | [Ax ty; v; k] =>
            match dec_kind k with
            | Some k =>
                if String.eqb ty "num" then option_map (fun s => ELit (LNum s) k) (sx_q v)
                else if String.eqb ty "str" then option_map (fun s => ELit (LStr s) k) (sx_q v)
                else if String.eqb ty "bool" then option_map (fun b => ELit (LBool b) k) (sx_bool v)
                else if String.eqb ty "atom" then option_map (fun s => ELit (LAtom s) k) (sx_q v)
                else None
            | None => None
            end
        | _ => None
        end
      else if String.eqb t "var" then
        match args with [Qx s; k] => option_map (EVar s) (dec_kind k) | _ => None end
      else if String.eqb t "paren" then match args with [a] => option_map EParen (dec_ex a) | _ => None end
      else if String.eqb t "neg" then match args with [a] => option_map ENeg (dec_ex a) | _ => None end
      else if String.eqb t "not" then match args with [a] => option_map ENot (dec_ex a) | _ => None end
      else if String.eqb t "trans" then match args with [a] => option_map ETrans (dec_ex a) | _ => None end
      else if String.eqb t "term" then
        match args with
        | l :: ps =>
            let dp := fix dp (q : list sx) : option (list (binop * ex)) :=
              match q with
              | [] => Some []
              | Lx [Ax o; y] :: r =>
                  match dec_op o, dec_ex y, dp r with Some a, Some b, Some c => Some ((a, b) :: c) | _, _, _ => None end
              | _ => None
              end in
            match dec_ex l, dp ps with Some a, Some b => Some (ETerm a b) | _, _ => None end
        | _ => None
        end
      else if String.eqb t "mat" then
        let dr := fix dr (q : list sx) : option (list (list ex)) :=
          match q with
          | [] => Some []
          | Lx (Ax _ :: es) :: r => match dl es, dr r with Some a, Some b => Some (a :: b) | _, _ => None end
          | _ => None
          end in
        option_map EMat (dr args)
      else if String.eqb t "set" then option_map ESet (dl args)
      else if String.eqb t "tup" then option_map ETup (dl args)
      else if String.eqb t "rec" then
        let db := fix db (q : list sx) : option (list (string * option kind * ex)) :=
          match q with
          | [] => Some []
          | Lx [Ax _; Qx n; k; y] :: r =>
              match dec_kind k, dec_ex y, db r with Some a, Some b, Some c => Some ((n, a, b) :: c) | _, _, _ => None end
          | _ => None
          end in
        option_map ERec (db args)
      else if String.eqb t "map" then
        let dm := fix dm (q : list sx) : option (list (ex * ex)) :=
          match q with
          | [] => Some []
          | Lx [Ax _; k; v] :: r =>
              match dec_ex k, dec_ex v, dm r with Some a, Some b, Some c => Some ((a, b) :: c) | _, _, _ => None end
          | _ => None
          end in
        option_map EMap (dm args)
      else if String.eqb t "tups" then
        match args with [Qx n; a] => option_map (ETupS n) (dec_ex a) | _ => None end
      else if String.eqb t "call" then
        match args with
        | Qx f :: q =>
            let da := fix da (q : list sx) : option (list (option string * ex)) :=
              match q with
              | [] => Some []
              | Lx [Ax _; y] :: r => match dec_ex y, da r with Some b, Some c => Some ((None, b) :: c) | _, _ => None end
              | Lx [Ax _; Qx n; y] :: r => match dec_ex y, da r with Some b, Some c => Some ((Some n, b) :: c) | _, _ => None end
              | _ => None
              end in
            option_map (ECall f) (da q)
        | _ => None
        end
      else if String.eqb t "slice" then
        match args with Qx s :: q => option_map (ESlice s) (dl q) | _ => None end
      else if String.eqb t "dot" then match args with [Qx s] => Some (EDot s) | _ => None end
      else if String.eqb t "brk" then option_map EBrk (dl args)
      else if String.eqb t "all" then match args with [] => Some EAll | _ => None end
      else if String.eqb t "range" then
        match args with
        | [a; i; b] => match dec_ex a, sx_bool i, dec_ex b with Some a, Some i, Some b => Some (ERange a None i b) | _, _, _ => None end
        | _ => None
        end
      else if String.eqb t "rangei" then
        match args with
        | [a; i1; s; i2; b] =>
            match dec_ex a, sx_bool i1, dec_ex s, sx_bool i2, dec_ex b with
            | Some a, Some i1, Some s, Some i2, Some b => Some (ERange a (Some (i1, s)) i2 b)
            | _, _, _, _, _ => None
            end
        | _ => None
        end
      else if String.eqb t "fsm" then match args with [Qx n] => Some (EFsm n None) | _ => None end
      else if String.eqb t "fsmc" then
        match args with
        | Qx n :: q =>
            let da := fix da (q : list sx) : option (list (option string * ex)) :=
              match q with
              | [] => Some []
              | Lx [Ax _; y] :: r => match dec_ex y, da r with Some b, Some c => Some ((None, b) :: c) | _, _ => None end
              | Lx [Ax _; Qx nm; y] :: r => match dec_ex y, da r with Some b, Some c => Some ((Some nm, b) :: c) | _, _ => None end
              | _ => None
              end in
            option_map (fun l => EFsm n (Some l)) (da q)
        | _ => None
        end
      else None
  | _ => None
  end.

Definition dec_lit (ty : string) (v : sx) : option lit :=
  if String.eqb ty "num" then option_map LNum (sx_q v)
  else if String.eqb ty "str" then option_map LStr (sx_q v)
  else if String.eqb ty "bool" then option_map LBool (sx_bool v)
  else if String.eqb ty "atom" then option_map LAtom (sx_q v)
  else None.

Definition dec_item (x : sx) : option pitem :=
  match x with
  | Lx [Ax t] => if String.eqb t "pw" then Some IWild else None
  | Lx [Ax t; Ax ty; v; k] =>
      if String.eqb t "pl" then
        match dec_lit ty v, dec_kind k with Some l, Some k => Some (ILit l k) | _, _ => None end
      else None
  | Lx [Ax t; Qx n; k] => if String.eqb t "pv" then option_map (IVar n) (dec_kind k) else None
  | _ => None
  end.

Fixpoint dec_pat (x : sx) : option pat :=
  let dl := fix dl (l : list sx) : option (list pat) :=
    match l with
    | [] => Some []
    | y :: r => match dec_pat y, dl r with Some a, Some b => Some (a :: b) | _, _ => None end
    end in
  match x with
  | Lx (Ax t :: Qx n :: args) =>
      if String.eqb t "ps" then option_map (PTupS n) (dl args)
      else option_map PItem (dec_item x)
  | Lx (Ax t :: args) =>
      if String.eqb t "pt" then option_map PTup (dl args)
      else if String.eqb t "pa" then
        match args with
        | [Lx pre; Lx (Ax tg :: suf)] =>
            match map_opt dec_item pre, map_opt dec_item suf with
            | Some pre, Some suf =>
                if String.eqb tg "none" then match suf with [] => Some (PArr pre ANone) | _ => None end
                else if String.eqb tg "spread" then Some (PArr pre (ASpread suf))
                else if String.eqb tg "rest" then match suf with [b] => Some (PArr pre (ARest b)) | _ => None end
                else None
            | _, _ => None
            end
        | _ => None
        end
      else option_map PItem (dec_item x)
  | _ => None
  end.

(* the decoder computes the branch flags: the last arm gets └ *)
Fixpoint set_last {A} (l : list A) : list (bool * A) :=
  match l with
  | [] => []
  | [a] => [(true, a)]
  | a :: r => (false, a) :: set_last r
  end.

Definition dec_qual (x : sx) : option qual :=
  match x with
  | Lx [Ax t; p; e] =>
      if String.eqb t "gen" then match dec_pat p, dec_ex e with Some p, Some e => Some (QGen p e) | _, _ => None end else None
  | Lx [Ax t; Qx n; k; e] =>
      if String.eqb t "let" then match dec_kind k, dec_ex e with Some k, Some e => Some (QLet n k e) | _, _ => None end else None
  | Lx [Ax t; e] => if String.eqb t "filt" then option_map QFilt (dec_ex e) else None
  | _ => None
  end.

Definition dec_field (x : sx) : option (string * kind) :=
  match x with
  | Lx [Ax _; Qx n; k] => match dec_kind k with Some (Some k) => Some (n, k) | _ => None end
  | _ => None
  end.

Definition dec_marm (x : sx) : option (pat * option ex * ex) :=
  match x with
  | Lx [Ax _; p; e] => match dec_pat p, dec_ex e with Some p, Some e => Some (p, None, e) | _, _ => None end
  | Lx [Ax _; p; g; e] =>
      match dec_pat p, dec_ex g, dec_ex e with Some p, Some g, Some e => Some (p, Some g, e) | _, _, _ => None end
  | _ => None
  end.

Definition dec_rhs (x : sx) : option rhs :=
  match x with
  | Lx (Ax t :: args) =>
      if String.eqb t "table" then
        match args with
        | Lx (Ax _ :: fs) :: rows =>
            match map_opt dec_field fs,
                  map_opt (fun r => match r with Lx (Ax _ :: cs) => map_opt dec_ex cs | _ => None end) rows with
            | Some fs, Some rows => Some (RTable fs rows)
            | _, _ => None
            end
        | _ => None
        end
      else if String.eqb t "match" then
        match args with
        | src :: arms =>
            match dec_ex src, map_opt dec_marm arms with
            | Some src, Some arms => Some (RMatch src (map (fun a => (fst a, fst (fst (snd a)), snd (fst (snd a)), snd (snd a))) (set_last arms)))
            | _, _ => None
            end
        | _ => None
        end
      else if String.eqb t "compr" then
        match args with
        | m :: e :: qs =>
            match sx_bool m, dec_ex e, map_opt dec_qual qs with
            | Some m, Some e, Some qs => Some (RCompr m e qs)
            | _, _, _ => None
            end
        | _ => None
        end
      else option_map RExp (dec_ex x)
  | _ => None
  end.

Definition dec_variant (x : sx) : option (string * option kind) :=
  match x with Lx [Ax _; Qx n; k] => option_map (fun k => (n, k)) (dec_kind k) | _ => None end.

Definition dec_farm (x : sx) : option (pat * ex) :=
  match x with
  | Lx [Ax _; p; e] => match dec_pat p, dec_ex e with Some p, Some e => Some (p, e) | _, _ => None end
  | _ => None
  end.

(* ---- state machines *)
Fixpoint dec_fpat (x : sx) : option fpat :=
  let dl := fix dl (l : list sx) : option (list fpat) :=
    match l with
    | [] => Some []
    | y :: r => match dec_fpat y, dl r with Some a, Some b => Some (a :: b) | _, _ => None end
    end in
  match x with
  | Lx (Ax t :: Qx n :: args) => if String.eqb t "fs" then option_map (FTupS n) (dl args) else None
  | Lx (Ax t :: args) =>
      if String.eqb t "fw" then match args with [] => Some FWild | _ => None end
      else if String.eqb t "fe" then match args with [e] => option_map FExp (dec_ex e) | _ => None end
      else if String.eqb t "ft" then option_map FTup (dl args)
      else if String.eqb t "fa" then
        match args with
        | [Lx pre; Lx (Ax tg :: suf)] =>
            match map_opt dec_item pre, map_opt dec_item suf with
            | Some pre, Some suf =>
                if String.eqb tg "none" then match suf with [] => Some (FArr pre ANone) | _ => None end
                else if String.eqb tg "spread" then Some (FArr pre (ASpread suf))
                else if String.eqb tg "rest" then match suf with [b] => Some (FArr pre (ARest b)) | _ => None end
                else None
            | _, _ => None
            end
        | _ => None
        end
      else None
  | _ => None
  end.

Definition dec_trans (x : sx) : option trans :=
  match x with
  | Lx [Ax t; p] =>
      match dec_fpat p with
      | Some p =>
          if String.eqb t "next" then Some (KNext, p) else if String.eqb t "out" then Some (KOut, p)
          else if String.eqb t "async" then Some (KAsync, p) else None
      | None => None
      end
  | _ => None
  end.

(* the decoder computes the marks: an output transition directly after `-> target` is KOutD *)
Fixpoint set_outd (prev : bool) (ts : list trans) : list trans :=
  match ts with
  | [] => []
  | t :: r =>
      let t' := match fst t with KOut => if prev then (KOutD, snd t) else t | _ => t end in
      t' :: set_outd (next_target t) r
  end.

Definition dec_guard (x : sx) : option (fpat * list trans) :=
  match x with
  | Lx (Ax _ :: c :: ts) =>
      match dec_fpat c, map_opt dec_trans ts with Some c, Some ts => Some (c, set_outd false ts) | _, _ => None end
  | _ => None
  end.

(* the decoder computes the glyphs: a single guard ├, otherwise ├ … ├ └ *)
Definition set_guard_flags {A} (l : list A) : list (bool * A) :=
  match l with [a] => [(false, a)] | _ => set_last l end.

Definition dec_arm (x : sx) : option arm :=
  match x with
  | Lx (Ax t :: p :: rest) =>
      match dec_fpat p with
      | Some p =>
          if String.eqb t "arm" then option_map (ATrans p) (map_opt dec_trans rest)
          else if String.eqb t "garm" then
            option_map (fun gs => AGuard p (map (fun g => (fst g, fst (snd g), snd (snd g))) (set_guard_flags gs)))
                       (map_opt dec_guard rest)
          else None
      | None => None
      end
  | _ => None
  end.

Definition dec_fvar (x : sx) : option fvar :=
  match x with Lx [Ax _; Qx n; k] => option_map (fun k => (n, k)) (dec_kind k) | _ => None end.

Definition dec_state (x : sx) : option (string * option (list fvar)) :=
  match x with
  | Lx [Ax t; Qx n] => if String.eqb t "st" then Some (n, None) else None
  | Lx (Ax t :: Qx n :: vs) => if String.eqb t "stv" then option_map (fun l => (n, Some l)) (map_opt dec_fvar vs) else None
  | _ => None
  end.

Definition dec_stmt (x : sx) : option stmt :=
  match x with
  | Lx (Ax t :: Qx n :: ((Lx (Ax _ :: a) :: k :: arms) as vs)) =>
      if String.eqb t "fun" then
        match map_opt dec_field a, dec_kind k, map_opt dec_farm arms with
        | Some a, Some (Some k), Some arms =>
            Some (SFun n a k (map (fun a => (fst a, fst (snd a), snd (snd a))) (set_last arms)))
        | _, _, _ => None
        end
      else if String.eqb t "fsmspec" then
        match map_opt dec_fvar a, dec_kind k, arms with
        | Some ins, Some out, [Lx (Ax _ :: sts)] =>
            option_map (fun l => SFsmSpec n ins out (map (fun s => (fst s, fst (snd s), snd (snd s))) (set_last l)))
                       (map_opt dec_state sts)
        | _, _, _ => None
        end
      else if String.eqb t "fsmimpl" then
        match map_opt dec_fvar a, dec_fpat k, map_opt dec_arm arms with
        | Some ins, Some st, Some arms => Some (SFsmImpl n ins st arms)
        | _, _, _ => None
        end
      else if String.eqb t "enum" then option_map (SEnum n) (map_opt dec_variant vs)
      else None
  | Lx [Ax t; m; Qx n; k; e] =>
      if String.eqb t "def" then
        match sx_bool m, dec_kind k, dec_rhs e with Some m, Some k, Some e => Some (SDefine m n k e) | _, _, _ => None end
      else if String.eqb t "opasg" then
        match m, k with
        | Lx subs, Ax a =>
            match map_opt dec_ex subs, dec_aop a, dec_rhs e with
            | Some s, Some a, Some e => Some (SOpAssign n s a e)
            | _, _, _ => None
            end
        | _, _ => None
        end
      else None
  | Lx [Ax t; Qx n; Lx subs; e] =>
      if String.eqb t "asg" then
        match map_opt dec_ex subs, dec_rhs e with Some s, Some e => Some (SAssign n s e) | _, _ => None end
      else None
  | Lx (Ax t :: Qx n :: vs) =>
      if String.eqb t "enum" then option_map (SEnum n) (map_opt dec_variant vs)
      else if String.eqb t "com" then match vs with [] => Some (SComment n) | _ => None end
      else None
  | Lx [Ax t; e] => if String.eqb t "expr" then option_map SExpr (dec_rhs e) else None
  | _ => None
  end.

(* ------------------------------------------------------------------ observations of harness mode `format` *)
Record fobs := FObs { o_text : string; o_reparse : string; o_same : Z; o_idem : Z; o_feat : list string }.

Inductive obs8 :=
| O8Skip                         (* the source itself does not parse: not a program of the quantifier *)
| O8FmtPanic (feat : list string)
| O8Fmt (o : fobs)
| O8Other.

Definition words (l : list sx) : list string :=
  flat_map (fun x => match x with Ax s => [s] | _ => [] end) l.

Definition dec_obs8 (x : sx) : obs8 :=
  match x with
  | Lx (Ax t :: rest) =>
      if String.eqb t "perr" then O8Skip
      else if String.eqb t "panic" then O8Skip
      else if String.eqb t "hang" then O8Skip        (* the driver killed the harness: parsing the *source* did not end (C09) *)
      else if String.eqb t "fmt-panic" then
        match rest with [Lx (Ax _ :: fs)] => O8FmtPanic (words fs) | _ => O8Other end
      else if String.eqb t "fmt" then
        match rest with
        | Qx text :: Ax rp :: Zx same :: Zx idem :: _ :: _ :: Lx (Ax _ :: fs) :: _ => O8Fmt (FObs text rp same idem (words fs))
        | _ => O8Other
        end
      else O8Other
  | _ => O8Other
  end.

Definition all_good (o : fobs) : bool :=
  String.eqb (o_reparse o) "ok" && Z.eqb (o_same o) 1 && Z.eqb (o_idem o) 1.

(* what went wrong, as one word *)
Definition symptom (o : fobs) : string :=
  if String.eqb (o_reparse o) "perr" then "perr"
  else if negb (String.eqb (o_reparse o) "ok") then "panic"
  else if negb (Z.eqb (o_same o) 1) then "tree"
  else "idem".

Definition mem (s : string) (l : list string) : bool := existsb (String.eqb s) l.

(* ---- comparison (1)+(2): a program of the modelled subset.
   The formatter's text must be the canonical text (then the round trip must succeed: binding `ok`), or — inside a
   defect class — exactly the text the model of formatter.rs predicts (then a failed round trip is the known finding).
   Accepting the canonical text also inside the classes keeps the check valid once formatter.rs is repaired. *)
(* a second lexical clash of the real grammar, outside the model grammar: rows of a table literal are printed on one
   line separated by ` | `; a row after the first that begins with a variable followed by an expression that starts
   with a colon (an atom `:red`, a tuple-struct `:a(1)`) then reads `| b :red |`, which structures.rs::record accepts
   as the pipe-delimited record `|b: red|` (binding := identifier, kind?, whitespace*, ":", expression) *)
Fixpoint starts_colon (e : ex) : bool :=
  match e with
  | ELit (LAtom _) _ => true
  | ETupS _ _ => true
  | ETrans e => starts_colon e
  | ETerm l _ => starts_colon l
  | ERange a _ _ _ => starts_colon a
  | _ => false
  end.

(* after a leading `¬` the identifier may continue with letters, digits and `/`: `¬22/7` is a field name too *)
Fixpoint idlike_tail (e : ex) : bool :=
  match e with
  | EVar _ None => true
  | ELit (LBool _) None => true
  | ELit (LNum s) None => idtail_num s
  | ENot e => idlike_tail e
  | _ => false
  end.
Definition idlike (e : ex) : bool :=
  match e with
  | EVar _ None => true
  | ELit (LBool _) None => true
  | ENot e => idlike_tail e
  | _ => false
  end.

(* the first cell of the row is read as the field name: a variable (with or without kind), or anything else the grammar
   accepts as a field name (`true`, `¬b`: see the class map-keys-read-as-record below) *)
Definition row_binding (row : list ex) : bool :=
  match row with
  | c0 :: c :: _ => (match c0 with EVar _ _ => true | _ => idlike c0 end) && starts_colon c
  | _ => false
  end.

Definition rhs_rowbinding (r : rhs) : bool :=
  match r with RTable _ (_ :: rows) => existsb row_binding rows | _ => false end.

Definition c_rowbinding (p : prog) : bool :=
  existsb (fun s => match s with
                    | SDefine _ _ _ r | SAssign _ _ r | SOpAssign _ _ _ r | SExpr r => rhs_rowbinding r
                    | _ => false
                    end) p.

(* a third clash: formatter.rs prints logical not as `¬`, and the real grammar accepts `¬x` as a record FIELD NAME; a map
   all of whose keys are identifier-like once printed (`a`, `true`, `¬x`) therefore re-parses as a record.  (With the
   `!` spelling at least one key is not a field name, which is why the source parsed as a map.) *)
Definition c_mapnot (e : ex) : bool :=
  match e with
  | EMap ((_ :: _) as ms) =>
      forallb (fun m => idlike (fst m)) ms && existsb (fun m => match fst m with ENot _ => true | _ => false end) ms
  | _ => false
  end.

(* a fourth: inside a table literal the cells are delimited by `|`; a cell that contains the logical-or operator `||`
   is read by the real grammar as cell delimiters (the SOURCE already denotes another tree) *)
Definition has_or (e : ex) : bool := has_op (fun o => match o with OOr => true | _ => false end) e.
Definition rhs_tableor (r : rhs) : bool :=
  match r with RTable _ rows => existsb (existsb (exists_ex has_or)) rows | _ => false end.
Definition c_tableor (p : prog) : bool :=
  existsb (fun s => match s with
                    | SDefine _ _ _ r | SAssign _ _ r | SOpAssign _ _ _ r | SExpr r => rhs_tableor r
                    | _ => false
                    end) p.

(* a fifth: Formatter::pattern_array joins the parts of an array pattern with blanks; an item (literal / variable)
   followed by the wildcard reads `a * b`, which patterns.rs::pattern_array_item parses as ONE expression, the product
   (and `[a *]`, `[a * | t]` do not parse).  The source spelling `[a, *, b]` denotes the three-item pattern. *)
Fixpoint adj_wild (l : list apart) : bool :=
  match l with
  | a :: ((b :: _) as r) =>
      (match a, b with AI IWild, _ => false | AI _, AI IWild => true | _, _ => false end) || adj_wild r
  | _ => false
  end.
Fixpoint pat_arrwild (p : pat) : bool :=
  match p with
  | PItem _ => false
  | PTup ps | PTupS _ ps => existsb pat_arrwild ps
  | PArr pre tl => adj_wild (parts pre tl)
  end.
Fixpoint fpat_arrwild (p : fpat) : bool :=
  match p with
  | FWild | FExp _ => false
  | FTup ps | FTupS _ ps => existsb fpat_arrwild ps
  | FArr pre tl => adj_wild (parts pre tl)
  end.
Definition transs_arrwild (ts : list trans) : bool := existsb (fun t => fpat_arrwild (snd t)) ts.
Definition arm_arrwild (a : arm) : bool :=
  match a with
  | ATrans p ts => fpat_arrwild p || transs_arrwild ts
  | AGuard p gs => fpat_arrwild p || existsb (fun g => fpat_arrwild (snd (fst g)) || transs_arrwild (snd g)) gs
  end.
Definition rhs_arrwild (r : rhs) : bool :=
  match r with
  | RMatch _ arms => existsb (fun a => pat_arrwild (snd (fst (fst a)))) arms
  | RCompr _ _ qs => existsb (fun q => match q with QGen p _ => pat_arrwild p | _ => false end) qs
  | _ => false
  end.
Definition c_arrwild (p : prog) : bool :=
  existsb (fun s => match s with
                    | SDefine _ _ _ r | SAssign _ _ r | SOpAssign _ _ _ r | SExpr r => rhs_arrwild r
                    | SFun _ _ _ arms => existsb (fun a => pat_arrwild (snd (fst a))) arms
                    | SFsmImpl _ _ st arms => fpat_arrwild st || existsb arm_arrwild arms
                    | _ => false
                    end) p.

(* a sixth, the same mechanism as the class [prog_koutd] but below the token level: in a guard, `-> x =:= y` (a formula
   that begins with an assignable target followed by an operator whose text begins with `=`) is read as the statement
   transition `-> x = :=…`.  The source spelling `-> x ≡ y` parses; formatter.rs prints `=:=`. *)
Fixpoint lead_eq (e : ex) : bool :=
  match e with
  | ETerm l ((o, _) :: _) => (is_target l && match o with OSEq | OSNeq => true | _ => false end) || lead_eq l
  | ERange a _ _ _ => lead_eq a
  | _ => false
  end.
Definition guard_assign (g : guard) : bool :=
  existsb (fun t => match t with (KNext, FExp e) => lead_eq e | _ => false end) (snd g).
Definition c_guardassign (p : prog) : bool :=
  existsb (fun s => match s with
                    | SFsmImpl _ _ _ arms =>
                        existsb (fun a => match a with AGuard _ gs => existsb guard_assign gs | _ => false end) arms
                    | _ => false
                    end) p.

Definition lex_class_of (p : prog) : option string :=
  if exists_prog c_commaswizzle p then Some "comma-swizzle"
  else if c_rowbinding p then Some "table-row-reads-as-record"
  else if exists_prog c_mapnot p then Some "map-keys-read-as-record"
  else if c_arrwild p then Some "array-pattern-item-then-wildcard"
  else if c_guardassign p then Some "fsm-guard-arrow-reads-as-assignment"
  else if c_tableor p then Some "table-cell-or"      (* last: in this class only the SOURCE is misread *)
  else None.

(* classes in which the real grammar reads the SOURCE text of the case as another tree than p *)
Definition source_ambiguous (p : prog) : bool := c_rowbinding p || c_tableor p.

(* the real parser read (part of) the source as Mechdown: a paragraph, or a numbered section title (`3.14..x` followed by a
   line that begins with dashes, e.g. an empty comment `--`, is the subtitle `3.` + text + underline) *)
Definition read_as_prose (feat : list string) : bool :=
  mem "Paragraph" feat || mem "section-subtitle" feat || mem "Subtitle" feat.

Definition judge_prog (p : prog) (o : obs8) : sx :=
  let ti := fmt_prog true p in
  let tc := fmt_prog false p in
  match o with
  | O8Skip => v_adv "source-does-not-parse"
  | O8Other => v_bad "unreadable-observation" (Ax "fmt")
  | O8FmtPanic _ =>
      if existsb is_panic ti then v_kf "matrix-jagged-panic" else v_bad "unexpected-format-panic" (Qx (render tc))
  | O8Fmt ob =>
      (* the case claims that its source text denotes the tree p, a program of code statements only; when the real parser
         read (part of) the text as prose, the claim is void and nothing is compared (the Mechdown reading of a line is
         C10's subject; the real round trip of such a text is still judged by the `diff` stream) *)
      if read_as_prose (o_feat ob) then v_adv "source-read-as-prose" else
      if String.eqb (o_text ob) (render tc) then
        (if all_good ob then v_ok "roundtrip"
         else match lex_class_of p with
              | Some id => v_kf id
              | None => v_bad "roundtrip-failed" (Qx (symptom ob))
              end)
      else if negb (existsb is_panic ti) && String.eqb (o_text ob) (render ti) then
        (if all_good ob then v_ok "roundtrip-other-text"
         else match class_of p with
              | Some id => v_kf id
              | None => v_bad "unclassified-defect" (Qx (render tc))
              end)
      else
        (* inside a lexical-clash class the real grammar may already read the SOURCE as another tree than p (one-line
           table rows: `| b :red |` is a record); the claim "this text denotes p" is then void; the real round trip
           was still observed and must have held *)
        match lex_class_of p with
        | Some _ => if all_good ob then v_adv "lexical-clash-source-reads-differently"
                    else v_bad "text-differs-from-model" (Qx (render (if existsb is_panic ti then tc else ti)))
        | None => v_bad "text-differs-from-model" (Qx (render (if existsb is_panic ti then tc else ti)))
        end
  end.

(* ---- comparison (2) only: any program; the class is decided from the features of the implementation's own tree *)
(* (finding id, features any of which puts the program in the class, symptoms the class is known to show) *)
Definition diff_classes : list (string * list string * list string) :=
  [ ("matrix-jagged-panic", ["jagged"], ["fmtpanic"]);
    ("matrix-rows", ["multirow"], ["tree"; "perr"; "idem"]);
    ("named-arg-colon", ["named-arg"], ["tree"; "perr"; "idem"]);
    ("range-increment-order", ["range-inc"], ["tree"; "idem"; "perr"]);
    ("strict-neq-spelling", ["StrictNotEqual"], ["perr"]);
    ("subset-spelling", ["Subset"; "Superset"], ["tree"; "idem"]);
    ("cross-spelling", ["Cross"], ["tree"; "idem"]);
    ("comment-sigil", ["Comment"; "trailing-comment"], ["tree"; "idem"; "perr"]);
    ("scientific-literal", ["Scientific"], ["perr"; "tree"]);
    ("table-literal-bars", ["table-literal"], ["perr"; "tree"]);
    ("kind-html-escape", ["kind-record"; "kind-table"], ["perr"]);
    ("empty-map-as-set", ["empty-map"], ["tree"]);
    ("tuple-struct-sigil", ["tuple-struct-value"], ["tree"; "perr"]);
    ("swizzle-dots", ["Swizzle"], ["perr"; "tree"]);
    ("string-escapes", ["str-special"], ["perr"; "tree"; "idem"]);
    ("mika-html", ["Mika"], ["perr"; "tree"]);
    ("md-fenced-mech-layout", ["FencedMechCode"], ["perr"; "tree"; "idem"]);
    ("md-section-numbering", ["section-subtitle"; "Subtitle"], ["tree"; "idem"; "perr"]);
    ("md-abstract-sigil", ["Abstract"], ["tree"; "idem"; "perr"]);
    ("md-list-layout", ["List"], ["perr"; "tree"; "idem"]);
    ("md-code-block-newline", ["CodeBlock"], ["tree"; "idem"; "perr"]);
    ("md-callout-sigil", ["WarningBlock"; "ErrorBlock"; "SuccessBlock"], ["tree"; "idem"]);
    ("md-table-cell-newline", ["md-table"], ["perr"; "tree"]);
    ("md-image-caption-newline", ["Image"], ["perr"; "tree"]);
    ("md-citation-html", ["Citation"], ["perr"; "tree"]);
    ("md-equation-space", ["Equation"], ["tree"; "idem"]);
    ("md-diagram-fence", ["Diagram"], ["perr"; "tree"]);
    ("md-inline-mech-braces", ["InlineMechCode"], ["tree"; "idem"; "perr"]);
    ("md-underline-sigil", ["Underline"], ["tree"; "idem"]);
    ("md-raw-hyperlink", ["raw-hyperlink"], ["perr"; "tree"]);
    ("md-figure-table", ["FigureTable"], ["perr"; "tree"]);
    ("md-inline-code-escape", ["inline-code-special"], ["perr"; "tree"; "idem"]);
    ("comma-swizzle", ["comma-swizzle"], ["tree"; "perr"]);
    ("md-escape-dropped", ["md-escape"], ["perr"; "tree"; "idem"]) ].

(* every class whose features and symptom match: a document can combine elements of several classes and only the
   symptom says that one of them failed, not which; the driver accepts the verdict when one of the ids is listed *)
Definition find_class (classes : list (string * list string * list string)) (feat : list string) (sym : string) : list string :=
  map (fun c => fst (fst c))
      (filter (fun c => existsb (fun f => mem f feat) (snd (fst c)) && mem sym (snd c)) classes).

Definition v_kfs (ids : list string) : sx := Lx (Ax "kf" :: map Ax ids).

Definition judge_diff (classes : list (string * list string * list string)) (o : obs8) : sx :=
  match o with
  | O8Skip => v_adv "source-does-not-parse"
  | O8Other => v_bad "unreadable-observation" (Ax "fmt")
  | O8FmtPanic feat =>
      match find_class classes feat "fmtpanic" with (_ :: _) as ids => v_kfs ids | [] => v_bad "format-panic" (Ax "text") end
  | O8Fmt ob =>
      if all_good ob then v_ok "diff"
      else match find_class classes (o_feat ob) (symptom ob) with
           | (_ :: _) as ids => v_kfs ids
           | [] => v_bad "roundtrip-failed" (Qx (symptom ob))
           end
  end.

Definition judge_fmt (x : sx) : sx :=
  match x with
  | Lx [Lx (Ax t :: stmts); o] =>
      if String.eqb t "prog" then
        match map_opt dec_stmt stmts with
        | Some p =>
            if wf_prog p && lex_ok p then
              let o' := dec_obs8 o in
              let v := judge_prog p o' in
              (* the text differs from the model's AND the source itself is ambiguous for the real grammar: the case's
                 claim about p is void; what remains is the real round trip of whatever tree the parser built, which is
                 judged like every other document (by its own features) *)
              match v with
              | Lx [Ax "bad"; Ax "text-differs-from-model"; _] => if source_ambiguous p then judge_diff diff_classes o' else v
              | _ => v
              end
            else v_malformed
        | None => v_malformed
        end
      else if String.eqb t "diff" then judge_diff diff_classes (dec_obs8 o)
      else v_malformed
  | _ => v_malformed
  end.

Definition run_line (s : string) : string := run_with judge_fmt s.
