(* C04 — indexed assignment changes exactly the addressed elements.
   Executable definitions only (proofs: Proofs/AssignP.v).

   Three layers:
   * the PROPERTY (spec_step): 1-based column-major positions addressed by an index form, all-or-nothing
     update of exactly those positions ([app_each] over the addressed linear positions), errors leave
     the matrix unchanged;
   * a FAITHFUL MODEL OF WHAT MECH DOES (mech_step): the dispatch of
     src/interpreter/src/statements.rs::{subscript_ref, op_assign!} to the kernels of
     src/interpreter/src/stdlib/assign/matrix.rs and machines/math/src/op_assign/*.rs, each kernel as the
     sequence of element accesses of its loop ("attempts"; an access outside the storage panics, which
     ends the loop and keeps the writes done so far);
   * the JUDGE (judge_session) that folds the property over the statements of one interpreter session
     and compares the variable after every statement; where the observation differs from the property it
     answers (kf id) only if the statement lies in the decidable class [kf_class] AND the observation is
     exactly the behaviour the faithful model predicts. *)
From Coq Require Import List Arith ZArith String Bool.
From MechV Require Import Base.Sexp Base.Obs.
Import ListNotations.
Open Scope string_scope.

(* ------------------------------------------------------------------ *)
(* index forms                                                          *)
(* ------------------------------------------------------------------ *)
Inductive ixc : Type :=
| IS (z : Z)               (* scalar index *)
| IV (l : list Z)          (* vector of indices *)
| IR (a b : Z)             (* range a..b, b exclusive  (a..=b is sent as IR a (b+1)) *)
| IAll                     (* : *)
| IM (l : list bool).      (* logical mask *)

Inductive target : Type := TWhole | T1 (i : ixc) | T2 (i j : ixc).
Inductive aop : Type := OSet | OAdd | OSub | OMul | ODiv.

Definition is_set (o : aop) : bool := match o with OSet => true | _ => false end.

Definition range_list (a b : Z) : list Z :=
  map (fun i => (a + Z.of_nat i)%Z) (seq 0 (Z.to_nat (b - a))).

(* 0-based position of the 1-based index z in a dimension of n elements *)
Definition chk (n : nat) (z : Z) : option nat :=
  if andb (Z.leb 1 z) (Z.leb z (Z.of_nat n)) then Some (Z.to_nat (z - 1)) else None.

Fixpoint mask_pos (i : nat) (l : list bool) : list nat :=
  match l with
  | [] => []
  | b :: r => (if b then [i] else []) ++ mask_pos (S i) r
  end.

(* what an index component addresses in a dimension of n elements *)
Inductive cstat : Type :=
| CValid (ps : list nat)    (* these 0-based positions, in this order *)
| COut                      (* addresses something outside the dimension *)
| CSoft (why : string).     (* the property does not fix this case *)

Definition comp_status (n : nat) (c : ixc) : cstat :=
  match c with
  | IS z => match chk n z with Some p => CValid [p] | None => COut end
  | IV l => match map_opt (chk n) l with Some ps => CValid ps | None => COut end
  | IR a b =>
      if Z.leb b a then CSoft "empty-range"
      else match map_opt (chk n) (range_list a b) with Some ps => CValid ps | None => COut end
  | IAll => CValid (seq 0 n)
  | IM l =>
      if Nat.eqb (List.length l) n then CValid (mask_pos 0 l)
      else if existsb (fun p => Nat.leb n p) (mask_pos 0 l) then COut
      else CSoft "mask-length"
  end.

(* linear (column-major) positions addressed in an r x c matrix *)
Definition lin2 (r : nat) (ri cj : list nat) : list nat :=
  flat_map (fun cc => map (fun rr => cc * r + rr) ri) cj.

Definition target_status (r c : nat) (t : target) : cstat :=
  match t with
  | TWhole => CValid (seq 0 (r * c))
  | T1 i => comp_status (r * c) i
  | T2 i j =>
      match comp_status r i, comp_status c j with
      | CSoft w, _ => CSoft w
      | _, CSoft w => CSoft w
      | CValid ri, CValid cj => CValid (lin2 r ri cj)
      | CValid [], COut => CSoft "empty-selection"
      | COut, CValid [] => CSoft "empty-selection"
      | _, _ => COut
      end
  end.

Fixpoint nodupb (l : list nat) : bool :=
  match l with
  | [] => true
  | x :: r => andb (negb (existsb (Nat.eqb x) r)) (nodupb r)
  end.

(* ------------------------------------------------------------------ *)
(* updates, polymorphic in the element type                             *)
(* ------------------------------------------------------------------ *)
Section Upd.
  Context {A : Type}.

  Fixpoint upd_nth (p : nat) (v : A) (l : list A) : list A :=
    match l, p with
    | [], _ => []
    | _ :: r, O => v :: r
    | x :: r, S p' => x :: upd_nth p' v r
    end.

  (* new element = f old source, at each (position, source element) pair in order;
     None when a position is outside the list or f is undefined *)
  Fixpoint app_each (f : A -> A -> option A) (ps : list nat) (vs : list A) (d : list A) : option (list A) :=
    match ps, vs with
    | p :: ps', v :: vs' =>
        match nth_error d p with
        | Some old =>
            match f old v with
            | Some new => app_each f ps' vs' (upd_nth p new d)
            | None => None
            end
        | None => None
        end
    | _, _ => Some d
    end.

  Definition f_set : A -> A -> option A := fun _ v => Some v.

  (* plain assignment of one value to a list of positions (repeats allowed) *)
  Definition set_all (ps : list nat) (v : A) (d : list A) : option (list A) :=
    app_each f_set ps (repeat v (List.length ps)) d.

  (* reading the addressed elements *)
  Definition read_at (ps : list nat) (d : list A) : option (list A) := map_opt (nth_error d) ps.

End Upd.

Section Run.
  Context {A : Type}.

  (* a kernel loop of mech: element accesses in loop order.  (Some p, Some v): write g old v at p;
     a missing position or source element: the access panics; the writes done so far stay.
     The data are patterns: None = an element whose value the model does not predict.
     g old v = Some (Some new): value; Some None: the arithmetic itself panics (overflow, division by
     zero: dev profile); None: value not predicted (and assumed not to panic).
     Result: (true, d') finished, (false, d') panicked. *)
  Fixpoint run_attempts (g : option A -> A -> option (option A)) (ats : list (option nat * option A))
           (d : list (option A)) : bool * list (option A) :=
    match ats with
    | [] => (true, d)
    | (Some p, Some v) :: r =>
        match nth_error d p with
        | Some old =>
            match g old v with
            | Some (Some new) => run_attempts g r (upd_nth p (Some new) d)
            | Some None => (false, d)
            | None => run_attempts g r (upd_nth p None d)
            end
        | None => (false, d)
        end
    | _ :: _ => (false, d)
    end.

  Definition m_set : option A -> A -> option (option A) := fun _ v => Some (Some v).

  Fixpoint pat_match (eqb : A -> A -> bool) (pat : list (option A)) (d : list A) : bool :=
    match pat, d with
    | [], [] => true
    | None :: pr, _ :: dr => pat_match eqb pr dr
    | Some a :: pr, b :: dr => andb (eqb a b) (pat_match eqb pr dr)
    | _, _ => false
    end.
End Run.

(* ------------------------------------------------------------------ *)
(* element arithmetic on canonical payloads (exact region only)         *)
(* ------------------------------------------------------------------ *)
Open Scope Z_scope.

Definition kind_bits (k : string) : option (bool * Z) :=
  if String.eqb k "u8" then Some (false, 8) else if String.eqb k "u16" then Some (false, 16)
  else if String.eqb k "u32" then Some (false, 32) else if String.eqb k "u64" then Some (false, 64)
  else if String.eqb k "u128" then Some (false, 128)
  else if String.eqb k "i8" then Some (true, 8) else if String.eqb k "i16" then Some (true, 16)
  else if String.eqb k "i32" then Some (true, 32) else if String.eqb k "i64" then Some (true, 64)
  else if String.eqb k "i128" then Some (true, 128)
  else None.

Definition int_lo (sw : bool * Z) : Z := if fst sw then - 2 ^ (snd sw - 1) else 0.
Definition int_hi (sw : bool * Z) : Z := if fst sw then 2 ^ (snd sw - 1) - 1 else 2 ^ snd sw - 1.

Definition is_float (k : string) : bool := orb (String.eqb k "f64") (String.eqb k "f32").
Definition is_numeric (k : string) : bool :=
  match kind_bits k with
  | Some _ => true
  | None => orb (is_float k) (orb (String.eqb k "r64") (String.eqb k "c64"))
  end.

Definition in_range (lo hi z : Z) : bool := andb (lo <=? z) (z <=? hi).

Definition arith_int (lo hi : Z) (o : aop) (a b : Z) : option Z :=
  let r := match o with
           | OSet => Some b
           | OAdd => Some (a + b)
           | OSub => Some (a - b)
           | OMul => Some (a * b)
           | ODiv => if b =? 0 then None else if Z.rem a b =? 0 then Some (Z.quot a b) else None
           end in
  match r with
  | Some z => if andb (andb (in_range lo hi a) (in_range lo hi b)) (in_range lo hi z) then Some z else None
  | None => None
  end.

(* IEEE binary formats as exact dyadic numbers m * 2^e.  p = precision (53 / 24), eb = exponent bits.
   Only finite normal numbers and +0 are decoded; everything else is outside the exact region. *)
Definition fdec (p eb bits : Z) : option (Z * Z) :=
  let mb := p - 1 in
  if orb (bits <? 0) (2 ^ (mb + eb + 1) <=? bits) then None else
  let sign := bits / 2 ^ (mb + eb) in
  let ex := (bits / 2 ^ mb) mod 2 ^ eb in
  let ma := bits mod 2 ^ mb in
  if ex =? 0 then (if andb (ma =? 0) (sign =? 0) then Some (0, 0) else None)
  else if ex =? 2 ^ eb - 1 then None
  else let m := 2 ^ mb + ma in
       Some ((if sign =? 0 then m else - m), ex - (2 ^ (eb - 1) - 1) - mb).

Definition fenc (p eb : Z) (v : Z * Z) : option Z :=
  let '(m, e) := v in
  let mb := p - 1 in
  if m =? 0 then Some 0 else
  let a := Z.abs m in
  let sh := p - (Z.log2 a + 1) in
  let exact := if 0 <=? sh then true else (a mod 2 ^ (- sh) =? 0) in
  if negb exact then None else
  let m' := if 0 <=? sh then a * 2 ^ sh else a / 2 ^ (- sh) in
  let ex := (e - sh) + (2 ^ (eb - 1) - 1) + mb in
  if andb (1 <=? ex) (ex <=? 2 ^ eb - 2)
  then Some ((if m <? 0 then 2 ^ (mb + eb) else 0) + ex * 2 ^ mb + (m' - 2 ^ mb))
  else None.

Definition dy_add (x y : Z * Z) : option (Z * Z) :=
  let '(m1, e1) := x in
  let '(m2, e2) := y in
  if m1 =? 0 then Some y else if m2 =? 0 then Some x else
  if 256 <? Z.abs (e1 - e2) then None else
  let e0 := Z.min e1 e2 in
  let m := m1 * 2 ^ (e1 - e0) + m2 * 2 ^ (e2 - e0) in
  Some (if m =? 0 then (0, 0) else (m, e0)).

Definition dy_neg (x : Z * Z) : Z * Z := (- fst x, snd x).

(* a zero result must be +0: refused when a factor is negative (IEEE gives -0) *)
Definition dy_mul (x y : Z * Z) : option (Z * Z) :=
  let '(m1, e1) := x in
  let '(m2, e2) := y in
  if orb (m1 =? 0) (m2 =? 0) then (if orb (m1 <? 0) (m2 <? 0) then None else Some (0, 0))
  else Some (m1 * m2, e1 + e2).

Definition dy_div (x y : Z * Z) : option (Z * Z) :=
  let '(m1, e1) := x in
  let '(m2, e2) := y in
  if m2 =? 0 then None
  else if m1 =? 0 then (if m2 <? 0 then None else Some (0, 0))
  else let n := m1 * 2 ^ 64 in
       if n mod m2 =? 0 then Some (n / m2, e1 - e2 - 64) else None.

Definition dy_op (o : aop) (x y : Z * Z) : option (Z * Z) :=
  match o with
  | OSet => Some y
  | OAdd => dy_add x y
  | OSub => dy_add x (dy_neg y)
  | OMul => dy_mul x y
  | ODiv => dy_div x y
  end.

Definition obind {A B} (a : option A) (f : A -> option B) : option B :=
  match a with Some x => f x | None => None end.

Definition fl_op (p eb : Z) (o : aop) (a b : Z) : option Z :=
  obind (fdec p eb a) (fun x => obind (fdec p eb b) (fun y => obind (dy_op o x y) (fenc p eb))).

(* the result of an operation must itself be a representable number: rounds to itself *)
Definition fl_round (p eb : Z) (v : option (Z * Z)) : option (Z * Z) :=
  obind v (fun d => obind (fenc p eb d) (fun _ => Some d)).

(* rationals n/d: mech's R64 is Ratio<i64>; exact region |n|, d < 2^31 *)
Definition q_small (n d : Z) : bool := andb (Z.abs n <? 2 ^ 31) (andb (0 <? d) (d <? 2 ^ 31)).
Definition q_norm (n d : Z) : option (Z * Z) :=
  if d =? 0 then None else
  let g := Z.gcd n d in
  let s := if d <? 0 then -1 else 1 in
  let n' := (s * n) / g in
  let d' := (s * d) / g in
  if q_small n' d' then Some (n', d') else None.
Definition q_op (o : aop) (n1 d1 n2 d2 : Z) : option (Z * Z) :=
  if negb (andb (q_small n1 d1) (q_small n2 d2)) then None else
  match o with
  | OSet => Some (n2, d2)
  | OAdd => q_norm (n1 * d2 + n2 * d1) (d1 * d2)
  | OSub => q_norm (n1 * d2 - n2 * d1) (d1 * d2)
  | OMul => q_norm (n1 * n2) (d1 * d2)
  | ODiv => if n2 =? 0 then None else q_norm (n1 * d2) (d1 * n2)
  end.

(* complex: componentwise; the product as num_complex computes it, every intermediate exact *)
Definition c_op (o : aop) (a b c d : Z) : option (Z * Z) :=
  let p := 53 in let eb := 11 in
  obind (fdec p eb a) (fun xa => obind (fdec p eb b) (fun xb =>
  obind (fdec p eb c) (fun xc => obind (fdec p eb d) (fun xd =>
  match o with
  | OSet => Some (c, d)
  | OAdd => obind (obind (dy_add xa xc) (fenc p eb)) (fun re =>
            obind (obind (dy_add xb xd) (fenc p eb)) (fun im => Some (re, im)))
  | OSub => obind (obind (dy_add xa (dy_neg xc)) (fenc p eb)) (fun re =>
            obind (obind (dy_add xb (dy_neg xd)) (fenc p eb)) (fun im => Some (re, im)))
  | OMul =>
      obind (fl_round p eb (dy_mul xa xc)) (fun ac => obind (fl_round p eb (dy_mul xb xd)) (fun bd =>
      obind (fl_round p eb (dy_mul xa xd)) (fun ad => obind (fl_round p eb (dy_mul xb xc)) (fun bc =>
      obind (obind (dy_add ac (dy_neg bd)) (fenc p eb)) (fun re =>
      obind (obind (dy_add ad bc) (fenc p eb)) (fun im => Some (re, im)))))))
  | ODiv => None
  end)))).

Close Scope Z_scope.

(* new element = old <op> source on payloads of kind k; None = outside the exact region *)
Definition arith (k : string) (o : aop) (a b : sx) : option sx :=
  match o with
  | OSet => Some b
  | _ =>
    match kind_bits k with
    | Some sw =>
        match a, b with
        | Zx x, Zx y => option_map Zx (arith_int (int_lo sw) (int_hi sw) o x y)
        | _, _ => None
        end
    | None =>
        if String.eqb k "f64" then
          match a, b with Zx x, Zx y => option_map Zx (fl_op 53 11 o x y) | _, _ => None end
        else if String.eqb k "f32" then
          match a, b with Zx x, Zx y => option_map Zx (fl_op 24 8 o x y) | _, _ => None end
        else if String.eqb k "r64" then
          match a, b with
          | Lx [Zx n1; Zx d1], Lx [Zx n2; Zx d2] =>
              option_map (fun q => Lx [Zx (fst q); Zx (snd q)]) (q_op o n1 d1 n2 d2)
          | _, _ => None
          end
        else if String.eqb k "c64" then
          match a, b with
          | Lx [Zx re1; Zx im1], Lx [Zx re2; Zx im2] =>
              option_map (fun q => Lx [Zx (fst q); Zx (snd q)]) (c_op o re1 im1 re2 im2)
          | _, _ => None
          end
        else None
    end
  end.

(* what the Rust operators do (dev profile): integer overflow and division by zero panic, integer
   division truncates; other kinds: only the exact region is predicted *)
Definition arith_m (k : string) (o : aop) (a b : sx) : option (option sx) :=
  match o with
  | OSet => Some (Some b)
  | _ =>
    match kind_bits k with
    | Some sw =>
        match a, b with
        | Zx x, Zx y =>
            let lo := int_lo sw in let hi := int_hi sw in
            if negb (andb (in_range lo hi x) (in_range lo hi y)) then None else
            let r := match o with
                     | OAdd => Some (x + y)%Z | OSub => Some (x - y)%Z | OMul => Some (x * y)%Z
                     | _ => if Z.eqb y 0 then None else Some (Z.quot x y)
                     end in
            match r with
            | Some z => if in_range lo hi z then Some (Some (Zx z)) else Some None
            | None => Some None
            end
        | _, _ => None
        end
    | None => option_map Some (arith k o a b)
    end
  end.

Definition lift_m (k : string) (o : aop) (old : option sx) (v : sx) : option (option sx) :=
  match o with
  | OSet => Some (Some v)
  | _ => match old with Some a => arith_m k o a v | None => None end
  end.

(* ------------------------------------------------------------------ *)
(* statements                                                           *)
(* ------------------------------------------------------------------ *)
Inductive source : Type :=
| SSc (k : string) (e : sx)                        (* scalar of kind k *)
| SVec (k : string) (col : bool) (l : list sx).    (* row (col=false) or column vector of kind k *)

Inductive stmt : Type :=
| SAsg (o : aop) (t : target) (s : source)
| SRead (t : target).

Definition src_kind (s : source) : string := match s with SSc k _ => k | SVec k _ _ => k end.

(* ------------------------------------------------------------------ *)
(* the property                                                         *)
(* ------------------------------------------------------------------ *)
Inductive outcome : Type :=
| OkNew (d : list sx)         (* the statement succeeds and x has these elements (same shape, same kind) *)
| MustErr                     (* the statement is an error and x is unchanged *)
| NotFixed (why : string).    (* the property does not say *)

(* `x op= v` without index: a vector source must have the orientation of the vector x *)
Definition whole_shape_ok (t : target) (x : mat sx) (col : bool) : bool :=
  match t with
  | TWhole => if col then andb (Nat.eqb (mcols x) 1) (Nat.leb 2 (mrows x))
              else andb (Nat.eqb (mrows x) 1) (Nat.leb 2 (mcols x))
  | _ => true
  end.

Definition spec_update (k : string) (o : aop) (ps : list nat) (vs : list sx) (d : list sx) : outcome :=
  match app_each (arith k o) ps vs d with
  | Some d' => OkNew d'
  | None => NotFixed "inexact"
  end.

(* the form of the source, independent of what is addressed: None = fine *)
Definition source_form_soft (t : target) (x : mat sx) (src : source) : option string :=
  match src with
  | SSc _ _ => None
  | SVec _ col vs =>
      match t with
      | T2 _ _ => Some "2d-vector-source"
      | _ => if Nat.ltb (List.length vs) 2 then Some "one-element-vector"
             else if negb (whole_shape_ok t x col) then Some "whole-shape"
             else None
      end
  end.

Definition spec_step (k : string) (x : mat sx) (s : stmt) : outcome :=
  match s with
  | SRead _ => NotFixed "read"
  | SAsg o t src =>
      let sk := src_kind src in
      if negb (String.eqb sk k) then
        (if andb (is_numeric sk) (is_numeric k) then NotFixed "numeric-kind" else MustErr)
      else if andb (is_set o) (match t with TWhole => true | _ => false end) then NotFixed "whole-set"
      else if andb (negb (is_set o)) (negb (is_numeric k)) then NotFixed "op-kind"
      else
        match source_form_soft t x src with
        | Some w => NotFixed w
        | None =>
          match target_status (mrows x) (mcols x) t with
          | CSoft w => NotFixed w
          | COut => MustErr
          | CValid ps =>
              match src with
              | SSc _ e =>
                  if andb (negb (is_set o)) (negb (nodupb ps)) then NotFixed "repeated-index"
                  else spec_update k o ps (repeat e (List.length ps)) (mdata x)
              | SVec _ col vs =>
                  if Nat.ltb (List.length vs) (List.length ps) then MustErr
                  else if Nat.ltb (List.length ps) (List.length vs) then NotFixed "long-source"
                  else if negb (nodupb ps) then NotFixed "repeated-index"
                  else spec_update k o ps vs (mdata x)
              end
          end
        end
  end.

(* histories: a statement sequence folded over the variable; an error (or a statement the property does
   not fix) leaves the variable as it is *)
Definition spec_exec (st : string * mat sx) (s : stmt) : string * mat sx :=
  match spec_step (fst st) (snd st) s with
  | OkNew d => (fst st, Mat (mrows (snd st)) (mcols (snd st)) d)
  | _ => st
  end.
Definition spec_run (st : string * mat sx) (ss : list stmt) : string * mat sx := fold_left spec_exec ss st.

(* reading x[t]: the addressed elements in order (shape conventions of reads belong to C03) *)
Definition spec_read (x : mat sx) (t : target) : option (list sx) :=
  match target_status (mrows x) (mcols x) t with
  | CValid ps => match ps with [] => None | _ => read_at ps (mdata x) end
  | _ => None
  end.

(* ------------------------------------------------------------------ *)
(* what mech does                                                       *)
(* ------------------------------------------------------------------ *)
(* an evaluated index component as the dispatch sees it: a one-element vector / range / mask has shape
   [1,1] and falls into the scalar arms, which have no kernel for a matrix-valued index: refused *)
Inductive comp : Type := CS (z : Z) | CU (l : list Z) | CB (l : list bool) | CA | CBad.

Definition comp_of (c : ixc) : comp :=
  match c with
  | IS z => CS z
  | IV l => if Nat.ltb (List.length l) 2 then CBad else CU l
  | IR a b => let l := range_list a b in if Nat.ltb (List.length l) 2 then CBad else CU l
  | IAll => CA
  | IM l => if Nat.ltb (List.length l) 2 then CBad else CB l
  end.

Definition posn (n p : nat) : option nat := if Nat.ltb p n then Some p else None.

Definition dim_attempts (n : nat) (c : comp) : list (option nat) :=
  match c with
  | CS z => [chk n z]
  | CU l => map (chk n) l
  | CB l => map (posn n) (mask_pos 0 l)
  | CA => map Some (seq 0 n)
  | CBad => []
  end.

Definition comb (r : nat) (a b : option nat) : option nat :=
  match a, b with Some i, Some j => Some (j * r + i) | _, _ => None end.
Definition row_outer (r : nat) (ra ca : list (option nat)) : list (option nat) :=
  flat_map (fun a => map (fun b => comb r a b) ca) ra.
Definition col_outer (r : nat) (ra ca : list (option nat)) : list (option nat) :=
  flat_map (fun b => map (fun a => comb r a b) ra) ca.

(* assign_2d_range_range_ub: `for r in 0..ix1.len() { if ix1[r] != 0 { ... sink[(r,c)] ...` uses the
   POSITION r in the index vector as the row *)
Fixpoint ub_rows (n i : nat) (l : list Z) : list (option nat) :=
  match l with
  | [] => []
  | z :: r => (if Z.eqb z 0 then [] else [posn n i]) ++ ub_rows n (S i) r
  end.

(* assign_2d_range_all_b: `column_mut(cix)[rix - 1]` for the mask POSITION rix (0-based) *)
Definition ab_rows (n : nat) (l : list bool) : list (option nat) :=
  map (fun p => match p with O => None | S q => posn n q end) (mask_pos 0 l).

(* element accesses of the kernel chosen by subscript_ref for a scalar source; None = no kernel (refused) *)
(* the kernels for (mask, index vector) and (index vector, mask) exist for f64 only *)
Definition mixed_ok (k : string) : bool := String.eqb k "f64".

(* fx = false: the tree as it is.  fx = true: with the four small repairs of /verif/proposed/C04-*.diff
   (op-assign through a scalar index uses the op kernels, incl. i128; x[mask,:] = v addresses the mask's
   rows; x[vec,mask] = v uses the index values; x[vec,:] /= v divides the addressed rows only). *)
Definition mech_pos2 (fx : bool) (k : string) (r c : nat) (ci cj : comp) : option (list (option nat)) :=
  match ci, cj with
  | CBad, _ => None
  | _, CBad => None
  | CA, CA => None                                                    (* todo!() *)
  | CU l, CS w => Some (match chk c w with
                        | None => [None]                              (* column_mut(c-1) before the loop *)
                        | Some cc => col_outer r (dim_attempts r (CU l)) [Some cc] end)
  | CB l, CS w => Some (match chk c w with
                        | None => [None]
                        | Some cc => col_outer r (dim_attempts r (CB l)) [Some cc] end)
  | CU l, CB m => if mixed_ok k
                  then Some (row_outer r (if fx then dim_attempts r (CU l) else ub_rows r 0 l) (dim_attempts c (CB m)))
                  else None
  | CB l, CU m => if mixed_ok k then Some (row_outer r (dim_attempts r (CB l)) (dim_attempts c (CU m))) else None
  | CB l, CA => Some (col_outer r (if fx then dim_attempts r (CB l) else ab_rows r l) (dim_attempts c CA))
  | CU l, CA => if String.eqb k "i128" then None                      (* impl_set_range_all_arms: no i128 arm *)
                else Some (col_outer r (dim_attempts r (CU l)) (dim_attempts c CA))
  | CA, cj => Some (col_outer r (dim_attempts r CA) (dim_attempts c cj))
  | ci, CA => Some (col_outer r (dim_attempts r ci) (dim_attempts c CA))
  | ci, cj => Some (row_outer r (dim_attempts r ci) (dim_attempts c cj))
  end.

(* x[[b]]: Assign1DB (all elements if b) *)
Definition single_mask (i : ixc) : option bool := match i with IM [b] => Some b | _ => None end.
(* x[[z],w]: MatrixAssignScalarScalar accepts the 1x1 index matrix *)
Definition single_vec_scalar (i j : ixc) : option (Z * Z) :=
  match i, j with IV [z], IS w => Some (z, w) | _, _ => None end.

Definition mech_positions (fx : bool) (k : string) (r c : nat) (t : target) : option (list (option nat)) :=
  match t with
  | TWhole => Some (map Some (seq 0 (r * c)))
  | T1 i =>
      match single_mask i with
      | Some b => Some (if b then map Some (seq 0 (r * c)) else [])
      | None => match comp_of i with CBad => None | ci => Some (dim_attempts (r * c) ci) end
      end
  | T2 i j =>
      match single_vec_scalar i j with
      | Some (z, w) => Some [comb r (chk r z) (chk c w)]
      | None => mech_pos2 fx k r c (comp_of i) (comp_of j)
      end
  end.

Definition with_src (v : sx) (ps : list (option nat)) : list (option nat * option sx) :=
  map (fun p => (p, Some v)) ps.

Fixpoint zip_src (i : nat) (ps : list (option nat)) (vs : list sx) : list (option nat * option sx) :=
  match ps with
  | [] => []
  | p :: r => (p, nth_error vs i) :: zip_src (S i) r vs
  end.

Definition refused (d : list (option sx)) : option (bool * list (option sx)) := Some (false, d).

(* op-assign kernels exist for `x[vector|range] op= ..`, `x[vector|range,:] op= scalar` and `x op= ..`,
   and not for i128 *)
Definition op_kind_ok (fx : bool) (k : string) : bool := andb (is_numeric k) (orb fx (negb (String.eqb k "i128"))).

Definition runm (g : option sx -> sx -> option (option sx)) (ats : list (option nat * option sx)) (d : list (option sx))
  : option (bool * list (option sx)) := Some (run_attempts g ats d).

Definition x_is_row (x : mat sx) : bool := andb (Nat.eqb (mrows x) 1) (Nat.leb 2 (mcols x)).
Definition x_is_col (x : mat sx) : bool := andb (Nat.eqb (mcols x) 1) (Nat.leb 2 (mrows x)).

Definition is_all (c : ixc) : bool := match c with IAll => true | _ => false end.
Definition is_scalar_ix (c : ixc) : bool := match c with IS _ => true | _ => false end.
Definition is_div (o : aop) : bool := match o with ODiv => true | _ => false end.
Definition mres : Type := option (bool * list (option sx)).

(* x[...] = scalar *)
Definition mech_set_scalar (fx : bool) (k : string) (r c : nat) (t : target) (e : sx) (d : list (option sx)) : mres :=
  match t with
  | TWhole => None
  | _ => match mech_positions fx k r c t with
         | Some ps => runm m_set (with_src e ps) d
         | None => refused d
         end
  end.

(* x[...] op= scalar: op_assign! has arms for [Formula], [Formula, All], [Range], [Range, All] only; its
   [1,1] (scalar index) arms compile the PLAIN assignment kernels *)
Definition mech_op_scalar (fx : bool) (k : string) (r c : nat) (o : aop) (t : target) (e : sx) (d : list (option sx)) : mres :=
  let n := r * c in
  match t with
  | TWhole => if op_kind_ok fx k then runm (lift_m k o) (with_src e (map Some (seq 0 n))) d else refused d
  | T1 i =>
      match single_mask i with
      | Some b => runm m_set (with_src e (if b then map Some (seq 0 n) else [])) d
      | None =>
          match comp_of i with
          | CS z => if fx then (if op_kind_ok fx k then runm (lift_m k o) (with_src e (dim_attempts n (CS z))) d
                               else refused d)
                    else runm m_set (with_src e (dim_attempts n (CS z))) d
          | CU l => if op_kind_ok fx k then runm (lift_m k o) (with_src e (dim_attempts n (CU l))) d else refused d
          | _ => refused d
          end
      end
  | T2 i j =>
      if negb (is_all j) then refused d else
      match comp_of i with
      | CS z => let ats := col_outer r (dim_attempts r (CS z)) (dim_attempts c CA) in
                if fx then (if op_kind_ok fx k then runm (lift_m k o) (with_src e ats) d else refused d)
                else runm m_set (with_src e ats) d
      | CU l => if op_kind_ok fx k
                then runm (lift_m k o)
                       (with_src e (if andb (is_div o) (negb fx)
                                    then (* div_assign_2d_vector_all: `for val in sink.iter_mut()` ignores the index *)
                                         map Some (seq 0 n)
                                    else col_outer r (dim_attempts r (CU l)) (dim_attempts c CA))) d
                else refused d
      | _ => refused d
      end
  end.

(* vector sources (rows/columns of >= 2 elements) *)
Definition same_orientation (x : mat sx) (col : bool) : bool :=
  orb (andb (x_is_row x) (negb col)) (andb (x_is_col x) col).

Definition mech_vec (fx : bool) (k : string) (x : mat sx) (o : aop) (t : target) (col : bool) (vs : list sx)
           (d : list (option sx)) : mres :=
  let n := mrows x * mcols x in
  if Nat.ltb (List.length vs) 2 then None else
  match t with
  | TWhole =>
      if is_set o then None
      else if negb (op_kind_ok fx k) then refused d
      else if same_orientation x col
      then (* zip(sink, source): stops at the shorter one *)
           runm (lift_m k o) (zip_src 0 (map Some (seq 0 (Nat.min n (List.length vs)))) vs) d
      else refused d
  | T1 i =>
      match comp_of i with
      | CU l =>
          if is_set o then runm m_set (zip_src 0 (dim_attempts n (CU l)) vs) d
          else if op_kind_ok fx k then runm (lift_m k o) (zip_src 0 (dim_attempts n (CU l)) vs) d
          else refused d
      | CB l =>
          if andb (is_set o) (same_orientation x col)
          then (* set_1d_range_vec_b: sink[i] = source[i] for the mask POSITION i *)
               runm m_set (map (fun p => (posn n p, nth_error vs p)) (mask_pos 0 l)) d
          else refused d
      | _ => refused d
      end
  | T2 _ _ => None
  end.

Definition mech_step (fx : bool) (k : string) (x : mat sx) (s : stmt) : mres :=
  let r := mrows x in let c := mcols x in let d := map Some (mdata x) in
  match s with
  | SRead _ => None
  | SAsg o t src =>
      if negb (String.eqb (src_kind src) k) then refused d
      else if andb (negb (is_set o)) (negb (is_numeric k)) then None
      else match src with
           | SSc _ e => if is_set o then mech_set_scalar fx k r c t e d else mech_op_scalar fx k r c o t e d
           | SVec _ col vs => mech_vec fx k x o t col vs d
           end
  end.

(* ------------------------------------------------------------------ *)
(* known-finding classes (decidable on the case alone)                  *)
(* ------------------------------------------------------------------ *)
Definition is_vec_src (s : source) : bool := match s with SVec _ _ _ => true | _ => false end.

Definition is_uvec (c : ixc) : bool := match comp_of c with CU _ => true | _ => false end.
Definition is_bmask (c : ixc) : bool := match comp_of c with CB _ => true | _ => false end.

Definition sx_pat_match : list (option sx) -> list sx -> bool := pat_match sx_eqb.
Definition all_known (pat : list (option sx)) : bool := forallb (fun e => match e with Some _ => true | None => false end) pat.

(* the prediction is complete (no unpredicted element) and is what the property demands *)
Definition agrees (sp : outcome) (m : option (bool * list (option sx))) (d : list sx) : bool :=
  match sp, m with
  | OkNew d1, Some (true, pat) => andb (all_known pat) (sx_pat_match pat d1)
  | MustErr, Some (false, pat) => andb (all_known pat) (sx_pat_match pat d)
  | _, _ => false
  end.

(* identifiers of the known findings (known-findings.json) *)
Definition id_opassign_scalar : string := "opassign-scalar-index-overwrites".
Definition id_partial_write : string := "partial-write-before-error".
Definition id_whole_short : string := "whole-opassign-short-source".
Definition id_mask_rows_all : string := "mask-rows-all-off-by-one".
Definition id_rows_ignored : string := "rows-ignored-with-column-mask".
Definition id_mask_vector : string := "mask-vector-source-positional".
Definition id_div_all : string := "div-assign-rows-all-divides-every-element".
Definition id_not_implemented : string := "form-not-implemented".

Definition kf_structural (fx : bool) (k : string) (o : aop) (t : target) (src : source) (n : nat) : option string :=
  match src with
  | SSc _ _ =>
      if is_set o then
        match t with
        | T2 i j =>
            if is_all j then (if andb (negb fx) (is_bmask i) then Some id_mask_rows_all else None)
            else if andb (negb fx) (andb (mixed_ok k) (andb (is_uvec i) (is_bmask j))) then Some id_rows_ignored
            else None
        | _ => None
        end
      else
        match t with
        | TWhole => None
        | T1 i =>
            match single_mask i with
            | Some _ => Some id_opassign_scalar
            | None => if andb (negb fx) (is_scalar_ix i) then Some id_opassign_scalar else None
            end
        | T2 i j =>
            if is_all j then
              if andb (negb fx) (is_scalar_ix i) then Some id_opassign_scalar
              else if andb (is_div o) (andb (negb fx) (is_uvec i)) then Some id_div_all
              else None
            else None
        end
  | SVec _ _ vs =>
      if is_set o then
        match t with T1 i => if is_bmask i then Some id_mask_vector else None | _ => None end
      else
        match t with TWhole => if Nat.ltb (List.length vs) n then Some id_whole_short else None | _ => None end
  end.

(* None: the faithful model of mech satisfies the property on this statement (or the property does not
   fix it).  Some id: the model deviates, in the way that finding id describes. *)
Definition kf_class (fx : bool) (k : string) (x : mat sx) (s : stmt) : option string :=
  match s with
  | SRead _ => None
  | SAsg o t src =>
      match spec_step k x s with
      | NotFixed _ => None
      | sp =>
          if agrees sp (mech_step fx k x s) (mdata x) then None
          else match kf_structural fx k o t src (mrows x * mcols x) with
               | Some id => Some id
               | None =>
                   match mech_step fx k x s with
                   | Some (false, d') =>
                       if andb (all_known d') (sx_pat_match d' (mdata x))
                       then (match sp with OkNew _ => Some id_not_implemented | _ => None end)
                       else Some id_partial_write
                   | _ => None
                   end
               end
      end
  end.

Definition id_i64 : string := "i64".

(* one witness per finding: kind, matrix, statement *)
Definition zs (l : list Z) : list sx := map Zx l.
Definition f64_1_6 : list sx := zs [4607182418800017408; 4611686018427387904; 4613937818241073152;
                                    4616189618054758400; 4617315517961601024; 4618441417868443648]%Z.
Definition w_opassign_scalar := ("i64", Mat 1 3 (zs [1; 2; 3]%Z), SAsg OAdd (T1 (IS 1)) (SSc "i64" (Zx 5))).
Definition w_partial_write := ("i64", Mat 1 3 (zs [15; 3; 3]%Z), SAsg OSet (T1 (IV [1; 5]%Z)) (SSc "i64" (Zx 7))).
Definition w_whole_short := ("i64", Mat 1 4 (zs [9; 9; 9; 9]%Z), SAsg OAdd TWhole (SVec "i64" false (zs [1; 1; 1]%Z))).
Definition w_mask_rows_all :=
  ("i64", Mat 2 3 (zs [1; 4; 2; 5; 3; 6]%Z), SAsg OSet (T2 (IM [false; true]) IAll) (SSc "i64" (Zx 18))).
Definition w_rows_ignored :=
  ("f64", Mat 3 2 f64_1_6, SAsg OSet (T2 (IV [3; 1]%Z) (IM [false; true])) (SSc "f64" (Zx 4619567317775286272))).
Definition w_mask_vector :=
  ("i64", Mat 1 4 (zs [1; 2; 3; 4]%Z), SAsg OSet (T1 (IM [true; false; false; true])) (SVec "i64" false (zs [50; 60]%Z))).
Definition w_div_all := ("i64", Mat 3 1 (zs [8; 6; 4]%Z), SAsg ODiv (T2 (IV [1; 2]%Z) IAll) (SSc "i64" (Zx 2))).
Definition w_not_implemented :=
  ("i64", Mat 2 2 (zs [1; 2; 3; 4]%Z), SAsg OAdd (T2 (IS 1) (IS 2)) (SSc "i64" (Zx 5))).

(* ------------------------------------------------------------------ *)
(* decoding the case and the session observation                        *)
(* ------------------------------------------------------------------ *)
Definition sx_bool (x : sx) : option bool :=
  match x with Zx 0%Z => Some false | Zx 1%Z => Some true | _ => None end.

Definition decode_ixc (x : sx) : option ixc :=
  match x with
  | Lx [Ax "s"; Zx z] => Some (IS z)
  | Lx (Ax "v" :: l) => option_map IV (map_opt sx_Z l)
  | Lx [Ax "r"; Zx a; Zx b] => Some (IR a b)
  | Lx [Ax "all"] => Some IAll
  | Lx (Ax "m" :: l) => option_map IM (map_opt sx_bool l)
  | _ => None
  end.

Definition decode_target (x : sx) : option target :=
  match x with
  | Lx [Ax "w"] => Some TWhole
  | Lx [Ax "i1"; i] => option_map T1 (decode_ixc i)
  | Lx [Ax "i2"; i; j] =>
      match decode_ixc i, decode_ixc j with Some a, Some b => Some (T2 a b) | _, _ => None end
  | _ => None
  end.

Definition decode_op (x : sx) : option aop :=
  match x with
  | Ax "set" => Some OSet | Ax "add" => Some OAdd | Ax "sub" => Some OSub
  | Ax "mul" => Some OMul | Ax "div" => Some ODiv
  | _ => None
  end.

Definition decode_source (x : sx) : option source :=
  match x with
  | Lx [Ax "sc"; Ax k; e] => Some (SSc k e)
  | Lx [Ax "vec"; Ax k; Ax "r"; Lx l] => Some (SVec k false l)
  | Lx [Ax "vec"; Ax k; Ax "c"; Lx l] => Some (SVec k true l)
  | _ => None
  end.

Definition decode_stmt (x : sx) : option stmt :=
  match x with
  | Lx [Ax "asg"; o; t; s] =>
      match decode_op o, decode_target t, decode_source s with
      | Some o', Some t', Some s' => Some (SAsg o' t' s')
      | _, _, _ => None
      end
  | Lx [Ax "read"; t] => option_map SRead (decode_target t)
  | _ => None
  end.

(* one step of the session: the statement's own result and the variable x afterwards *)
Record stepobs : Type := StepObs { so_res : obs; so_x : option kval }.

Fixpoint find_x (syms : list sx) : option kval :=
  match syms with
  | [] => None
  | Lx [Qx "x"; _; _; v] :: _ => decode_kval v
  | _ :: r => find_x r
  end.

Definition decode_step (x : sx) : option stepobs :=
  match x with
  | Lx [Ax "step"; o; Lx (Ax "syms" :: syms)] => Some (StepObs (decode_obs o) (find_x syms))
  | _ => None
  end.

(* ------------------------------------------------------------------ *)
(* the judge                                                            *)
(* ------------------------------------------------------------------ *)
Inductive sverdict : Type :=
| VOk (tag : string) | VAdv (tag : string) | VKf (id : string) | VBad (why : string) (expected : sx).

Definition is_err (o : obs) : bool := match o with OErr | OPanic => true | _ => false end.
Definition is_val (o : obs) : bool := match o with OVal _ => true | OOther _ => true | _ => false end.

Definition x_is (o : stepobs) (k : string) (r c : nat) (d : list sx) : bool :=
  match so_x o with
  | Some v => kval_eqb v (KM k (Mat r c d))
  | None => false
  end.

(* after a statement the property does not fix, continue from what the implementation has, if that is
   still a matrix of the same kind and shape *)
Definition resync (o : stepobs) (k : string) (x : mat sx) : option (mat sx) :=
  match so_x o with
  | Some (KM k' m) =>
      if andb (String.eqb k k') (andb (andb (Nat.eqb (mrows m) (mrows x)) (Nat.eqb (mcols m) (mcols x))) (wf_matb m))
      then Some m else None
  | _ => None
  end.

Definition obs_elems (o : obs) : option (string * list sx) :=
  match o with
  | OVal (KS k e) => Some (k, [e])
  | OVal (KM k m) => Some (k, mdata m)
  | _ => None
  end.

Definition enc_x (k : string) (x : mat sx) (d : list sx) : sx := encode_kval (KM k (Mat (mrows x) (mcols x) d)).

(* a known finding is reported only when the observation is exactly what a faithful model predicts:
   the model of the tree as it is (fx = false), or the model with the proposed repairs (fx = true) *)
Definition try_kf (k : string) (x : mat sx) (s : stmt) (o : stepobs) (fx : bool) : option (sverdict * option (mat sx)) :=
  match kf_class fx k x s, mech_step fx k x s, resync o k x with
  | Some id, Some (fin, pat), Some x' =>
      if andb (if fin then is_val (so_res o) else is_err (so_res o)) (sx_pat_match pat (mdata x'))
      then Some (VKf id, Some x') else None
  | _, _, _ => None
  end.

Definition via_kf (k : string) (x : mat sx) (s : stmt) (o : stepobs) (exp : sx) (why : string) : sverdict * option (mat sx) :=
  match try_kf k x s o false with
  | Some r => r
  | None => match try_kf k x s o true with Some r => r | None => (VBad why exp, None) end
  end.

Definition judge_step (k : string) (x : mat sx) (s : stmt) (o : stepobs) : sverdict * option (mat sx) :=
  let r := mrows x in let c := mcols x in
  match s with
  | SRead t =>
      match spec_read x t with
      | None => (VAdv "read-not-fixed", resync o k x)
      | Some es =>
          if negb (x_is o k r c (mdata x)) then (VBad "read-changed-x" (enc_x k x (mdata x)), None)
          else match obs_elems (so_res o) with
               | Some (k', es') =>
                   if andb (String.eqb k k') (sxs_eqb es es') then (VOk "read-after-write", Some x)
                   else (VBad "read-wrong-elements" (Lx es), None)
               | None => (VBad "read-failed" (Lx es), None)
               end
      end
  | SAsg _ _ _ =>
      match spec_step k x s with
      | OkNew d =>
          if andb (is_val (so_res o)) (x_is o k r c d) then (VOk "value", Some (Mat r c d))
          else via_kf k x s o (enc_x k x d) "wrong-update"
      | MustErr =>
          if andb (is_err (so_res o)) (x_is o k r c (mdata x)) then (VOk "error", Some x)
          else via_kf k x s o (Lx [Ax "err-and-unchanged"; enc_x k x (mdata x)]) "error-not-atomic"
      | NotFixed w => (VAdv w, resync o k x)
      end
  end.

Fixpoint judge_steps (k : string) (x : mat sx) (ss : list stmt) (os : list stepobs) : list sverdict :=
  match ss, os with
  | [], [] => []
  | s :: ss', o :: os' =>
      let '(v, nx) := judge_step k x s o in
      v :: match nx with
           | Some x' => judge_steps k x' ss' os'
           | None => match v with VBad _ _ => [] | _ => [VAdv "lost-sync"] end
           end
  | _, _ => [VBad "step-count" (Lx [])]
  end.

Fixpoint first_bad (vs : list sverdict) : option sx :=
  match vs with
  | [] => None
  | VBad w e :: _ => Some (v_bad w e)
  | _ :: r => first_bad r
  end.
Fixpoint first_kf (vs : list sverdict) : option sx :=
  match vs with
  | [] => None
  | VKf id :: _ => Some (v_kf id)
  | _ :: r => first_kf r
  end.
Definition has_tag (t : string) (vs : list sverdict) : bool :=
  existsb (fun v => match v with VOk t' => String.eqb t t' | _ => false end) vs.
Definition first_adv (vs : list sverdict) : string :=
  match find (fun v => match v with VAdv _ => true | _ => false end) vs with
  | Some (VAdv w) => w
  | _ => "empty"
  end.

Definition summarize (vs : list sverdict) : sx :=
  match first_bad vs with
  | Some b => b
  | None =>
      match first_kf vs with
      | Some kf => kf
      | None =>
          if has_tag "value" vs then v_ok "value"
          else if has_tag "read-after-write" vs then v_ok "value"
          else if has_tag "error" vs then v_ok "error"
          else v_adv (first_adv vs)
      end
  end.

Record case : Type := Case { c_kind : string; c_x : mat sx; c_stmts : list stmt }.

Definition decode_case (x : sx) : option case :=
  match x with
  | Lx [Ax "c04"; Ax k; Zx r; Zx c; Lx d; Lx ss] =>
      if andb (Z.leb 1 r) (Z.leb 1 c) then
        match map_opt decode_stmt ss with
        | Some st => let m := Mat (Z.to_nat r) (Z.to_nat c) d in
                     if wf_matb m then Some (Case k m st) else None
        | None => None
        end
      else None
  | _ => None
  end.

(* the session: step 0 is the definition `~x<[k]:r,c> := [...]`, then one step per statement *)
Definition judge_case (cs : case) (steps : list stepobs) : sx :=
  match steps with
  | [] => v_bad "no-steps" (Lx [])
  | o0 :: os =>
      if x_is o0 (c_kind cs) (mrows (c_x cs)) (mcols (c_x cs)) (mdata (c_x cs))
      then summarize (judge_steps (c_kind cs) (c_x cs) (c_stmts cs) os)
      else v_bad "definition" (encode_kval (KM (c_kind cs) (c_x cs)))
  end.

(* the line the driver feeds to the judge: (<case> <observation>) *)
Definition session_line (c : sx) (steps : list sx) : sx := Lx [c; Lx (Ax "session" :: steps)].

Definition judge_assign (x : sx) : sx :=
  match x with
  | Lx [c; Lx (Ax "session" :: steps)] =>
      match decode_case c, map_opt decode_step steps with
      | Some cs, Some os => judge_case cs os
      | _, _ => v_malformed
      end
  | Lx [c; o] =>
      (* the harness died on this session (abort / hang): not a readable observation *)
      match decode_case c with Some _ => v_bad "no-session" o | None => v_malformed end
  | _ => v_malformed
  end.

Definition run_line (s : string) : string := run_with judge_assign s.
