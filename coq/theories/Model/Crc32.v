(* C07 — CRC-32 (reflected, polynomial 0xEDB88320, init and xor-out 0xFFFFFFFF)
   as a bit-serial shift register over lists of booleans (LSB first).
   Executable definitions only.  The byte/number wrappers at the end are what
   the correspondence check compares with crc32fast and with emitted files. *)
From Coq Require Import List NArith Bool.
Import ListNotations.

Definition word := list bool.            (* 32 bits, least significant first *)

Fixpoint xorl (a b : list bool) : list bool :=
  match a, b with
  | x :: a', y :: b' => xorb x y :: xorl a' b'
  | _, _ => []
  end.

Definition scale (c : bool) (w : word) : word := map (andb c) w.
Definition zeros (n : nat) : list bool := repeat false n.
Definition ones (n : nat) : list bool := repeat true n.

(* 0xEDB88320, least significant bit first *)
Definition poly : word :=
  [false;false;false;false; false;true;false;false;   (* 0x20 *)
   true;true;false;false;   false;false;false;true;   (* 0x83 *)
   false;false;false;true;  true;true;false;true;     (* 0xB8 *)
   true;false;true;true;    false;true;true;true].    (* 0xED *)

Definition shr (d : word) : word := tl d ++ [false].

(* one step of the register on input bit b *)
Definition lstep (d : word) (b : bool) : word :=
  xorl (shr d) (scale (xorb (hd false d) b) poly).

Definition run (d : word) (bits : list bool) : word := fold_left lstep bits d.

Definition crc_word (bits : list bool) : word := xorl (run (ones 32) bits) (ones 32).

(* ---- bytes ---- *)
Definition byte_bits (b : N) : list bool :=
  [N.testbit b 0; N.testbit b 1; N.testbit b 2; N.testbit b 3;
   N.testbit b 4; N.testbit b 5; N.testbit b 6; N.testbit b 7].

Definition bits_of_bytes (bs : list N) : list bool := flat_map byte_bits bs.

Definition N_of_bits (l : list bool) : N :=
  fold_right (fun (b : bool) acc => (if b then 1 else 0) + 2 * acc)%N 0%N l.

Fixpoint bytes_of_bits (l : list bool) : list N :=
  match l with
  | b0 :: b1 :: b2 :: b3 :: b4 :: b5 :: b6 :: b7 :: r =>
      N_of_bits [b0; b1; b2; b3; b4; b5; b6; b7] :: bytes_of_bits r
  | _ => []
  end.

Definition xor_bytes (a b : list N) : list N :=
  (fix go (a b : list N) : list N :=
     match a, b with
     | x :: a', y :: b' => N.lxor x y :: go a' b'
     | _, _ => []
     end) a b.

(* the 4 trailer bytes (little-endian CRC) of a payload *)
Definition trailer (payload : list N) : list N := bytes_of_bits (crc_word (bits_of_bytes payload)).

Definition crc32 (payload : list N) : N := N_of_bits (crc_word (bits_of_bytes payload)).

Fixpoint eqbl (a b : list bool) : bool :=
  match a, b with
  | [], [] => true
  | x :: a', y :: b' => andb (Bool.eqb x y) (eqbl a' b')
  | _, _ => false
  end.

(* a file is accepted iff it has at least 4 bytes and its last 32 bits are the CRC word of the rest *)
Definition verify (file : list N) : bool :=
  let bs := bits_of_bytes file in
  let n := List.length bs - 32 in
  andb (Nat.leb 4 (List.length file)) (eqbl (crc_word (firstn n bs)) (skipn n bs)).
