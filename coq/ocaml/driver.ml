(* Generic driver for every extracted model: one line in, one line out.
   All parsing, judging and printing happens in extracted Gallina
   (Model.run_line : char list -> char list). *)
let explode s = List.init (String.length s) (String.get s)
let implode l = let b = Buffer.create 256 in List.iter (Buffer.add_char b) l; Buffer.contents b
let () =
  try
    while true do
      let l = input_line stdin in
      print_string (implode (Model.run_line (explode l)));
      print_newline ()
    done
  with End_of_file -> ()
