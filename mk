#!/usr/bin/env python3
"""./mk [make targets...]  — regenerate coq/_CoqProject + Makefile from the files present and run make in coq/.
   e.g.  ./mk theories/Proofs/RangeP.vo      (default: everything)"""
import os, subprocess, sys
sys.path.insert(0, os.path.dirname(os.path.abspath(__file__)))
from vlib import core
core.ensure_makefile()
sys.exit(subprocess.call(["timeout", "3000", "make", "-j16"] + sys.argv[1:], cwd=core.COQ))
