// mode `parse` {src}: C09 — the parser is total.
// Runs `parser::parse(src)` twice under catch_unwind and prints
//   (parse <ok|err|panic> <same-outcome-twice 0|1>
//          (ranges (c r1 c1 r2 c2) (a r1 c1 r2 c2) ...)     cause / annotation ranges, as the report gives them
//          <nlines> (linelens ...) (linewidths ...)          line table of the newline-terminated input
//          (flags <fmtpanic>? <msgpanic>? <emptyreport>? <nokind>? <ioread>?)
//          (info <nerr> <ngraphemes> <ms>)                   diagnostics, ignored by the judge
//          (hook off | <n> (<site> <before> <after> <len>)...))   replay log of the guarded hook (first run), see below
// nlines / linelens / linewidths are computed the way the parser and TextFormatter do it:
// graphemes::init_source (appends "\n"), a line ends at every grapheme for which graphemes::is_new_line holds,
// linelens counts the graphemes of the line without its terminator, linewidths sums graphemes::width (columns are
// advanced by width: control characters have width 0).
use mech_core::*;
use mech_syntax::*;
use serde_json::Value as J;
use std::panic::{catch_unwind, AssertUnwindSafe};

// The guarded hook (proposed/C09-hook.diff, `#[cfg(mech_lang_mech_verif)] pub mod verif_hook` in parser.rs) is used only
// when this crate is built with `--features c09hook`; without the feature (and without the hook in /repo) `(hook off)`.
#[cfg(feature = "c09hook")]
fn hook_start() { mech_syntax::parser::verif_hook::start(); }
#[cfg(feature = "c09hook")]
fn hook_take() -> String {
  let (n, v) = mech_syntax::parser::verif_hook::take();
  let es: Vec<String> = v.iter().take(20000).map(|(s, a, b, l)| format!("({} {} {} {})", s, a, b, l)).collect();
  format!("(hook {} {})", n, es.join(" "))
}
#[cfg(not(feature = "c09hook"))]
fn hook_start() {}
#[cfg(not(feature = "c09hook"))]
fn hook_take() -> String { "(hook off)".to_string() }

// Number of read-type system calls this process has issued so far (/proc/self/io, `syscr`): parsing is supposed to
// depend on nothing but the text, so the two parses must not add any (flag `ioread` otherwise).
fn syscr() -> Option<u64> {
  let s = std::fs::read_to_string("/proc/self/io").ok()?;
  s.lines().find_map(|l| l.strip_prefix("syscr:").and_then(|v| v.trim().parse::<u64>().ok()))
}

#[derive(PartialEq)]
enum Outcome {
  Tree(String),                  // Debug text of the tree (Program has no reliable PartialEq across all nodes)
  Report(ParserErrorReport),
  OtherErr(String),
  Panic,
}

fn run_once(src: &str) -> Outcome {
  match catch_unwind(|| parser::parse(src)) {
    Ok(Ok(t)) => Outcome::Tree(format!("{:?}", t)),
    Ok(Err(e)) => match e.kind_as::<ParserErrorReport>() {
      Some(r) => Outcome::Report(r.clone()),
      None => Outcome::OtherErr(e.kind_name()),
    },
    Err(_) => Outcome::Panic,
  }
}

fn rng(tag: &str, r: &SourceRange) -> String {
  format!("({} {} {} {} {})", tag, r.start.row, r.start.col, r.end.row, r.end.col)
}

pub fn line_table(src: &str) -> (usize, Vec<usize>, Vec<usize>, usize) {
  let gs = graphemes::init_source(src);
  let mut lens = vec![];
  let mut widths = vec![];
  let (mut l, mut w) = (0usize, 0usize);
  for g in gs.iter() {
    if graphemes::is_new_line(g) {
      lens.push(l); widths.push(w); l = 0; w = 0;
    } else {
      l += 1; w += graphemes::width(g);
    }
  }
  (lens.len(), lens, widths, gs.len())
}

pub fn mode_parse(j: &J) -> String {
  let src = j["src"].as_str().unwrap_or("");
  let t0 = std::time::Instant::now();
  let (io0, io1) = (syscr(), syscr());          // io1 - io0 = what one call of syscr() itself costs
  hook_start();
  let a = run_once(src);
  let hook = hook_take();
  let b = run_once(src);
  let io2 = syscr();
  let ms = t0.elapsed().as_millis();
  let same = if a == b { 1 } else { 0 };
  let (nlines, lens, widths, ng) = line_table(src);
  let mut flags: Vec<&str> = vec![];
  let mut ranges: Vec<String> = vec![];
  let mut nerr = 0usize;
  if let (Some(x0), Some(x1), Some(x2)) = (io0, io1, io2) {
    if x2 - x1 != x1 - x0 { flags.push("ioread"); }
  }
  let tag = match &a {
    Outcome::Tree(dbg) => {
      // "a syntax tree that accounts for the entire input": every word of the text (run of >= 3 ASCII letters) must
      // occur in the tree (token characters are printed by Debug); text that recovery skipped is in no node
      let flat: String = dbg.chars().filter(|c| c.is_ascii_alphabetic()).collect();
      let mut word = String::new();
      let mut missing = false;
      for line in src.lines() {
        let t = line.trim_start();
        if t.starts_with("```") || t.starts_with("~~~") { continue; }     // a fence line: its info string is not a token
        for ch in line.chars().chain(std::iter::once(' ')) {
          if ch.is_ascii_alphabetic() { word.push(ch); }
          else {
            if word.len() >= 3 && !flat.contains(&word) { missing = true; if std::env::var("MVH_COV_DEBUG").is_ok() { eprintln!("uncovered word: {}", word); } }
            word.clear();
          }
        }
      }
      if missing { flags.push("uncovered"); }
      "ok"
    }
    Outcome::Panic => "panic",
    Outcome::OtherErr(_) => { flags.push("nokind"); "err" }
    Outcome::Report(rep) => {
      nerr = rep.1.len();
      if rep.1.is_empty() { flags.push("emptyreport"); }
      for ctx in rep.1.iter() {
        ranges.push(rng("c", &ctx.cause_rng));
        for r in ctx.annotation_rngs.iter() { ranges.push(rng("a", r)); }
      }
      // the consumers of the report: TextFormatter::format_error indexes the source by these ranges,
      // MechErrorKind::message slices the source lines by them.
      let rep2 = rep.clone();
      let text = src.to_string();
      if catch_unwind(AssertUnwindSafe(|| { let f = TextFormatter::new(&text); f.format_error(&rep2).len() })).is_err() {
        flags.push("fmtpanic");
      }
      let rep3 = rep.clone();
      if catch_unwind(AssertUnwindSafe(|| rep3.message().len())).is_err() {
        flags.push("msgpanic");
      }
      "err"
    }
  };
  let js = |v: &Vec<usize>| v.iter().map(|x| x.to_string()).collect::<Vec<_>>().join(" ");
  format!("(parse {} {} (ranges {}) {} (linelens {}) (linewidths {}) (flags {}) (info {} {} {}) {})",
    tag, same, ranges.join(" "), nlines, js(&lens), js(&widths), flags.join(" "), nerr, ng, ms, hook)
}
