// mode `fsm` (property C17): run one program containing a state machine with the interpreter's
// trace facility enabled (cargo feature `trace` of mech-interpreter) and report the result together
// with the sequence of states the run loop visited.
//
//   input : {src, max_steps?}
//   output: (fsm <result obs> (trace <visit>*) <last>)
//     visit ::= (visit "State" (<payload>*) <arm> <guard>)    one per iteration of the run loop
//               arm   = index of the arm that fired in this iteration (-1: none, the machine halted)
//               guard = index of the guard that fired inside a guard arm (-1: plain transition arm / none)
//     payload ::= (n "u64" 5) | (vec "u64" 1 3) | (raw "text")   (the trace prints matrices as kind+shape only)
//     last  ::= (last "State" (<payload>*))  target of the last transition event | (last)
//
// Everything is taken from Interpreter::trace_events(): `step` events give the state at the beginning of
// every iteration, `arm`/`guard` events with a check mark give what fired, `transition` gives the next state.
use crate::canon::*;
use mech_core::*;
use mech_interpreter::*;
use mech_syntax::*;
use serde_json::Value as J;
use std::panic::{catch_unwind, AssertUnwindSafe};

fn is_part_start(tok: &str) -> bool {
  for p in ["u8(", "u16(", "u32(", "u64(", "u128(", "i8(", "i16(", "i32(", "i64(", "i128(", "f32(", "f64(", "bool(", "str(", "string(", "[", "\u{2026}"] {
    if tok.starts_with(p) { return true; }
  }
  false
}

// "u64(@2320:2)" -> (n "u64" 2);  "[u64]:1,3(MatrixU64(...…)" -> (vec "u64" 1 3)
fn payload_sx(part: &str) -> String {
  if let Some(open) = part.find('(') {
    let kind = &part[..open];
    let rest = &part[open + 1..];
    if kind.starts_with('[') {
      // [elem]:r,c
      if let Some(close) = kind.find(']') {
        let elem = &kind[1..close];
        let dims = kind[close + 1..].trim_start_matches(':');
        let ds: Vec<&str> = dims.split(',').collect();
        if ds.len() == 2 && ds.iter().all(|d| !d.is_empty() && d.bytes().all(|b| b.is_ascii_digit())) {
          return format!("(vec {} {} {})", qstr(elem), ds[0], ds[1]);
        }
      }
      return format!("(raw {})", qstr(part));
    }
    if rest.starts_with('@') && rest.ends_with(')') {
      if let Some(colon) = rest.find(':') {
        let val = &rest[colon + 1..rest.len() - 1];
        let numeric = !val.is_empty() && val.bytes().enumerate().all(|(i, b)| b.is_ascii_digit() || (i == 0 && b == b'-'));
        if numeric { return format!("(n {} {})", qstr(kind), val); }
        if kind == "bool" { return format!("(n \"bool\" {})", if val == "true" { 1 } else { 0 }); }
      }
    }
  }
  format!("(raw {})", qstr(part))
}

// "@24f0 :Count(@2440) u64(@2320:2) ..." -> ("Count", "(payload...)")
fn state_sx(s: &str) -> Option<(String, String)> {
  let toks: Vec<&str> = s.split(' ').filter(|t| !t.is_empty()).collect();
  if toks.len() < 2 || !toks[0].starts_with('@') { return None; }
  let tag = toks[1];
  let name = tag.trim_start_matches(':').trim_start_matches('`');
  let name = match name.find('(') { Some(i) => &name[..i], None => name };
  let mut parts: Vec<String> = vec![];
  for t in &toks[2..] {
    if is_part_start(t) || parts.is_empty() { parts.push(t.to_string()); }
    else { let l = parts.len() - 1; parts[l].push(' '); parts[l].push_str(t); }
  }
  let ps: Vec<String> = parts.iter().map(|p| payload_sx(p)).collect();
  Some((name.to_string(), format!("({})", ps.join(" "))))
}

fn bracket_index(s: &str) -> Option<(i64, &str)> {
  // "[3] rest" or "arm[3] rest" -> (3, rest)
  let open = s.find('[')?;
  let close = s[open..].find(']')? + open;
  let n: i64 = s[open + 1..close].parse().ok()?;
  Some((n, &s[close + 1..]))
}

pub fn mode_fsm(j: &J) -> String {
  let src = j["src"].as_str().unwrap_or("");
  let mut intrp = Interpreter::new(0);
  intrp.set_trace_enabled(true);
  intrp.set_trace_to_stdout(false);
  if let Some(ms) = j.get("max_steps").and_then(|x| x.as_u64()) { intrp.max_steps = ms as usize; }
  let tree = match catch_unwind(|| parser::parse(src)) {
    Ok(Ok(t)) => t,
    Ok(Err(_)) => return "(fsm (perr) (trace) (last))".to_string(),
    Err(_) => return "(fsm (panic parse) (trace) (last))".to_string(),
  };
  let res = match catch_unwind(AssertUnwindSafe(|| intrp.interpret(&tree))) {
    Ok(Ok(v)) => canon(&v),
    Ok(Err(e)) => format!("(err {})", qstr(&e.kind_name())),
    Err(_) => "(panic interpret)".to_string(),
  };
  let mut visits: Vec<String> = vec![];
  // current iteration
  let mut cur: Option<(String, String)> = None;
  let mut arm: i64 = -1;
  let mut guard: i64 = -1;
  let mut last = "(last)".to_string();
  let mut junk: Vec<String> = vec![];
  let flush = |cur: &mut Option<(String, String)>, arm: &mut i64, guard: &mut i64, visits: &mut Vec<String>| {
    if let Some((n, p)) = cur.take() { visits.push(format!("(visit {} {} {} {})", qstr(&n), p, *arm, *guard)); }
    *arm = -1; *guard = -1;
  };
  for ev in intrp.trace_events().iter() {
    if ev.channel.as_deref() != Some("fsm") { continue; }
    let label = ev.label.as_deref().unwrap_or("").trim().to_string();
    let msg = ev.message.as_str();
    match label.as_str() {
      "start" => {}
      "step" => {
        flush(&mut cur, &mut arm, &mut guard, &mut visits);
        match msg.split_once("state=").and_then(|(_, s)| state_sx(s)) {
          Some(st) => cur = Some(st),
          None => { cur = Some(("?".to_string(), format!("((raw {}))", qstr(msg)))); }
        }
      }
      "arm" => {
        // "[idx] check (transition|guard) pattern=... ✓|✗" : remember the arm whose pattern matched last
        if msg.ends_with('\u{2713}') { if let Some((n, _)) = bracket_index(msg) { arm = n; guard = -1; } }
      }
      "guard" => {
        // "arm[a] check guard[g] condition=... ✓|✗"
        if msg.ends_with('\u{2713}') {
          if let Some((a, rest)) = bracket_index(msg) { if let Some((g, _)) = bracket_index(rest) { arm = a; guard = g; } }
        }
      }
      "transition" => {
        // "arm[a] FROM -> TO"
        if let Some((a, rest)) = bracket_index(msg) {
          arm = a;
          if let Some((_, to)) = rest.split_once(" -> ") {
            last = match state_sx(to) { Some((n, p)) => format!("(last {} {})", qstr(&n), p), None => format!("(last \"?\" ((raw {})))", qstr(to)) };
          }
        }
      }
      "output" => {}
      "halt" => { arm = -1; guard = -1; }
      other => junk.push(other.to_string()),
    }
  }
  flush(&mut cur, &mut arm, &mut guard, &mut visits);
  if !junk.is_empty() { visits.push(format!("(unknown-events {})", junk.len())); }
  format!("(fsm {} (trace {}) {})", res, visits.join(" "), last)
}
