// mode `doc` (property C10): parse + interpret whole Mechdown documents, each in a fresh interpreter, and
// report the final symbol table of the main interpreter and of every sub-interpreter (one per fence name).
//
//   input : {src}            -> (doc "<src echoed>" <result> <main syms> (subs ("<fence name or #id>" <syms>)*))
//           {srcs:[s1,...]}  -> (docs <doc> <doc> ...)      one `(doc ...)` per source, in order
//     The source is echoed so that the Coq judge can check that each observation belongs to the text that its own
//     `render_doc` / code-only renderers prescribe (the generator cannot substitute other sources).
//     result ::= (perr) | (panic parse) | (panic interpret) | (err "Kind") | (val)
//                (val): interpret returned Ok; the value itself is not part of the comparison (for a document it
//                is the value of the LAST element, e.g. an Id hash of a paragraph).
//     syms   ::= the same `(syms (name mut aliasclass value)...)` dump as session mode.
//   Sub-interpreters are keyed in `Interpreter::sub_interpreters` by `hash_str(fence name)`; the names are
//   recovered from the parsed tree (BlockConfig.namespace_str); an id that matches no fence is printed as "#<id>".
//   Entries are sorted by printed name.
use crate::canon::*;
use mech_core::*;
use mech_interpreter::*;
use mech_syntax::*;
use serde_json::Value as J;
use std::collections::HashMap;
use std::panic::{catch_unwind, AssertUnwindSafe};

fn fence_names_el(el: &SectionElement, names: &mut HashMap<u64, String>) {
  match el {
    SectionElement::FencedMechCode(block) => {
      if block.config.namespace != 0 {
        names.insert(block.config.namespace, block.config.namespace_str.clone());
      }
    }
    SectionElement::Float((inner, _)) => fence_names_el(inner, names),
    SectionElement::Prompt(inner) => fence_names_el(inner, names),
    _ => {}
  }
}

fn fence_names(tree: &Program) -> HashMap<u64, String> {
  let mut names = HashMap::new();
  for sec in &tree.body.sections {
    for el in &sec.elements {
      fence_names_el(el, &mut names);
    }
  }
  names
}

fn one_doc(src: &str) -> String {
  let mut intrp = Interpreter::new(0);
  let tree = match catch_unwind(|| parser::parse(src)) {
    Ok(Ok(t)) => t,
    Ok(Err(_)) => return format!("(doc {} (perr) {} (subs))", qstr(src), crate::dump_symbols(&intrp)),
    Err(_) => return format!("(doc {} (panic parse) {} (subs))", qstr(src), crate::dump_symbols(&intrp)),
  };
  let names = fence_names(&tree);
  let r = match catch_unwind(AssertUnwindSafe(|| intrp.interpret(&tree))) {
    Ok(Ok(_)) => "(val)".to_string(),
    Ok(Err(e)) => crate::errs(&e),
    Err(_) => "(panic interpret)".to_string(),
  };
  let main = crate::dump_symbols(&intrp);
  let mut subs: Vec<(String, String)> = vec![];
  {
    let si = intrp.sub_interpreters.borrow();
    for (id, sub) in si.iter() {
      let name = names.get(id).cloned().unwrap_or(format!("#{}", id));
      subs.push((name, crate::dump_symbols(sub)));
    }
  }
  subs.sort();
  let subs: Vec<String> = subs.iter().map(|(n, s)| format!("({} {})", qstr(n), s)).collect();
  format!("(doc {} {} {} (subs {}))", qstr(src), r, main, subs.join(" "))
}

pub fn mode_doc(j: &J) -> String {
  if let Some(srcs) = j["srcs"].as_array() {
    let out: Vec<String> = srcs.iter().map(|s| one_doc(s.as_str().unwrap_or(""))).collect();
    return format!("(docs {})", out.join(" "));
  }
  one_doc(j["src"].as_str().unwrap_or(""))
}
