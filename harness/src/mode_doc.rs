// mode `doc` (property C10): parse + interpret whole Mechdown documents, each in a fresh interpreter, and
// report the final symbol table of the main interpreter and of every sub-interpreter (one per fence name).
//
//   input : {src}            -> (doc "<src echoed>" <result> <main syms> (subs ("<fence name or #id>" <syms>)*))
//           {srcs:[s1,...]}  -> (docs <doc> <doc> ...)      one `(doc ...)` per source, in order
//     The source is echoed so that the Coq judge can check that each observation belongs to the text that its own
//     `render_doc` / code-only renderers prescribe (the generator cannot substitute other sources).
//     result ::= (perr) | (panic parse) | (panic interpret) | (err "Kind") | (val)
//                (val): interpret returned Ok; the value itself is not part of the comparison (for a document it
//                is the value of the LAST element, e.g. an Id hash of a paragraph).
//     syms   ::= the same `(syms (name mut aliasclass value)...)` dump as session mode.
//   Sub-interpreters are keyed in `Interpreter::sub_interpreters` by `hash_str(fence name)`; the names are
//   recovered from the parsed tree (BlockConfig.namespace_str); an id that matches no fence is printed as "#<id>".
//   Entries are sorted by printed name.
//   With "blocks": true in the request a sixth field is appended to every `(doc ...)` (the judge of the document
//   algebra alone reads exactly five fields, so the field is opt-in): the block structure of the parsed tree,
//     (blocks b...)   every section element in document order, sections flattened
//       b ::= (fm "<namespace_str>" <named 0|1> <disabled 0|1> <hidden 0|1> (items k...))   FencedMechCode
//           | (cb "<body text>")                                                          CodeBlock (plain fence)
//           | (mc (items k...))                                                           top-level MechCode
//           | (el "<Variant>")            every other element; the document title is (el "Title"), the underlined
//                                         title of a section (el "SectionTitle")
//           | (float b) | (prompt b)
//       k ::= s | e | c | f | m | x       Statement, Expression, Comment, FunctionDefine, Fsm*, MechCode::Error;
//                                         a second letter c = a trailing comment is attached
//     (blocks) after a parse error.
use crate::canon::*;
use mech_core::*;
use mech_interpreter::*;
use mech_syntax::*;
use serde_json::Value as J;
use std::collections::HashMap;
use std::panic::{catch_unwind, AssertUnwindSafe};

fn fence_names_el(el: &SectionElement, names: &mut HashMap<u64, String>) {
  match el {
    SectionElement::FencedMechCode(block) => {
      if block.config.namespace != 0 {
        names.insert(block.config.namespace, block.config.namespace_str.clone());
      }
    }
    SectionElement::Float((inner, _)) => fence_names_el(inner, names),
    SectionElement::Prompt(inner) => fence_names_el(inner, names),
    _ => {}
  }
}

fn fence_names(tree: &Program) -> HashMap<u64, String> {
  let mut names = HashMap::new();
  for sec in &tree.body.sections {
    for el in &sec.elements {
      fence_names_el(el, &mut names);
    }
  }
  names
}

fn code_items(code: &Vec<(MechCode, Option<Comment>)>) -> String {
  let ks: Vec<String> = code.iter().map(|(c, cm)| {
    let k = match c {
      MechCode::Statement(_) => "s",
      MechCode::Expression(_) => "e",
      MechCode::Comment(_) => "c",
      MechCode::FunctionDefine(_) => "f",
      MechCode::Error(_, _) => "x",
      _ => "m",
    };
    format!("{}{}", k, if cm.is_some() { "c" } else { "" })
  }).collect();
  format!("(items {})", ks.join(" "))
}

fn block_el(el: &SectionElement) -> String {
  match el {
    SectionElement::FencedMechCode(b) => format!("(fm {} {} {} {} {})", qstr(&b.config.namespace_str),
      if b.config.namespace != 0 { 1 } else { 0 }, if b.config.disabled { 1 } else { 0 },
      if b.config.hidden { 1 } else { 0 }, code_items(&b.code)),
    SectionElement::CodeBlock(t) => format!("(cb {})", qstr(&t.chars.iter().collect::<String>())),
    SectionElement::MechCode(code) => format!("(mc {})", code_items(code)),
    SectionElement::Float((inner, _)) => format!("(float {})", block_el(inner)),
    SectionElement::Prompt(inner) => format!("(prompt {})", block_el(inner)),
    other => {
      let d = format!("{:?}", other);
      let name: String = d.chars().take_while(|c| c.is_alphanumeric()).collect();
      format!("(el {})", qstr(&name))
    }
  }
}

// `(blocks b...)`: every section element of the parsed tree in document order (sections flattened; the document title
// and the underlined title of a section are printed as (el "Title") / (el "SectionTitle")).
fn blocks(tree: &Program) -> String {
  let mut out: Vec<String> = vec![];
  if tree.title.is_some() { out.push("(el \"Title\")".to_string()); }
  for sec in &tree.body.sections {
    if sec.subtitle.is_some() { out.push("(el \"SectionTitle\")".to_string()); }
    for el in &sec.elements { out.push(block_el(el)); }
  }
  format!("(blocks {})", out.join(" "))
}

fn one_doc(src: &str, want_blocks: bool) -> String {
  let mut intrp = Interpreter::new(0);
  let tree = match catch_unwind(|| parser::parse(src)) {
    Ok(Ok(t)) => t,
    Ok(Err(_)) => return format!("(doc {} (perr) {} (subs){})", qstr(src), crate::dump_symbols(&intrp), if want_blocks { " (blocks)" } else { "" }),
    Err(_) => return format!("(doc {} (panic parse) {} (subs){})", qstr(src), crate::dump_symbols(&intrp), if want_blocks { " (blocks)" } else { "" }),
  };
  let blk = if want_blocks { format!(" {}", catch_unwind(AssertUnwindSafe(|| blocks(&tree))).unwrap_or("(blocks panic)".to_string())) } else { String::new() };
  let names = fence_names(&tree);
  let r = match catch_unwind(AssertUnwindSafe(|| intrp.interpret(&tree))) {
    Ok(Ok(_)) => "(val)".to_string(),
    Ok(Err(e)) => crate::errs(&e),
    Err(_) => "(panic interpret)".to_string(),
  };
  let main = crate::dump_symbols(&intrp);
  let mut subs: Vec<(String, String)> = vec![];
  {
    let si = intrp.sub_interpreters.borrow();
    for (id, sub) in si.iter() {
      let name = names.get(id).cloned().unwrap_or(format!("#{}", id));
      subs.push((name, crate::dump_symbols(sub)));
    }
  }
  subs.sort();
  let subs: Vec<String> = subs.iter().map(|(n, s)| format!("({} {})", qstr(n), s)).collect();
  format!("(doc {} {} {} (subs {}){})", qstr(src), r, main, subs.join(" "), blk)
}

pub fn mode_doc(j: &J) -> String {
  // opt-in (the C10 judge of the document algebra alone reads exactly five fields)
  let wb = j.get("blocks").map(|b| b.as_bool().unwrap_or(false) || b.as_u64().unwrap_or(0) != 0).unwrap_or(false);
  if let Some(srcs) = j["srcs"].as_array() {
    let out: Vec<String> = srcs.iter().map(|s| one_doc(s.as_str().unwrap_or(""), wb)).collect();
    return format!("(docs {})", out.join(" "));
  }
  one_doc(j["src"].as_str().unwrap_or(""), wb)
}
