// Canonical S-expression printer for mech Values.
// The same grammar is parsed by the Coq side (theories/Base/Sexp.v):
//   atom   ::= decimal integer (optionally negative) | bare word | "quoted string"
//   list   ::= ( item* )
// Values:
//   (s <kind> <payload>)                     scalar
//   (m <kind> rows cols (payload*))          matrix, column-major
//   (set <elemkind-text> (value*))           set, iteration order
//   (tuple value*)  (record (name value)*)  (table rows (name kindtext (value*))*)
//   (map (k v)*) (atom "name") (enum "name") (empty) (kind "text") (other "text")
// Payloads: integers in decimal; f64/f32 as their IEEE bit pattern in decimal;
// bool 0/1; strings quoted; r64 (n d); c64 (rebits imbits).
use mech_core::*;
use mech_core::structures::matrix::Matrix;

pub fn qstr(s: &str) -> String {
  let mut o = String::with_capacity(s.len() + 2);
  o.push('"');
  for b in s.bytes() {
    match b {
      b'"' => o.push_str("\\\""),
      b'\\' => o.push_str("\\\\"),
      b'\n' => o.push_str("\\n"),
      b'\r' => o.push_str("\\r"),
      b'\t' => o.push_str("\\t"),
      0x20..=0x7e => o.push(b as char),
      _ => o.push_str(&format!("\\x{:02x}", b)),
    }
  }
  o.push('"');
  o
}

fn mat<T: Clone + std::fmt::Debug + PartialEq + 'static>(kind: &str, m: &Matrix<T>, f: impl Fn(&T) -> String) -> String {
  let v = m.as_vec();
  let elems: Vec<String> = v.iter().map(|x| f(x)).collect();
  format!("(m {} {} {} ({}))", kind, m.rows(), m.cols(), elems.join(" "))
}

pub fn form_name(v: &Value) -> String {
  macro_rules! f { ($m:expr) => { match $m {
      Matrix::DMatrix(_) => "DMatrix".to_string(),
      Matrix::RowDVector(_) => "RowDVector".to_string(),
      Matrix::DVector(_) => "DVector".to_string(),
      #[allow(unreachable_patterns)]
      _ => "Other".to_string(),
  } } }
  match v {
    Value::MatrixIndex(m) => f!(m), Value::MatrixBool(m) => f!(m),
    Value::MatrixU8(m) => f!(m), Value::MatrixU16(m) => f!(m), Value::MatrixU32(m) => f!(m),
    Value::MatrixU64(m) => f!(m), Value::MatrixU128(m) => f!(m),
    Value::MatrixI8(m) => f!(m), Value::MatrixI16(m) => f!(m), Value::MatrixI32(m) => f!(m),
    Value::MatrixI64(m) => f!(m), Value::MatrixI128(m) => f!(m),
    Value::MatrixF32(m) => f!(m), Value::MatrixF64(m) => f!(m),
    Value::MatrixString(m) => f!(m), Value::MatrixR64(m) => f!(m), Value::MatrixC64(m) => f!(m),
    Value::MatrixValue(m) => f!(m),
    Value::MutableReference(r) => form_name(&r.borrow()),
    _ => "Scalar".to_string(),
  }
}

fn r64s(r: &R64) -> String { format!("({} {})", r.numer(), r.denom()) }
fn c64s(c: &C64) -> String { format!("({} {})", c.0.re.to_bits(), c.0.im.to_bits()) }

pub fn canon(v: &Value) -> String {
  match v {
    Value::U8(x) => format!("(s u8 {})", *x.borrow()),
    Value::U16(x) => format!("(s u16 {})", *x.borrow()),
    Value::U32(x) => format!("(s u32 {})", *x.borrow()),
    Value::U64(x) => format!("(s u64 {})", *x.borrow()),
    Value::U128(x) => format!("(s u128 {})", *x.borrow()),
    Value::I8(x) => format!("(s i8 {})", *x.borrow()),
    Value::I16(x) => format!("(s i16 {})", *x.borrow()),
    Value::I32(x) => format!("(s i32 {})", *x.borrow()),
    Value::I64(x) => format!("(s i64 {})", *x.borrow()),
    Value::I128(x) => format!("(s i128 {})", *x.borrow()),
    Value::F32(x) => format!("(s f32 {})", x.borrow().to_bits()),
    Value::F64(x) => format!("(s f64 {})", x.borrow().to_bits()),
    Value::String(x) => format!("(s string {})", qstr(&x.borrow())),
    Value::Bool(x) => format!("(s bool {})", if *x.borrow() { 1 } else { 0 }),
    Value::R64(x) => { let r = x.borrow(); format!("(s r64 {})", r64s(&r)) }
    Value::C64(x) => { let c = x.borrow(); format!("(s c64 {})", c64s(&c)) }
    Value::Index(x) => format!("(s ix {})", *x.borrow()),
    Value::Atom(x) => format!("(atom {})", qstr(&x.borrow().name())),
    Value::MatrixIndex(m) => mat("ix", m, |x| format!("{}", x)),
    Value::MatrixBool(m) => mat("bool", m, |x| (if *x { "1" } else { "0" }).to_string()),
    Value::MatrixU8(m) => mat("u8", m, |x| format!("{}", x)),
    Value::MatrixU16(m) => mat("u16", m, |x| format!("{}", x)),
    Value::MatrixU32(m) => mat("u32", m, |x| format!("{}", x)),
    Value::MatrixU64(m) => mat("u64", m, |x| format!("{}", x)),
    Value::MatrixU128(m) => mat("u128", m, |x| format!("{}", x)),
    Value::MatrixI8(m) => mat("i8", m, |x| format!("{}", x)),
    Value::MatrixI16(m) => mat("i16", m, |x| format!("{}", x)),
    Value::MatrixI32(m) => mat("i32", m, |x| format!("{}", x)),
    Value::MatrixI64(m) => mat("i64", m, |x| format!("{}", x)),
    Value::MatrixI128(m) => mat("i128", m, |x| format!("{}", x)),
    Value::MatrixF32(m) => mat("f32", m, |x| format!("{}", x.to_bits())),
    Value::MatrixF64(m) => mat("f64", m, |x| format!("{}", x.to_bits())),
    Value::MatrixString(m) => mat("string", m, |x| qstr(x)),
    Value::MatrixR64(m) => mat("r64", m, |x| r64s(x)),
    Value::MatrixC64(m) => mat("c64", m, |x| c64s(x)),
    Value::MatrixValue(m) => mat("value", m, |x| canon(x)),
    Value::Set(s) => {
      let s = s.borrow();
      let elems: Vec<String> = s.set.iter().map(|e| canon(e)).collect();
      format!("(set {} {} ({}))", qstr(&format!("{}", s.kind)), s.num_elements, elems.join(" "))
    }
    Value::Map(m) => {
      let m = m.borrow();
      let elems: Vec<String> = m.map.iter().map(|(k, v)| format!("({} {})", canon(k), canon(v))).collect();
      format!("(map {})", elems.join(" "))
    }
    Value::Tuple(t) => {
      let t = t.borrow();
      let elems: Vec<String> = t.elements.iter().map(|e| canon(e)).collect();
      format!("(tuple {})", elems.join(" "))
    }
    Value::Record(r) => {
      let r = r.borrow();
      let mut elems: Vec<String> = vec![];
      for (id, val) in r.data.iter() {
        let name = r.field_names.get(id).cloned().unwrap_or(format!("#{}", id));
        elems.push(format!("({} {})", qstr(&name), canon(val)));
      }
      format!("(record {})", elems.join(" "))
    }
    Value::Table(t) => {
      let t = t.borrow();
      let mut cols: Vec<String> = vec![];
      for (id, (kind, m)) in t.data.iter() {
        let name = t.col_names.get(id).cloned().unwrap_or(format!("#{}", id));
        let elems: Vec<String> = m.as_vec().iter().map(|e| canon(e)).collect();
        cols.push(format!("({} {} ({}))", qstr(&name), qstr(&format!("{}", kind)), elems.join(" ")));
      }
      format!("(table {} {})", t.rows, cols.join(" "))
    }
    Value::Enum(e) => { let e = e.borrow(); format!("(enum {})", qstr(&format!("{:?}", e.variants.iter().map(|(id,v)| (e.names.borrow().get(id).cloned().unwrap_or_default(), v.as_ref().map(|x| canon(x)))).collect::<Vec<_>>()))) }
    Value::MutableReference(r) => canon(&r.borrow()),
    Value::Typed(v, k) => format!("(typed {} {})", qstr(&format!("{}", k)), canon(v)),
    Value::Kind(k) => format!("(kind {})", qstr(&format!("{}", k))),
    Value::Id(i) => format!("(id {})", i),
    Value::IndexAll => "(all)".to_string(),
    Value::EmptyKind(k) => format!("(emptykind {})", qstr(&format!("{}", k))),
    Value::Empty => "(empty)".to_string(),
    #[allow(unreachable_patterns)]
    _ => format!("(other {})", qstr(&format!("{:?}", v))),
  }
}
