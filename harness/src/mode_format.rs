// mode `format` (property C08): formatter / parser round trip on the real code.
//
//   input : {src}
//   output: (perr) | (panic parse)                       the source itself does not parse (case is skipped)
//         | (fmt "<text1>" <reparse> <same> <idem> <digest1> <digest2> (delta (<Node> <n>)*) (diff "<l1>" "<l2>") "<text2>")
//       text1   = Formatter::new().format(&tree1)                      (or (fmt-panic) instead of the whole form)
//       reparse = ok | perr | panic        result of parse(text1)
//       same    = 1 iff tree2 == tree1 after erasing source positions (see `normalise`)
//       idem    = 1 iff format(tree2) == text1
//       digest  = FNV-1a 64 of the normalised `{:#?}` rendering of the tree (0 when there is no tree)
//       delta   = node-kind census of tree2 minus census of tree1 (only non-zero entries, sorted by name, at most 16):
//                 a node kind is a capitalised Rust identifier followed by " {" or "(" in the Debug rendering,
//                 or the token kind in front of `:"`.
//       diff    = first differing normalised line of tree1 / tree2 ("" "" when equal or no tree2)
//       text2   = format(tree2) when it differs from text1, "" otherwise
//
// Positions: every node derives Debug; Token prints as `Kind:"chars":[r:c, r:c)` and SourceRange as `[r:c, r:c)`.
// `normalise` erases every `[r:c, r:c)` outside string literals (and the `:` in front of it), nothing else:
// the grammar keeps no separate whitespace tokens in the tree except inside paragraph text, where they are content.
use crate::canon::*;
use mech_core::*;
use mech_syntax::*;
use serde_json::Value as J;
use std::collections::BTreeMap;
use std::panic::{catch_unwind, AssertUnwindSafe};

fn is_range_at(b: &[u8], i: usize) -> Option<usize> {
  // matches "[d+:d+, d+:d+)" at i, returns index after it
  let mut j = i;
  if j >= b.len() || b[j] != b'[' { return None; }
  j += 1;
  let num = |j: &mut usize| -> bool { let s = *j; while *j < b.len() && b[*j].is_ascii_digit() { *j += 1; } *j > s };
  if !num(&mut j) { return None; }
  if j >= b.len() || b[j] != b':' { return None; } j += 1;
  if !num(&mut j) { return None; }
  if j + 1 >= b.len() || b[j] != b',' || b[j + 1] != b' ' { return None; } j += 2;
  if !num(&mut j) { return None; }
  if j >= b.len() || b[j] != b':' { return None; } j += 1;
  if !num(&mut j) { return None; }
  if j >= b.len() || b[j] != b')' { return None; }
  Some(j + 1)
}

pub fn normalise(dbg: &str) -> String {
  let b = dbg.as_bytes();
  let mut out: Vec<u8> = Vec::with_capacity(b.len());
  let mut i = 0;
  while i < b.len() {
    let c = b[i];
    if c == b'"' {
      // copy a string literal verbatim
      out.push(c); i += 1;
      while i < b.len() {
        let d = b[i];
        out.push(d); i += 1;
        if d == b'\\' && i < b.len() { out.push(b[i]); i += 1; continue; }
        if d == b'"' { break; }
      }
      continue;
    }
    if c == b'\'' && i + 2 < b.len() {
      // char literal 'x' or '\x' (Vec<char> fields)
      let mut j = i + 1;
      if b[j] == b'\\' { j += 1; }
      // skip one UTF-8 scalar
      j += 1; while j < b.len() && (b[j] & 0xC0) == 0x80 { j += 1; }
      if j < b.len() && b[j] == b'\'' { out.extend_from_slice(&b[i..=j]); i = j + 1; continue; }
    }
    if c == b'[' {
      if let Some(j) = is_range_at(b, i) {
        if out.last() == Some(&b':') { out.pop(); }
        out.extend_from_slice(b"@"); i = j; continue;
      }
    }
    out.push(c); i += 1;
  }
  String::from_utf8_lossy(&out).to_string()
}

fn fnv(s: &str) -> u64 {
  let mut h: u64 = 0xcbf29ce484222325;
  for b in s.bytes() { h ^= b as u64; h = h.wrapping_mul(0x100000001b3); }
  h >> 1
}

fn census(norm: &str) -> BTreeMap<String, i64> {
  let mut m: BTreeMap<String, i64> = BTreeMap::new();
  let b = norm.as_bytes();
  let mut i = 0;
  while i < b.len() {
    let c = b[i];
    if c == b'"' {
      i += 1;
      while i < b.len() { let d = b[i]; i += 1; if d == b'\\' { i += 1; continue; } if d == b'"' { break; } }
      continue;
    }
    if c.is_ascii_uppercase() && (i == 0 || !(b[i - 1].is_ascii_alphanumeric() || b[i - 1] == b'_')) {
      let s = i;
      while i < b.len() && (b[i].is_ascii_alphanumeric() || b[i] == b'_') { i += 1; }
      let name = &norm[s..i];
      let follows = if i < b.len() { b[i] } else { b' ' };
      let is_node = follows == b'(' || (follows == b' ' && i + 1 < b.len() && b[i + 1] == b'{') || (follows == b':' && i + 1 < b.len() && b[i + 1] == b'"');
      if is_node { *m.entry(name.to_string()).or_insert(0) += 1; }
      continue;
    }
    i += 1;
  }
  m
}

pub fn mode_format(j: &J) -> String {
  let src = j["src"].as_str().unwrap_or("");
  let tree1 = match catch_unwind(|| parser::parse(src)) {
    Ok(Ok(t)) => t,
    Ok(Err(_)) => return "(perr)".to_string(),
    Err(_) => return "(panic parse)".to_string(),
  };
  let text1 = match catch_unwind(AssertUnwindSafe(|| Formatter::new().format(&tree1))) {
    Ok(t) => t,
    Err(_) => return "(fmt-panic)".to_string(),
  };
  let n1 = normalise(&format!("{:#?}", tree1));
  let d1 = fnv(&n1);
  let t1 = text1.clone();
  let (reparse, tree2) = match catch_unwind(move || parser::parse(&t1)) {
    Ok(Ok(t)) => ("ok", Some(t)),
    Ok(Err(_)) => ("perr", None),
    Err(_) => ("panic", None),
  };
  let mut same = 0; let mut idem = 0; let mut d2 = 0u64;
  let mut delta = String::new();
  let mut diff = ("".to_string(), "".to_string());
  let mut text2 = String::new();
  if let Some(t2) = &tree2 {
    let n2 = normalise(&format!("{:#?}", t2));
    d2 = fnv(&n2);
    if n1 == n2 { same = 1; } else {
      let mut a = n1.lines(); let mut b = n2.lines();
      loop {
        match (a.next(), b.next()) {
          (Some(x), Some(y)) => if x != y { diff = (x.trim().to_string(), y.trim().to_string()); break; },
          (Some(x), None) => { diff = (x.trim().to_string(), "<end>".to_string()); break; }
          (None, Some(y)) => { diff = ("<end>".to_string(), y.trim().to_string()); break; }
          (None, None) => break,
        }
      }
      let c1 = census(&n1); let c2 = census(&n2);
      let mut keys: Vec<&String> = c1.keys().chain(c2.keys()).collect();
      keys.sort(); keys.dedup();
      let mut parts: Vec<String> = vec![];
      for k in keys {
        let dlt = c2.get(k).cloned().unwrap_or(0) - c1.get(k).cloned().unwrap_or(0);
        if dlt != 0 && parts.len() < 16 { parts.push(format!("({} {})", k, dlt)); }
      }
      delta = parts.join(" ");
    }
    match catch_unwind(AssertUnwindSafe(|| Formatter::new().format(t2))) {
      Ok(t) => { if t == text1 { idem = 1; } else { text2 = t; } }
      Err(_) => { text2 = "<fmt-panic>".to_string(); }
    }
  }
  let clip = |s: &str| -> String { let v: String = s.chars().take(200).collect(); v };
  format!("(fmt {} {} {} {} {} {} (delta {}) (diff {} {}) {})", qstr(&text1), reparse, same, idem, d1, d2, delta,
    qstr(&clip(&diff.0)), qstr(&clip(&diff.1)), qstr(&text2))
}
