// mode `format` (property C08): formatter / parser round trip on the real code.
//
//   input : {src}
//   output: (perr) | (panic parse)                       the source itself does not parse (the case is skipped)
//         | (fmt-panic (feat ...))                        Formatter::format panicked on a tree the parser produced
//         | (fmt "<text1>" <reparse> <same> <idem> <digest1> <digest2> (feat <atom>*) (delta (<Node> <n>)*) (diff "<path>" "<v1>" "<v2>") "<text2>")
//       text1   = Formatter::new().format(&tree1)
//       reparse = ok | perr | panic        result of parse(text1)
//       same    = 1 iff tree2 == tree1 after erasing source positions (see `strip`)
//       idem    = 1 iff format(tree2) == text1
//       digest  = FNV-1a 64 (>>1) of the position-free JSON of the tree (0 when there is no tree)
//       feat    = the syntactic features of tree1 (sorted, distinct): every enum-variant / node tag that occurs
//                 (externally tagged serde keys and unit-variant strings, e.g. Matrix, Comment, Scientific, Subset),
//                 every token kind as `tok-<Kind>`, plus the structural features computed in `features` below
//                 (multirow, named-arg, range-inc, empty-map, kind-record, kind-table, trailing-comment, str-special, ...)
//       delta   = tag census of tree2 minus tag census of tree1 (non-zero entries, sorted, at most 16)
//       diff    = first position (JSON path) where the two position-free trees differ, with both values (clipped)
//       text2   = format(tree2) when it differs from text1, "" otherwise
//
// Positions: the AST derives Serialize (mech-core feature `serde`); every Token is {kind, chars, src_range} and every
// position is a `src_range` / `error_range` field or a {start:{row,col},end:{row,col}} object.  `strip` removes exactly
// those, and rewrites a token to the string "<Kind>:<chars>".  The grammar keeps no whitespace tokens in code nodes;
// whitespace inside paragraph text is content and is compared.
use crate::canon::*;
use mech_core::*;
use mech_syntax::*;
use serde_json::Value as J;
use std::collections::{BTreeMap, BTreeSet};
use std::panic::{catch_unwind, AssertUnwindSafe};

fn is_range_obj(v: &J) -> bool {
  if let J::Object(m) = v {
    if m.len() == 2 {
      if let (Some(J::Object(s)), Some(J::Object(e))) = (m.get("start"), m.get("end")) {
        return s.len() == 2 && s.contains_key("row") && s.contains_key("col") && e.len() == 2 && e.contains_key("row") && e.contains_key("col");
      }
    }
  }
  false
}

pub fn strip(v: &J) -> J {
  match v {
    J::Object(m) => {
      if m.len() == 3 && m.contains_key("kind") && m.contains_key("chars") && m.contains_key("src_range") {
        if let (Some(J::String(k)), Some(J::Array(cs))) = (m.get("kind"), m.get("chars")) {
          let s: String = cs.iter().map(|c| c.as_str().unwrap_or("?")).collect();
          return J::String(format!("{}:{}", k, s));
        }
      }
      let mut o = serde_json::Map::new();
      for (k, x) in m.iter() {
        if k == "src_range" || k == "error_range" { continue; }
        if is_range_obj(x) { continue; }
        o.insert(k.clone(), strip(x));
      }
      J::Object(o)
    }
    J::Array(a) => J::Array(a.iter().filter(|x| !is_range_obj(x)).map(strip).collect()),
    _ => v.clone(),
  }
}

fn fnv(s: &str) -> u64 {
  let mut h: u64 = 0xcbf29ce484222325;
  for b in s.bytes() { h ^= b as u64; h = h.wrapping_mul(0x100000001b3); }
  h >> 1
}

fn is_tag(s: &str) -> bool {
  let mut cs = s.chars();
  match cs.next() { Some(c) if c.is_ascii_uppercase() => cs.all(|c| c.is_ascii_alphanumeric()), _ => false }
}

// tag census of a stripped tree: externally tagged enum keys, unit variants, token kinds
fn census(v: &J, m: &mut BTreeMap<String, i64>) {
  match v {
    J::Object(o) => for (k, x) in o.iter() {
      if is_tag(k) { *m.entry(k.clone()).or_insert(0) += 1; }
      census(x, m);
    },
    J::Array(a) => for x in a { census(x, m); },
    J::String(s) => {
      if let Some(p) = s.find(':') {
        if is_tag(&s[..p]) { *m.entry(format!("tok-{}", &s[..p])).or_insert(0) += 1; return; }
      }
      if is_tag(s) { *m.entry(s.clone()).or_insert(0) += 1; }
    }
    _ => {}
  }
}

// `x.a` at the very end of an element / an identifier at the very beginning of the next one (comma-swizzle class)
fn last_is_dot(v: &J) -> bool {
  match v {
    J::Object(o) if o.len() == 1 => {
      let (k, x) = o.iter().next().unwrap();
      match k.as_str() {
        "Slice" => x.get("subscript").and_then(|s| s.as_array()).and_then(|a| a.last()).map(|l| l.get("Dot").is_some()).unwrap_or(false),
        "Formula" | "Expression" | "Negate" | "Not" => last_is_dot(x),
        "Term" => x.get("rhs").and_then(|r| r.as_array()).and_then(|a| a.last()).and_then(|p| p.as_array()).and_then(|p| p.last()).map(last_is_dot).unwrap_or(false),
        "Range" => x.get("terminal").map(last_is_dot).unwrap_or(false),
        _ => false,
      }
    }
    _ => false,
  }
}
fn first_is_ident(v: &J) -> bool {
  match v {
    J::Object(o) if o.len() == 1 => {
      let (k, x) = o.iter().next().unwrap();
      match k.as_str() {
        "Var" | "Slice" | "FunctionCall" => true,
        "Literal" => x.get("Boolean").is_some() || x.get("TypedLiteral").and_then(|t| t.as_array()).and_then(|a| a.first()).map(|l| l.get("Boolean").is_some()).unwrap_or(false),
        "Formula" | "Expression" | "Transpose" => first_is_ident(x),
        "Term" => x.get("lhs").map(first_is_ident).unwrap_or(false),
        "Range" => x.get("start").map(first_is_ident).unwrap_or(false),
        _ => false,
      }
    }
    _ => false,
  }
}
fn adjacent_swizzle(a: &Vec<J>) -> bool { (1..a.len()).any(|i| last_is_dot(&a[i - 1]) && first_is_ident(&a[i])) }

fn features(v: &J, f: &mut BTreeSet<String>) {
  match v {
    J::Object(o) => {
      for (k, x) in o.iter() {
        match (k.as_str(), x) {
          ("Matrix", J::Object(mo)) => {
            if let Some(J::Array(rows)) = mo.get("rows") {
              if rows.len() >= 2 { f.insert("multirow".into()); }
              if rows.is_empty() { f.insert("empty-matrix".into()); }
              let lens: Vec<usize> = rows.iter().map(|r| r.get("columns").and_then(|c| c.as_array()).map(|a| a.len()).unwrap_or(0)).collect();
              if lens.iter().any(|l| *l < lens[0]) { f.insert("jagged".into()); }
              if lens.iter().any(|l| *l > lens[0]) { f.insert("jagged-long".into()); }
            }
          }
          ("FunctionCall", J::Object(fo)) => {
            if let Some(J::Array(args)) = fo.get("args") {
              for a in args { if let J::Array(p) = a { if p.len() == 2 && !p[0].is_null() { f.insert("named-arg".into()); } } }
            }
          }
          ("increment", x) if !x.is_null() => { f.insert("range-inc".into()); }
          ("InlineCode", J::String(t)) => { if t.contains('\\') || t.contains('`') { f.insert("inline-code-special".into()); } }
          ("subtitle", x) if !x.is_null() => { f.insert("section-subtitle".into()); }
          ("Map", J::Object(mo)) => { if let Some(J::Array(e)) = mo.get("elements") { if e.is_empty() { f.insert("empty-map".into()); } } }
          ("Record", J::Array(_)) => { f.insert("kind-record".into()); }
          ("Table", J::Array(_)) => { f.insert("kind-table".into()); }
          ("Table", J::Object(to)) => { if to.contains_key("alignment") { f.insert("md-table".into()); } else if to.contains_key("header") { f.insert("table-literal".into()); } }
          ("Hyperlink", J::Array(h)) => {
            // raw hyperlink: the link text is the URL itself
            if h.len() == 2 {
              let url = h[1].as_str().map(|s| s.splitn(2, ':').nth(1).unwrap_or("").to_string()).unwrap_or_default();
              let mut txt = String::new();
              if let Some(J::Array(els)) = h[0].get("elements") { for e in els { if let Some(J::String(t)) = e.get("Text") { txt.push_str(t.splitn(2, ':').nth(1).unwrap_or("")); } } }
              if !url.is_empty() && txt == url { f.insert("raw-hyperlink".into()); }
            }
          }
          ("TupleStruct", J::Object(to)) => { if to.contains_key("value") { f.insert("tuple-struct-value".into()); } }
          ("Bracket", J::Array(subs)) => { if adjacent_swizzle(subs) { f.insert("comma-swizzle".into()); } }
          ("Tuple", J::Object(to)) => { if let Some(J::Array(e)) = to.get("elements") { if adjacent_swizzle(e) { f.insert("comma-swizzle".into()); } if e.len() == 1 { f.insert("tuple1".into()); } if e.is_empty() { f.insert("tuple0".into()); } } }
          ("MechCode", J::Array(items)) | ("code", J::Array(items)) => {
            for it in items { if let J::Array(p) = it { if p.len() == 2 && !p[1].is_null() { f.insert("trailing-comment".into()); } } }
            if items.len() >= 2 { f.insert("multi-statement".into()); }
          }
          ("Complex", J::Object(co)) => {
            if let Some(J::Object(im)) = co.get("imaginary") { if let Some(J::Object(n)) = im.get("number") { if n.contains_key("Negated") { f.insert("complex-neg-imag".into()); } } }
          }
          _ => {}
        }
        features(x, f);
      }
    }
    J::Array(a) => for x in a { features(x, f); },
    J::String(s) => {
      if let Some(rest) = s.strip_prefix("String:") {
        // a string whose VALUE contains a quote or a backslash (the formatter prints them unescaped); line breaks and
        // tabs are printed raw and read back unchanged, so they are not part of the class
        if rest.chars().any(|c| c == '"' || c == '\\') { f.insert("str-special".into()); }
      }
    }
    _ => {}
  }
}

fn clip(s: &str) -> String { s.chars().take(160).collect() }

fn first_diff(a: &J, b: &J, path: &mut String) -> Option<(String, String, String)> {
  if a == b { return None; }
  match (a, b) {
    (J::Object(x), J::Object(y)) => {
      let kx: Vec<&String> = x.keys().collect(); let ky: Vec<&String> = y.keys().collect();
      if kx != ky { return Some((path.clone(), clip(&format!("{{{}}}", kx.iter().map(|s| s.as_str()).collect::<Vec<_>>().join(","))), clip(&format!("{{{}}}", ky.iter().map(|s| s.as_str()).collect::<Vec<_>>().join(","))))); }
      for k in kx {
        let l = path.len(); path.push('/'); path.push_str(k);
        if let Some(d) = first_diff(&x[k], &y[k], path) { return Some(d); }
        path.truncate(l);
      }
      None
    }
    (J::Array(x), J::Array(y)) => {
      for i in 0..x.len().min(y.len()) {
        let l = path.len(); path.push_str(&format!("/{}", i));
        if let Some(d) = first_diff(&x[i], &y[i], path) { return Some(d); }
        path.truncate(l);
      }
      Some((path.clone(), format!("len {}", x.len()), format!("len {}", y.len())))
    }
    _ => Some((path.clone(), clip(&a.to_string()), clip(&b.to_string()))),
  }
}

fn tree_json(t: &Program) -> J { strip(&serde_json::to_value(t).unwrap_or(J::Null)) }

pub fn mode_format(j: &J) -> String {
  let src = j["src"].as_str().unwrap_or("");
  let tree1 = match catch_unwind(|| parser::parse(src)) {
    Ok(Ok(t)) => t,
    Ok(Err(_)) => return "(perr)".to_string(),
    Err(_) => return "(panic parse)".to_string(),
  };
  let j1 = tree_json(&tree1);
  let mut fs: BTreeSet<String> = BTreeSet::new();
  features(&j1, &mut fs);
  // source-derived: a backslash escape of a punctuation character (Mechdown removes the backslash from the text token)
  {
    let cs: Vec<char> = src.chars().collect();
    if (1..cs.len()).any(|i| cs[i - 1] == '\\' && cs[i].is_ascii_punctuation()) { fs.insert("md-escape".into()); }
  }
  let mut c1: BTreeMap<String, i64> = BTreeMap::new();
  census(&j1, &mut c1);
  for k in c1.keys() { fs.insert(k.clone()); }
  let feat = fs.iter().cloned().collect::<Vec<_>>().join(" ");
  let text1 = match catch_unwind(AssertUnwindSafe(|| Formatter::new().format(&tree1))) {
    Ok(t) => t,
    Err(_) => return format!("(fmt-panic (feat {}))", feat),
  };
  let d1 = fnv(&j1.to_string());
  let t1 = text1.clone();
  let (reparse, tree2) = match catch_unwind(move || parser::parse(&t1)) {
    Ok(Ok(t)) => ("ok", Some(t)),
    Ok(Err(_)) => ("perr", None),
    Err(_) => ("panic", None),
  };
  let mut same = 0; let mut idem = 0; let mut d2 = 0u64;
  let mut delta = String::new();
  let mut diff = (String::new(), String::new(), String::new());
  let mut text2 = String::new();
  if let Some(t2) = &tree2 {
    let j2 = tree_json(t2);
    d2 = fnv(&j2.to_string());
    if j1 == j2 { same = 1; } else {
      let mut p = String::new();
      if let Some(d) = first_diff(&j1, &j2, &mut p) { diff = d; }
      let mut c2: BTreeMap<String, i64> = BTreeMap::new();
      census(&j2, &mut c2);
      let mut keys: Vec<&String> = c1.keys().chain(c2.keys()).collect();
      keys.sort(); keys.dedup();
      let mut parts: Vec<String> = vec![];
      for k in keys {
        let dl = c2.get(k).cloned().unwrap_or(0) - c1.get(k).cloned().unwrap_or(0);
        if dl != 0 && parts.len() < 16 { parts.push(format!("({} {})", k, dl)); }
      }
      delta = parts.join(" ");
    }
    match catch_unwind(AssertUnwindSafe(|| Formatter::new().format(t2))) {
      Ok(t) => { if t == text1 { idem = 1; } else { text2 = t; } }
      Err(_) => { text2 = "<fmt-panic>".to_string(); }
    }
  }
  format!("(fmt {} {} {} {} {} {} (feat {}) (delta {}) (diff {} {} {}) {})", qstr(&text1), reparse, same, idem, d1, d2, feat, delta,
    qstr(&diff.0), qstr(&diff.1), qstr(&diff.2), qstr(&text2))
}
