// mvh — the implementation side of the correspondence check.
// Reads one JSON object per line on stdin, runs the real mech code on it and
// prints `<id>\t<canonical observation>` per line (see canon.rs for the grammar).
#![allow(unused)]
mod canon;
mod mode_fsm;
mod mode_parse;
mod mode_doc;
mod mode_format;
use canon::*;
use mech_core::*;
use mech_interpreter::*;
use mech_syntax::*;
use serde_json::Value as J;
use std::io::{BufRead, Write};
use std::panic::{catch_unwind, AssertUnwindSafe};

fn errs(e: &MechError) -> String { format!("(err {})", qstr(&e.kind_name())) }

fn hex(bytes: &[u8]) -> String { bytes.iter().map(|b| format!("{:02x}", b)).collect() }
fn unhex(s: &str) -> Vec<u8> {
  let b = s.as_bytes();
  (0..b.len() / 2).map(|i| u8::from_str_radix(std::str::from_utf8(&b[2 * i..2 * i + 2]).unwrap(), 16).unwrap()).collect()
}

// Evaluate one source text in a given interpreter.
fn eval(intrp: &mut Interpreter, src: &str) -> String {
  let tree = match catch_unwind(|| parser::parse(src)) {
    Ok(Ok(t)) => t,
    Ok(Err(_)) => return "(perr)".to_string(),
    Err(_) => return "(panic parse)".to_string(),
  };
  match catch_unwind(AssertUnwindSafe(|| intrp.interpret(&tree))) {
    Ok(Ok(v)) => canon(&v),
    Ok(Err(e)) => errs(&e),
    Err(_) => "(panic interpret)".to_string(),
  }
}

// Address of the storage cell of a value.  `Value::addr()` is `todo!()` for every matrix kind except
// MatrixIndex, so matrices are handled here; anything else that still panics gets address 0.
fn value_addr(v: &Value) -> usize {
  match v {
    Value::MatrixBool(m) => m.addr(),
    Value::MatrixU8(m) => m.addr(), Value::MatrixU16(m) => m.addr(), Value::MatrixU32(m) => m.addr(),
    Value::MatrixU64(m) => m.addr(), Value::MatrixU128(m) => m.addr(),
    Value::MatrixI8(m) => m.addr(), Value::MatrixI16(m) => m.addr(), Value::MatrixI32(m) => m.addr(),
    Value::MatrixI64(m) => m.addr(), Value::MatrixI128(m) => m.addr(),
    Value::MatrixF32(m) => m.addr(), Value::MatrixF64(m) => m.addr(),
    Value::MatrixString(m) => m.addr(), Value::MatrixR64(m) => m.addr(), Value::MatrixC64(m) => m.addr(),
    Value::MatrixValue(m) => m.addr(),
    Value::MutableReference(r) => value_addr(&r.borrow()),
    _ => catch_unwind(AssertUnwindSafe(|| v.addr())).unwrap_or(0),
  }
}

fn dump_symbols(intrp: &Interpreter) -> String {
  let st = intrp.symbols();
  let st = st.borrow();
  let dict = st.dictionary.borrow();
  let mut rows: Vec<(String, bool, String, usize)> = vec![];
  for (k, v) in st.symbols.iter() {
    let name = dict.get(k).cloned().unwrap_or(format!("#{}", k));
    let m = st.mutable_variables.contains_key(k);
    let vb = v.borrow();
    rows.push((name, m, canon(&vb), value_addr(&vb)));
  }
  rows.sort();
  // alias classes: number distinct addresses in order of first appearance (names sorted)
  let mut addrs: Vec<usize> = vec![];
  let mut out: Vec<String> = vec![];
  for (name, m, c, a) in rows.iter() {
    let cls = match addrs.iter().position(|x| x == a) { Some(p) => p, None => { addrs.push(*a); addrs.len() - 1 } };
    out.push(format!("({} {} {} {})", qstr(name), if *m { 1 } else { 0 }, cls, c));
  }
  format!("(syms {})", out.join(" "))
}

fn mode_prog(j: &J) -> String {
  let src = j["src"].as_str().unwrap_or("");
  let mut intrp = Interpreter::new(0);
  let r = eval(&mut intrp, src);
  if j.get("form").is_some() {
    // also report storage form of result when asked
    return r;
  }
  r
}

fn mode_multi(j: &J) -> String {
  let mut out: Vec<String> = vec![];
  if let Some(srcs) = j["srcs"].as_array() {
    for s in srcs {
      let mut intrp = Interpreter::new(0);
      out.push(eval(&mut intrp, s.as_str().unwrap_or("")));
    }
  }
  format!("(multi {})", out.join(" "))
}

fn mode_session(j: &J) -> String {
  let mut intrp = Interpreter::new(0);
  let mut out: Vec<String> = vec![];
  if let Some(stmts) = j["stmts"].as_array() {
    for s in stmts {
      let src = s.as_str().unwrap_or("");
      let r = eval(&mut intrp, src);
      out.push(format!("(step {} {})", r, dump_symbols(&intrp)));
    }
  }
  format!("(session {})", out.join(" "))
}

// Dataflow of a plan step read back from its Debug text: `field: @0x<addr>: value` pairs.
// The field called `out` is the step's output cell; every other addressed field is an operand.
fn step_fields(txt: &str) -> Vec<(String, String)> {
  let mut res = vec![];
  for line in txt.lines() {
    let t = line.trim();
    if let Some(p) = t.find(": @0x") {
      let name = &t[..p];
      if name.chars().all(|c| c.is_alphanumeric() || c == '_') && !name.is_empty() {
        let rest = &t[p + 5..];
        let addr: String = rest.chars().take_while(|c| c.is_ascii_hexdigit()).collect();
        res.push((name.to_string(), addr));
      }
    }
  }
  res
}

fn plan_dump(intrp: &Interpreter) -> String {
  let plan = intrp.plan();
  let plan = plan.borrow();
  let mut out: Vec<String> = vec![];
  let mut addrs: Vec<String> = vec![];
  let mut cell = |a: &str, addrs: &mut Vec<String>| -> usize {
    match addrs.iter().position(|x| x == a) { Some(p) => p, None => { addrs.push(a.to_string()); addrs.len() - 1 } }
  };
  for f in plan.iter() {
    let txt = f.to_string();
    let name: String = txt.chars().take_while(|c| c.is_alphanumeric() || *c == '_').collect();
    let fields = step_fields(&txt);
    let outs: Vec<usize> = fields.iter().filter(|(n, _)| n == "out").map(|(_, a)| cell(a, &mut addrs)).collect();
    let ins: Vec<usize> = fields.iter().filter(|(n, _)| n != "out").map(|(_, a)| cell(a, &mut addrs)).collect();
    let structured = txt.contains(" {\n") && !fields.is_empty();
    out.push(format!("(pstep {} {} ({}) ({}))", qstr(&name), if structured { 1 } else { 0 },
      outs.iter().map(|x| x.to_string()).collect::<Vec<_>>().join(" "),
      ins.iter().map(|x| x.to_string()).collect::<Vec<_>>().join(" ")));
  }
  format!("(plan {})", out.join(" "))
}

fn step_b(src: &str, k: u64) -> (String, String, String, String) {
  let mut b = Interpreter::new(0);
  let rb = eval(&mut b, src);
  let b0 = dump_symbols(&b);
  let r = match catch_unwind(AssertUnwindSafe(|| b.step(0, k))) {
    Ok(Ok(v)) => canon(&v), Ok(Err(e)) => errs(&e), Err(_) => "(panic step)".to_string() };
  let bk = dump_symbols(&b);
  (rb, b0, r, bk)
}

fn step_b_child(src: &str, k: u64) -> Option<(String, String, String, String)> {
  use std::process::{Command, Stdio};
  let exe = std::env::current_exe().ok()?;
  let mut child = Command::new(exe).arg("stepb").stdin(Stdio::piped()).stdout(Stdio::piped()).stderr(Stdio::null()).spawn().ok()?;
  let req = serde_json::json!({"id": "b", "src": src, "k": k}).to_string();
  child.stdin.take()?.write_all(format!("{}\n", req).as_bytes()).ok()?;
  let out = child.wait_with_output().ok()?;
  let txt = String::from_utf8_lossy(&out.stdout).to_string();
  for line in txt.lines() {
    if let Some(rest) = line.strip_prefix("b\t") {
      let parts: Vec<&str> = rest.split('\u{1}').collect();
      if parts.len() == 4 { return Some((parts[0].to_string(), parts[1].to_string(), parts[2].to_string(), parts[3].to_string())); }
    }
  }
  None
}

fn mode_stepb(j: &J) -> String {
  let (rb, b0, r, bk) = step_b(j["src"].as_str().unwrap_or(""), j["k"].as_u64().unwrap_or(1));
  format!("{}\u{1}{}\u{1}{}\u{1}{}", rb, b0, r, bk)
}

fn mode_step(j: &J) -> String {
  let src = j["src"].as_str().unwrap_or("");
  let k = j["k"].as_u64().unwrap_or(1);
  // interpreter A: interpret, then k single steps
  let mut a = Interpreter::new(0);
  let ra = eval(&mut a, src);
  let s0 = dump_symbols(&a);
  let mut singles: Vec<String> = vec![];
  for _ in 0..k {
    let r = match catch_unwind(AssertUnwindSafe(|| a.step(0, 1))) {
      Ok(Ok(v)) => canon(&v), Ok(Err(e)) => errs(&e), Err(_) => "(panic step)".to_string() };
    singles.push(format!("(st {} {})", r, dump_symbols(&a)));
  }
  // interpreter B: interpret, then one request for k steps.  With "xproc" B runs in a separate OS process
  // (a child `mvh stepb`), so that process-wide state (hash seeds, allocator, statics) differs as well.
  let (rb, b0, r, bk) = if j.get("xproc").is_some() {
    match step_b_child(src, k) { Some(t) => t, None => ("(childfail)".to_string(), "(syms)".to_string(), "(childfail)".to_string(), "(syms)".to_string()) }
  } else { step_b(src, k) };
  let want_plan = j.get("plan").is_some();
  format!("(stepobs {} {} (singles {}) {} {} (batch {} {}) {})", ra, s0, singles.join(" "), rb, b0, r, bk, if want_plan { plan_dump(&a) } else { "(plan)".to_string() })
}

fn run_bytes(bytes: &[u8], want_restep: bool) -> (String, String, String, String, String) {
  // returns (load, reencode, run, instrs, restep)
  let pp = match catch_unwind(|| ParsedProgram::from_bytes(bytes)) {
    Ok(Ok(p)) => p,
    Ok(Err(e)) => return (errs(&e), "(na)".into(), "(na)".into(), "(instrs)".into(), "(na)".into()),
    Err(_) => return ("(panic load)".into(), "(na)".into(), "(na)".into(), "(instrs)".into(), "(na)".into()),
  };
  let re = match catch_unwind(AssertUnwindSafe(|| pp.to_bytes())) {
    Ok(Ok(b)) => if b == bytes { "(same)".to_string() } else { format!("(differs {})", b.len()) },
    Ok(Err(e)) => errs(&e),
    Err(_) => "(panic reencode)".to_string(),
  };
  let instrs: Vec<String> = pp.instrs.iter().map(instr_sx).collect();
  let mut i2 = Interpreter::new(1);
  let run = match catch_unwind(AssertUnwindSafe(|| i2.run_program(&pp))) {
    Ok(Ok(v)) => canon(&v),
    Ok(Err(e)) => errs(&e),
    Err(_) => "(panic run)".to_string(),
  };
  // re-evaluate the loaded program once (REPL step after load): informative, see Model/Bytecode.v restep
  let restep = if !want_restep || run.starts_with("(err") || run.starts_with("(panic") { "(na)".to_string() } else {
    match catch_unwind(AssertUnwindSafe(|| i2.step(0, 1))) {
      Ok(Ok(v)) => canon(&v),
      Ok(Err(e)) => errs(&e),
      Err(_) => "(panic restep)".to_string(),
    }
  };
  ("(ok)".into(), re, run, format!("(instrs {})", instrs.join(" ")), restep)
}

fn with_symbols(intrp: &mut Interpreter, arr: &Vec<J>) -> Option<Vec<u8>> {
  let ctx = intrp.context.as_mut()?;
  for (k, s) in arr.iter().enumerate() {
    let name = s[0].as_str().unwrap_or("");
    let reg = s[1].as_u64().unwrap_or(0) as u32;
    let m = s[2].as_bool().unwrap_or(false);
    ctx.define_symbol(k, reg, name, m);
  }
  match catch_unwind(AssertUnwindSafe(|| ctx.compile())) { Ok(Ok(b)) => Some(b), _ => None }
}

fn mode_bytecode(j: &J) -> String {
  let src = j["src"].as_str().unwrap_or("");
  let mut intrp = Interpreter::new(0);
  let r = eval(&mut intrp, src);
  if r.starts_with("(perr") || r.starts_with("(err") || r.starts_with("(panic") {
    return format!("(bc {} (na) (na) (na) (na) (instrs) (plan) \"\")", r);
  }
  let plan = if j.get("plan").is_some() { plan_dump(&intrp) } else { "(plan)".to_string() };
  let bc = match catch_unwind(AssertUnwindSafe(|| intrp.compile())) {
    Ok(Ok(b)) => b,
    Ok(Err(e)) => return format!("(bc {} {} (na) (na) (na) (instrs) {} \"\")", r, errs(&e), plan),
    Err(_) => return format!("(bc {} (panic compile) (na) (na) (na) (instrs) {} \"\")", r, plan),
  };
  // C07: optionally define symbols (name, register, mutable) in the compile context and lay the file out again
  // with CompileCtx::compile, so that the symbol and dictionary sections of emitted files are not empty
  let bc = match j.get("defsyms").and_then(|x| x.as_array()) {
    Some(arr) => with_symbols(&mut intrp, arr).unwrap_or(bc),
    None => bc,
  };
  let (load, re, run, instrs, restep) = run_bytes(&bc, j.get("restep").is_some());
  let want_hex = j.get("hex").and_then(|x| x.as_bool()).unwrap_or(false);
  format!("(bc {} (ok {}) {} {} {} {} {} {} {})", r, bc.len(), load, re, run, instrs, plan, qstr(&if want_hex { hex(&bc) } else { String::new() }), restep)
}

fn instr_sx(i: &DecodedInstr) -> String {
  match i {
    DecodedInstr::ConstLoad { dst, const_id } => format!("(cl {} {})", dst, const_id),
    DecodedInstr::NullOp { fxn_id, dst } => format!("(nul {} {})", fxn_id, dst),
    DecodedInstr::UnOp { fxn_id, dst, src } => format!("(un {} {} {})", fxn_id, dst, src),
    DecodedInstr::BinOp { fxn_id, dst, lhs, rhs } => format!("(bin {} {} {} {})", fxn_id, dst, lhs, rhs),
    DecodedInstr::TernOp { fxn_id, dst, a, b, c } => format!("(tern {} {} {} {} {})", fxn_id, dst, a, b, c),
    DecodedInstr::QuadOp { fxn_id, dst, a, b, c, d } => format!("(quad {} {} {} {} {} {})", fxn_id, dst, a, b, c, d),
    DecodedInstr::VarArg { fxn_id, dst, args } => format!("(var {} {} ({}))", fxn_id, dst, args.iter().map(|a| a.to_string()).collect::<Vec<_>>().join(" ")),
    DecodedInstr::Ret { src } => format!("(ret {})", src),
    DecodedInstr::Unknown { opcode, rest } => format!("(unknown {} {})", opcode, rest.len()),
  }
}

fn header_sx(h: &ByteCodeHeader) -> String {
  format!("(header {} {} {} {} {} {} {} {} {} {} {} {} {} {} {} {} {} {} {} {} {} {})",
    u32::from_le_bytes(h.magic), h.version, h.mech_ver, h.flags, h.reg_count, h.instr_count,
    h.feature_count, h.feature_off, h.types_count, h.types_off, h.const_count, h.const_tbl_off,
    h.const_tbl_len, h.const_blob_off, h.const_blob_len, h.symbols_len, h.symbols_off,
    h.instr_off, h.instr_len, h.dict_off, h.dict_len, h.reserved)
}

fn mode_loader(j: &J) -> String {
  let bytes = unhex(j["hex"].as_str().unwrap_or(""));
  if j.get("crc").is_some() { return format!("(crc {})", crc32fast::hash(&bytes)); }
  let pp = match catch_unwind(|| ParsedProgram::from_bytes(&bytes)) {
    Ok(Ok(p)) => p,
    Ok(Err(e)) => return format!("(load {})", errs(&e)),
    Err(_) => return "(load (panic load))".to_string(),
  };
  let mut vals = "(vals na)".to_string();
  let dec = match catch_unwind(AssertUnwindSafe(|| pp.decode_const_entries())) {
    Ok(Ok(v)) => {
      // canonical print of every decoded constant (a printer panic is reported, never propagated)
      vals = match catch_unwind(AssertUnwindSafe(|| v.iter().map(|x| canon(x)).collect::<Vec<_>>().join(" "))) {
        Ok(s) => format!("(vals ok {})", s),
        Err(_) => "(vals panic)".to_string(),
      };
      format!("(ok {})", v.len())
    }
    Ok(Err(e)) => errs(&e),
    Err(_) => "(panic decode)".to_string(),
  };
  let re = match catch_unwind(AssertUnwindSafe(|| pp.to_bytes())) {
    Ok(Ok(b)) => if b == bytes { "(same)".to_string() } else { format!("(differs {} {})", b.len(), qstr(&hex(&b))) },
    Ok(Err(e)) => errs(&e),
    Err(_) => "(panic reencode)".to_string(),
  };
  let consts: Vec<String> = pp.const_entries.iter().map(|c| format!("({} {} {} {} {} {} {})", c.type_id, c.enc, c.align, c.flags, c.reserved, c.offset, c.length)).collect();
  let instrs: Vec<String> = pp.instrs.iter().map(instr_sx).collect();
  // C07 extension (additive, after the old fields): every decoded section
  let feats: Vec<String> = pp.features.iter().map(|f| f.to_string()).collect();
  let types: Vec<String> = pp.types.entries.iter().map(|e| format!("({} {})", e.tag as u16, qstr(&hex(&e.bytes)))).collect();
  let mut syms: Vec<(u64, u8, u32)> = pp.symbols.iter().map(|(id, reg)| (*id, if pp.mutable_symbols.contains(id) { 1 } else { 0 }, *reg)).collect();
  syms.sort();
  let syms: Vec<String> = syms.iter().map(|(i, m, r)| format!("({} {} {})", i, m, r)).collect();
  let mut dict: Vec<(u64, String)> = pp.dictionary.iter().map(|(id, n)| (*id, hex(n.as_bytes()))).collect();
  dict.sort();
  let dict: Vec<String> = dict.iter().map(|(i, n)| format!("({} {})", i, qstr(n))).collect();
  format!("(load (ok) {} (consts {}) (instrs {}) {} {} (nsyms {}) (ndict {}) (features {}) (types {}) (syms {}) (dict {}) (blob {}) {})",
    header_sx(&pp.header), consts.join(" "), instrs.join(" "), dec, re, pp.symbols.len(), pp.dictionary.len(),
    feats.join(" "), types.join(" "), syms.join(" "), dict.join(" "), qstr(&hex(&pp.const_blob)), vals)
}

fn main() {
  if std::env::var("MVH_PANIC").is_err() { std::panic::set_hook(Box::new(|_| {})); }
  else { std::panic::set_hook(Box::new(|i| { eprintln!("PANIC {}", i); })); }
  let mode = std::env::args().nth(1).unwrap_or("prog".to_string());
  let stdin = std::io::stdin();
  let stdout = std::io::stdout();
  let mut out = stdout.lock();
  for line in stdin.lock().lines() {
    let line = match line { Ok(l) => l, Err(_) => break };
    if line.trim().is_empty() { continue; }
    let j: J = match serde_json::from_str(&line) { Ok(j) => j, Err(_) => { writeln!(out, "?\t(badjson)").ok(); continue; } };
    let id = j["id"].as_str().map(|s| s.to_string()).unwrap_or_else(|| j["id"].to_string());
    // announce start so that an abort/hang can be attributed to this case
    writeln!(out, "#start\t{}", id).ok();
    out.flush().ok();
    let r = match mode.as_str() {
      "prog" => mode_prog(&j),
      "session" => mode_session(&j),
      "multi" => mode_multi(&j),
      "step" => mode_step(&j),
      "stepb" => mode_stepb(&j),
      "bytecode" => mode_bytecode(&j),
      "loader" => mode_loader(&j),
      "fsm" => mode_fsm::mode_fsm(&j),
      "parse" => mode_parse::mode_parse(&j),
      "doc" => mode_doc::mode_doc(&j),
      "format" => mode_format::mode_format(&j),
      _ => "(badmode)".to_string(),
    };
    writeln!(out, "{}\t{}", id, r).ok();
    out.flush().ok();
  }
}
